"""C07 — emitted datapack is closed and loadable under every configuration.

Proof step (Props/C07.v) + trace correspondence (the operation sequence of real compiles, logged by
optrace.py, replayed in Model/Alloc.v and compared with the real file map) + the direct oracle on every
real output (dangling reference / illegal path / empty line / missing tag entry) as the search for failing inputs.
"""
from __future__ import annotations

import json
import re
from concurrent.futures import ThreadPoolExecutor
from pathlib import Path

from lib import (Check, COMMON_TRUSTED, NCPU, REPO, VERIF, coq_bool, coq_list, coq_str, coq_z, known_for,
                 parse_nat_list, run_coq_files, run_py)
import c07_disklib

PROP = "C07"

# (round 3) Coq parses string literals slowly (~20 kB/s) and a trace names most lines twice (in the operations and in the real
# file map): inside one generated case file every distinct string is defined once (`Definition s_<k> := "..."`) and referred to
# by name; the real content of a file is `jn [<its lines>]` = the exact text ("\n".join(lines)).
_lib_coq_str = coq_str
_INTERN: dict | None = None


def coq_str(x: str) -> str:          # noqa: F811  (shadows lib.coq_str on purpose)
    if _INTERN is None or len(x) < 6:
        return _lib_coq_str(x)
    if x not in _INTERN:
        _INTERN[x] = f"s_{len(_INTERN)}"
    return _INTERN[x]


def coq_text(content: str) -> str:
    """a file's content, line by line (exactly content.split("\n") joined by "\n" again)"""
    if _INTERN is None:
        return _lib_coq_str(content)
    return f"(jn {coq_list(coq_str(l) for l in content.split(chr(10)))})"
EMPTY_AFTER_RUN_ID = "C07-empty-body-after-run"     # id used if fix dcc62bc is ever reverted
OPTRACE = VERIF / "harness" / "optrace.py"

DEFAULT_CERT = dict(LOAD="__load__", TICK="__tick__", PRIVATE="__private__", VAR="__variable__", INT="__int__",
                    STORAGE="__storage__")
CERTS = [
    DEFAULT_CERT,
    dict(LOAD="init", TICK="loop", PRIVATE="priv", VAR="v", INT="i", STORAGE="stor"),
    dict(LOAD="l0ad", TICK="t1ck", PRIVATE="__p__", VAR="var.s", INT="const-int", STORAGE="s_t"),
    dict(LOAD="sys/load", TICK="sys/tick", PRIVATE="jmc/internal", VAR="vars", INT="ints", STORAGE="st"),
    dict(LOAD="a", TICK="b", PRIVATE="c", VAR="d", INT="e", STORAGE="f"),
]
NAMESPACES = ["mypack", "ns_1.x-y", "TEST"]
PACK_FORMATS = [4, 7, 10, 15, 16, 18, 26, 33, 41, 47, 48, 57, 61, 71, 81, 88, 107.1]

HEADER_RE = re.compile(r"^[ \t]*#[a-z_]", re.M)


def cert_text(c):
    return "\n".join(f"{k}={v}" for k, v in c.items())


def complete_cert(text: str | None) -> str:
    """jmc.txt with every key present (missing keys would inherit the previous compile's names: property C12)."""
    have = {}
    for line in (text or "").split("\n"):
        if "=" in line:
            k, v = line.split("=", 1)
            have[k.strip()] = v.strip()
    for k, v in DEFAULT_CERT.items():
        have.setdefault(k, v)
    return "\n".join(f"{k}={v}" for k, v in have.items())


# --------------------------------------------------------------------------- running the tracer

def trace_jobs(jobs: list[dict], chunk: int = 40) -> list[dict]:
    if not jobs:
        return []
    chunks = [jobs[i:i + chunk] for i in range(0, len(jobs), chunk)]
    with ThreadPoolExecutor(max_workers=NCPU) as ex:
        res = list(ex.map(lambda c: run_py(OPTRACE, {"mode": "jobs", "jobs": c}, timeout=900), chunks))
    return [r for rs in res for r in rs]


# --------------------------------------------------------------------------- Coq terms

def names_term(cfg):
    return (f'(mkNames {coq_str(cfg["ns"])} {coq_str(cfg["var"])} {coq_str(cfg["int"])} {coq_str(cfg["private"])} '
            f'{coq_str(cfg["load"])} {coq_str(cfg["tick"])} {coq_str(cfg["storage"])})')


def cfg_term(cfg):
    return (f'(mkCfg {names_term(cfg)} {coq_bool(cfg["legacy"])} {coq_list(coq_str(x) for x in cfg["overrides"])} '
            f'{coq_list(coq_str(x) for x in cfg["links"])} {coq_list(coq_str(x) for x in cfg["credits"])})')


def strs(xs):
    return coq_list(coq_str(x) for x in xs)


class Unsupported(Exception):
    pass


def op_term(op):
    k = op[0]
    if k == "new":
        return f"ONew {op[1]} {strs(op[2])}"
    if k == "fapp":
        return f"OApp {op[1]} {strs(op[2])}"
    if k == "fset":
        return f"OFSet {coq_str(op[1])} {op[2]}"
    if k == "pset":
        return f"OPSet {coq_str(op[1])} {coq_str(str(op[2]))} {op[3]}"
    if k == "jset":
        return f"OJSet {coq_str(op[1])} {coq_str(op[2])} {coq_bool(op[3])}"
    if k == "called":
        return f"OCalled {coq_str(op[1])} {coq_str(op[2])}"
    if k == "upriv":
        return f"OUPriv {coq_str(op[1])} {coq_str(op[2])}"
    if k == "lazy":
        return f"OLazy {coq_str(op[1])}"
    if k == "lazydel":
        return f"OLazyDel {coq_str(op[1])}"
    if k == "count":
        return f"OCount {coq_str(op[1])} {coq_str(op[2])}"
    if k == "callf":
        return f"OCallF {coq_str(op[1])} {coq_str(op[2])} {coq_str(op[3])}"
    if k == "def":
        return f"ODef {coq_str(op[1])}"
    raise Unsupported(f"operation {k} is not part of Model/Alloc.v")


def bdata_term(b):
    af = coq_list(f"({coq_str(p)}, {strs(cmds)})" for p, cmds in b["after_func"])
    sb = coq_list(f"({coq_str(o)}, {coq_str(c)})" for o, c in b["scoreboards"])
    return (f'(mkB {strs(b["loads"])} {strs(b["ticks"])} {strs(b["after_loads"])} {strs(b["after_ticks"])} {af} '
            f'{coq_list(coq_z(n) for n in b["ints"])} {sb} {strs(b["envs"])} {coq_bool(b["delayed_error"])})')


def default_cfg(job):
    """cfg of a compile that failed before build() (only used for the op replay: names and namespace)."""
    cert = dict(DEFAULT_CERT)
    for line in (job.get("cert") or "").split("\n"):
        if "=" in line:
            k, v = line.split("=", 1)
            cert[k.strip()] = v.strip()
    pf = float(job.get("pack_format") or -1)
    return {"ns": job.get("namespace", "TEST"), "legacy": pf < 48, "private": cert["PRIVATE"], "load": cert["LOAD"],
            "tick": cert["TICK"], "var": cert["VAR"], "int": cert["INT"], "storage": cert["STORAGE"],
            "overrides": [], "links": [], "credits": []}


def refused_tag_json(res):
    """fixes/C07-reject-json-at-generated-function-tag.patch: right after DataPack.build(), compiling.build refuses a user json stored at
    the key of a function tag it generates unless that json registers JMC's function itself.  Model/Alloc.v has the pinned behaviour (the
    json replaces the tag — hypothesis tag_free of C07_load_tag / C07_tick_tag).  True iff the real compile gave that diagnostic AND the
    trace really holds such a json at such a key: the compile is then compared like one that failed before build() (nothing emitted)."""
    cfg = res.get("cfg")
    if res["ok"] or not res.get("jmc") or not cfg or "minecraft" not in cfg["overrides"]:
        return False
    ff = "functions" if cfg["legacy"] else "function"
    for op in res["ops"]:
        for tag in ("load", "tick"):
            if (op[0] == "jset" and op[1] == f"minecraft/tags/{ff}/{tag}" and f"JSON({op[1]})" in (res.get("msg") or "")
                    and f'"{cfg["ns"]}:{cfg[tag]}"' not in op[2]):
                return True
    return False


def case_term(job, res):
    """Coq term of one traced compile, or raises Unsupported."""
    if res.get("unsupported"):
        raise Unsupported("; ".join(res["unsupported"]))
    ops, b = [], None
    for op in res["ops"]:
        if op[0] == "build":
            b = None if refused_tag_json(res) else op[1]
        else:
            ops.append(op_term(op))
    cfg = res["cfg"] or default_cfg(job)
    files = coq_list(f"({coq_str(k)}, {coq_text(v)})" for k, v in (res.get("files") or {}).items())
    return (f'mkCase {cfg_term(cfg)} {coq_list(ops)} {"(Some " + bdata_term(b) + ")" if b else "None"} '
            f'{coq_bool(res["ok"])} {coq_str(res.get("exc") or "")} {coq_bool(bool(res.get("jmc")))} {files}')


COQ_HEADER = ("From Coq Require Import ZArith String List.\n"
              "From JMCV Require Import Model.Names Model.ResLoc Model.Alloc Run.C07.\n"
              "Import ListNotations.\nOpen Scope string_scope.\n")


def eval_trace_cases(pairs: list, per_file: int = 12, prefix: str = "trace"):
    """pairs = [(job, res)] (every one accepted by case_term) -> dict(mismatch=[...], undisciplined=[...], not_closed=[...], illegal=[...],
    fileless=[...], codes={i: code}), errors.
    One replay + one build per case (Run.C07.summary = [case_code; undisciplined; not closed; illegal path; fileless call])."""
    global _INTERN
    files, terms = [], pairs
    for fi, start in enumerate(range(0, len(pairs), per_file)):
        _INTERN = {}
        try:
            chunk = [case_term(job, res) for job, res in pairs[start:start + per_file]]
            defs = "".join(f"Definition {name} := {_lib_coq_str(text)}.\n" for text, name in _INTERN.items())
        finally:
            _INTERN = None
        body = (COQ_HEADER + "Definition jn := String.concat nls.\n" + defs + "Definition cases := [\n" + ";\n".join(chunk)
                + "\n].\nEval vm_compute in summaries cases.\n")
        files.append((f"{prefix}_{fi}.v", body))
    outs = run_coq_files(PROP, files, timeout=900, clean=False)
    res = dict(mismatch=[], undisciplined=[], not_closed=[], illegal=[], fileless=[], codes={})
    errs = []
    for fi, (ok, out) in enumerate(outs):
        n_here = len(terms[fi * per_file:(fi + 1) * per_file])
        rows = re.findall(r"\[((?:\s*\d+\s*;?)+)\]", out[out.index("="):]) if ok and "=" in out else []
        if not ok or len(rows) != n_here:
            errs.append(f"{files[fi][0]}: {out[-2000:]}")
            continue
        for j, row in enumerate(rows):
            code, und, ncl, ill, fl = [int(x) for x in re.findall(r"\d+", row)]
            k = fi * per_file + j
            if code:
                res["mismatch"].append(k)
                res["codes"][k] = code
            for name, flag in (("undisciplined", und), ("not_closed", ncl), ("illegal", ill), ("fileless", fl)):
                if flag:
                    res[name].append(k)
    return res, errs


# --------------------------------------------------------------------------- the direct oracle on a real output

SEG = r"[a-z0-9_.\-]+"
LEGAL_PATH = re.compile(rf"^{SEG}(/{SEG})*$")
LEGAL_NS = re.compile(rf"^{SEG}$")


def legal_path(p: str) -> bool:
    return bool(LEGAL_PATH.match(p)) and all(set(s) != {"."} for s in p.split("/"))


QUOTED_TAIL = re.compile(r'^(#?[A-Za-z0-9_.\-]+:[A-Za-z0-9_./\-]+)[\\"\']')


def line_refs(line: str):
    ws = line.split(" ")
    out = []
    for a, b in zip(ws, ws[1:]):
        if a in ("function", "$function") and "$(" not in b and b:
            q = QUOTED_TAIL.match(b)
            if q:
                b = q.group(1)      # inside quoted text (a click event): the location ends at the closing quote
            if b.startswith("#"):
                if ":" in b[1:]:
                    out.append(("tag", b[1:]))
            elif ":" in b:
                out.append(("func", b))
    return out


# (round 2) A function file is read by Minecraft line by line, lines ending at \n, \r\n or \r ONLY (U+2028, U+2029, NEL, VT, FF,
# FS, GS, RS are ordinary characters of a `say` text).  Every such line must be a command: its first word (after the `$` of a
# macro line) is a command name, or the line is a `#` comment.  Written vocabulary (Java Edition 1.13 ... 1.21.x):
COMMAND_WORDS = set("""advancement attribute ban ban-ip banlist bossbar clear clone damage data datapack debug defaultgamemode deop
dialog difficulty effect enchant execute experience fetchprofile fill fillbiome forceload function gamemode gamerule give help item
jfr kick kill list locate locatebiome loot me msg op pardon pardon-ip particle perf place placefeature playsound publish random
recipe reload replaceitem return ride rotate save-all save-off save-on say schedule scoreboard seed setblock setidletimeout
setworldspawn spawnpoint spectate spreadplayers stop stopsound stopwatch summon tag team teammsg teleport tell tellraw test tick
time title tm tp transfer trigger version w waypoint weather whitelist worldborder xp""".split())
MC_LINE_BREAK = re.compile(r"\r\n|\n|\r")


# (round 3) `execute ... if|unless <kind> ...`: the word after a top-level `if` / `unless` must be a condition kind (a @lazy function
# used as a condition was expanded in place: `execute if say hi run ...`, which Minecraft cannot parse: the whole file fails to load)
CONDITION_KINDS = {"biome", "block", "blocks", "data", "dimension", "entity", "function", "loaded", "predicate", "score", "items", "stopwatch"}


def top_level_words(text: str) -> list[str]:
    """words separated by blanks outside brackets and quotes"""
    out, cur, depth, quote, esc = [], "", 0, "", False
    for ch in text:
        if quote:
            cur += ch
            if esc:
                esc = False
            elif ch == "\\":
                esc = True
            elif ch == quote:
                quote = ""
            continue
        if ch in "\"'":
            quote = ch
        elif ch in "[{(":
            depth += 1
        elif ch in "]})":
            depth = max(0, depth - 1)
        if ch == " " and depth == 0:
            out.append(cur)
            cur = ""
        else:
            cur += ch
    out.append(cur)
    return out


def bad_condition(line: str, extra_kinds=()):
    """the first `if|unless <word>` of an execute line (before its `run`) whose <word> is no condition kind, or None"""
    body = line[1:] if line.startswith("$") else line
    if not body.startswith("execute "):
        return None
    ws = top_level_words(body)
    for i, w in enumerate(ws[1:-1], 1):
        if w == "run":
            return None
        if w in ("if", "unless") and ws[i - 1] not in ("score", "storage", "bossbar") and "$(" not in ws[i + 1]:
            if ws[i + 1] not in CONDITION_KINDS and ws[i + 1] not in extra_kinds:
                return f"{w} {ws[i + 1]}"
    return None


# (round 4) one line = ONE command.  The commands JMC generates in front of a condition end in `scoreboard players set|add|remove
# <holder> <objective> <integer>`: nothing may follow the integer on that line (ast_to_strings joined two blocks of pre-commands
# without a newline: `... set __logic__0 __variable__ 1data modify storage ...`).
def glued_command(line: str):
    body = line[1:] if line.startswith("$") else line
    ws = top_level_words(body)
    for i in range(len(ws) - 5):
        if ws[i] == "scoreboard" and ws[i + 1] == "players" and ws[i + 2] in ("set", "add", "remove") and (
                i == 0 or (ws[i - 1] == "run" and ws[0] == "execute")):
            value, rest = ws[i + 5], ws[i + 6:]
            if "$(" in value:
                return None
            if not re.fullmatch(r"-?\d+", value) or rest:
                return " ".join(ws[i:i + 6 + min(len(rest), 3)])
            return None
    return None


# (final pass) a line JMC generated must be a COMPLETE command: the text component of a generated `tellraw` is JSON
# (`tellraw @a "[WARNING] Missing dependency: other` - JMC.require(allowMissing=true) without the closing quote - does not load).
TELLRAW = re.compile(r'^(?:execute (?:(?!\brun\b).)*\brun )?(?:return run )?tellraw (@[a-z](?:\[[^\] ]*\])?|[A-Za-z0-9_.#\-]+) (["{\[].*)$')


def malformed_text_component(line: str):
    if line.startswith("$") or "$(" in line:
        return None                     # macro lines: the text is completed by Minecraft's substitution
    m = TELLRAW.match(line)
    if not m:
        return None
    try:
        json.loads(m.group(2))
        return None
    except ValueError:
        return m.group(2)[:200]


def custom_conditions(job) -> set:
    return set(re.findall(r"^[ \t]*#condition[ \t]+(\S+)", job.get("header") or "", re.M))


def custom_commands(job) -> set:
    return set(re.findall(r"^[ \t]*#command[ \t]+(\S+)", job.get("header") or "", re.M))


EMBEDDED_REF = re.compile(r'(?<![a-z0-9_.\-])function (#?)([A-Za-z0-9_.\-]+:[A-Za-z0-9_./\-]+)')


def embedded_refs(text: str):
    """`function <ns>:<path>` anywhere in the text, also inside quoted JSON (click events of signs / text properties, commands
    stored in NBT): references that the word-by-word scan of line_refs does not see (strengthening round 1)."""
    return [("tag" if m.group(1) else "func", m.group(2)) for m in EMBEDDED_REF.finditer(text)
            if text[m.end():m.end() + 2] != "$("]          # `.../$(switch_key)`: a macro, resolved at run time


def json_refs(is_func_tag: bool, text: str):
    out = []
    for line in text.split("\n"):
        t = line.lstrip(" ")
        if t.startswith('"function": "'):
            v = t[len('"function": "'):].split('"')[0]
            if ":" in v:
                out.append(("func", v))
        elif is_func_tag and t.startswith('"'):
            v = t[1:].split('"')[0]
            if v == "id" and t.startswith('"id": "'):
                v = t[len('"id": "'):].split('"')[0]      # (round 4) an entry written as {"id": "<loc>", "required": ...}
            if v.startswith("#"):
                if ":" in v[1:]:
                    out.append(("tag", v[1:]))
            elif ":" in v:
                out.append(("func", v))
    return out


def oracle(job, res) -> list[dict]:
    """Failures of property C07 visible in the real output of one accepted compile (the search)."""
    files, cfg = res["files"], res["cfg"]
    ns, ff = cfg["ns"], ("functions" if cfg["legacy"] else "function")
    own = [n for n in [ns] + cfg["overrides"] if n not in cfg["links"]]
    fails = []
    src = (job.get("src") or "") + "\n" + (job.get("header") or "")
    extra_commands = custom_commands(job)
    extra_conditions = custom_conditions(job)
    names_legal = (LEGAL_NS.match(ns) and all(legal_path(cfg[k]) for k in ("private", "load", "tick"))
                   and all(LEGAL_NS.match(o) for o in cfg["overrides"]))

    def resolves(kind, loc):
        n, path = loc.split(":", 1)
        if kind == "func":
            return f"VIRTUAL/data/{n}/{ff}/{path}.mcfunction" in files
        return f"VIRTUAL/data/{n}/tags/{ff}/{path}.json" in files

    stored_funcs = {op[1] for op in res.get("ops") or [] if op[0] == "fset"}
    stored_jsons = {op[1] for op in res.get("ops") or [] if op[0] == "jset" and len(op) > 3 and op[3]}

    def defined_by_program(kind, loc):
        """(round 4) a reference the user wrote literally (vanilla syntax) is the user's business only if the program does not
        define its target: `function #ns:t1` next to `new tags.function(t1) {...}` (spelled like the folder of the pack
        format) or `function ns:a/b` next to `function a.b() {...}` must resolve"""
        n, path = loc.split(":", 1)
        key = path if n == ns else f"{n}/{path}"
        if kind == "func":
            return key in stored_funcs
        # judged on the SOURCE: `new tags.<folder of this pack format>(<name>)` (a tag JMC files somewhere else is JMC's failure)
        name = re.escape(path.replace("/", ".") if n == ns else n + "." + path.replace("/", "."))
        return (re.search(rf"new\s+tags\.{ff}\s*\(\s*{name}\s*\)", src, re.I) is not None
                or (f"tags/{ff}/{path}" if n == ns else f"{n}/tags/{ff}/{path}") in stored_jsons)

    for path, content in files.items():
        m = re.match(r"^VIRTUAL/data/([^/]*)/(.*)\.(mcfunction|json)$", path)
        if not m:
            fails.append(dict(kind="illegal-path", path=path))
            continue
        n, rel, ext = m.groups()
        if names_legal and not (LEGAL_NS.match(n) and legal_path(rel)):
            fails.append(dict(kind="illegal-path", path=path))
        is_json = ext == "json"
        if is_json:
            refs = json_refs(rel.startswith(f"tags/{ff}/"), content)
        else:
            body = content
            if cfg["credits"]:
                body = content.split("\n\n\n", 1)[0] if "\n\n\n" in content else content
            lines = MC_LINE_BREAK.split(body) if body else []
            for i, line in enumerate(lines):
                if line == "":
                    fails.append(dict(kind="empty-line", path=path, line_no=i + 1))
                    break
                word = line.split(" ", 1)[0].lstrip("$")
                if not line.startswith("#") and word not in COMMAND_WORDS and word not in extra_commands:
                    # e.g. the tail of a `say` text that was cut at a character Python's splitlines() treats as a line end
                    fails.append(dict(kind="not-a-command", path=path, line_no=i + 1, line=line[:300],
                                      previous_line=lines[i - 1][:300] if i else None,
                                      # JMC.put("abc") and friends: the user supplied exactly this line as one string
                                      user_literal=any(q + line + q in src for q in ('"', "'"))))
                    break
                bc = bad_condition(line, extra_conditions)
                if bc:
                    fails.append(dict(kind="not-a-condition", path=path, line_no=i + 1, line=line[:300], condition=bc,
                                      user_literal=bc in src))
                    break
                gl = glued_command(line)
                if gl:
                    fails.append(dict(kind="two-commands-on-one-line", path=path, line_no=i + 1, line=line[:400], at=gl,
                                      user_literal=any(q + line + q in src for q in ('"', "'")) or gl in src))
                    break
                tc = malformed_text_component(line)
                if tc and tc not in src and not any(part in src for part in (tc.rstrip(), line)):
                    fails.append(dict(kind="malformed-text-component", path=path, line_no=i + 1, line=line[:400], component=tc,
                                      user_literal=False))
                    break
                if line != "" and (line.strip() == "" or re.search(r"(^| )run ?$", line)):
                    # a line that is not a command: blank, or an `execute ... run` with nothing after it
                    fails.append(dict(kind="incomplete-command", path=path, line_no=i + 1, line=line[:300]))
                    break
            refs = [r for line in lines for r in line_refs(line)]
        direct = set(refs)
        refs = refs + [r + ("embedded",) for r in embedded_refs(content if is_json else "\n".join(lines)) if r not in direct]
        for kind, loc, *emb in refs:
            if loc.split(":", 1)[0] not in own:
                continue
            if not resolves(kind, loc):
                literal = (loc in src or (bool(emb) and loc.rstrip(".") in src)) and not defined_by_program(kind, loc)
                fails.append(dict(kind="dangling-reference", path=path, ref=("#" if kind == "tag" else "") + loc,
                                  user_literal=literal, embedded=bool(emb),
                                  line=next((l for l in content.split("\n") if loc in l), "")[:300]))
    if not res.get("unsupported"):
        fails.extend(called_without_file(res))
    load_tag = files.get(f"VIRTUAL/data/minecraft/tags/{ff}/load.json")
    if load_tag is None or f'"{ns}:{cfg["load"]}"' not in load_tag:
        fails.append(dict(kind="load-not-registered", tag=load_tag))
    tick_file = files.get(func_file(cfg, cfg["tick"]))
    tick_tag = files.get(f"VIRTUAL/data/minecraft/tags/{ff}/tick.json")
    if tick_file and (tick_tag is None or f'"{ns}:{cfg["tick"]}"' not in tick_tag):
        fails.append(dict(kind="tick-not-registered", tag=tick_tag))
    return fails


def func_file(cfg, p):
    ff = "functions" if cfg["legacy"] else "function"
    first = p.split("/")[0]
    if first in cfg["overrides"]:
        return f"VIRTUAL/data/{first}/{ff}/{p[len(first) + 1:]}.mcfunction"
    return f"VIRTUAL/data/{cfg['ns']}/{ff}/{p}.mcfunction"


# known-finding rules: a failure is explained by finding <id> iff the predicate holds (decidable on input + real output)
def _bare_override(job, res, f):
    return any(re.search(r"/\.(mcfunction|json)$", k) for k in (res.get("files") or {}))


RULES = {
    "C07-bare-override-namespace": _bare_override,
    "C07-empty-path-segment": lambda job, res, f: f["kind"] == "dangling-reference" and "//" in f["ref"],
    "C07-schedule-unchecked": lambda job, res, f: f["kind"] == "dangling-reference" and re.search(
        r"schedule (function|clear) " + re.escape(f["ref"]) + r"( |$)", f.get("line", "")) is not None,
    "C07-funcmap-raw-keyword": lambda job, res, f: f["kind"] == "dangling-reference" and re.search(
        r"/(right_click_setup|trigger_setup)/", f["path"]) is not None,
    "C07-lazy-call-as-condition": lambda job, res, f: f["kind"] == "not-a-condition",
    "C07-precommand-blocks-glued": lambda job, res, f: f["kind"] == "two-commands-on-one-line" and re.search(
        r" (0|1)(data|execute|scoreboard) ", f.get("line", "")) is not None,
    EMPTY_AFTER_RUN_ID: lambda job, res, f: f["kind"] == "incomplete-command" and re.search(r" run ?$", f.get("line", "")) is not None,
    "C07-json-replaces-function-tag": lambda job, res, f: f["kind"] in ("load-not-registered", "tick-not-registered")
        and re.search(r"new\s+tags?\.functions?\s*\(\s*minecraft\.(load|tick)\s*\)", job.get("src", "")) is not None,
    "C07-internal-name-under-override": lambda job, res, f: f["kind"] in ("load-not-registered", "tick-not-registered", "dangling-reference")
        and any((res.get("cfg") or {}).get(k, "").split("/")[0] in (res.get("cfg") or {}).get("overrides", []) for k in ("load", "tick", "private")),
}


def classify(job, res, f):
    for rid, pred in RULES.items():
        try:
            if pred(job, res, f):
                return rid
        except Exception:  # noqa
            pass
    return None


# --------------------------------------------------------------------------- generators

class Gen:
    """Random core-language programs: functions, classes, if/else chains, loops, switch, anonymous
    functions, schedule, user calls (plain, dotted, this.), @add decorators, overridden namespaces."""

    def __init__(self, rng, overrides=(), tick_name="__tick__", load_name="__load__", p_empty=0.0, builtins=False):
        self.rng, self.overrides = rng, list(overrides)
        self.tick_name, self.load_name = tick_name, load_name
        self.p_empty, self.builtins = p_empty, builtins
        self.n = 0

    def uid(self):
        self.n += 1
        return self.n

    def cond(self):
        r = self.rng
        atoms = ["$a > 1", "$b == 2", "$c <= $a", "$d matches 1..5", "entity @s[tag=x]", "!$e"]
        if self.builtins:
            # (round 4) conditions that bring commands of their own in front of the `execute if`
            atoms = atoms + ['String.isEqual(a:b::c, "abc")', "Object.isEqual(a:b::c, a:b::d)", "Timer.isOver(cd)"]
        k = r.choice([1, 1, 1, 2, 3])
        if k == 1:
            return r.choice(atoms)
        if k == 2:
            return f"{r.choice(atoms)} {r.choice(['&&', '||'])} {r.choice(atoms)}"
        return f"({r.choice(atoms)} || {r.choice(atoms)}) && {r.choice(atoms)}"

    def body(self, depth, fnames, in_class):
        if self.p_empty and self.rng.random() < self.p_empty:
            return self.rng.choice(EMPTY_BODIES[1:])     # a body without any command (blank / comment only)
        n = self.rng.choice([1, 1, 2, 2, 3, 4])
        return " ".join(self.stmt(depth, fnames, in_class) for _ in range(n))

    def stmt(self, depth, fnames, in_class):
        r = self.rng
        simple = depth <= 0 or r.random() < 0.4
        if simple:
            k = r.randrange(7)
            if k == 0:
                return f'say "m{self.uid()}";'
            if k == 1:
                return f'${r.choice("abcde")} {r.choice(["+=", "=", "*=", "%="])} {r.randint(1, 9)};'
            if k == 2 and fnames:
                return f"{r.choice(fnames)}();"
            if k == 3 and in_class:
                return f"this.{r.choice(in_class)}();"
            if k == 4 and fnames:
                return f"schedule function {r.choice(fnames)}() {r.randint(1, 9)}t{r.choice(['', ' append', ' replace'])};"
            if k == 5 and fnames:
                return f"execute as @a at @s run {r.choice(fnames)}();"
            return f'tellraw @a "t{self.uid()}";'
        k = r.randrange(12 if self.builtins else 9)
        B = lambda: self.body(depth - 1, fnames, in_class)  # noqa: E731
        if k == 0:
            s = f"if ({self.cond()}) {{ {B()} }}"
            for _ in range(r.choice([0, 0, 1, 1, 2, 3])):
                s += f" else if ({self.cond()}) {{ {B()} }}"
            if r.random() < 0.5:
                s += f" else {{ {B()} }}"
            return s
        if k == 1:
            return f"while ({self.cond()}) {{ {B()} }}"
        if k == 2:
            return f"do {{ {B()} }} while ({self.cond()});"
        if k == 3:
            v = "$i%d" % self.uid()
            return f"for ({v}=0; {v}<{r.randint(2, 5)}; {v}++) {{ {B()} }}"
        if k == 4:
            def case_body():
                if self.p_empty and r.random() < 2 * self.p_empty:
                    return "break;"
                b = B()
                return "break;" if b in BLANK_BODIES else b + (" break;" if self.p_empty and r.random() < 0.3 else "")
            cases = " ".join(f"case {i + 1}: {case_body()}" for i in range(r.choice([1, 2, 3, 4, 5, 7])))
            return f"switch(${r.choice('abc')}) {{ {cases} }}"
        if k == 9:
            return f"Hardcode.switch(${r.choice('abc')}, (idx)=>{{ {B()} }}, count={r.randint(1, 6)});"
        if k == 10:
            return f"Hardcode.repeat((idx)=>{{ {B()} }}, start=1, stop={r.randint(2, 4)});"
        if k == 11:
            hooks = [f"{h}=()=>{{ {B()} }}" for h in ("onHit", "onStep", "onBeforeStep") if h == "onHit" or r.random() < 0.5]
            return f"Raycast.simple({', '.join(hooks)});"
        if k == 5:
            return f"execute as @a at @s run {{ {B()} }}"
        if k == 6:
            return f"schedule {r.randint(1, 20)}t {r.choice(['', 'append ', 'replace '])}{{ {B()} }}"
        if k == 7:
            return f"execute if entity @s[tag=k{self.uid()}] expand {{ {B()} }}"
        return f"if ({self.cond()}) {{ {B()} }}"

    def load_builtin(self, fnames):
        """a load-only built-in whose arrow functions / function tables have generated bodies"""
        r = self.rng
        B = lambda: self.body(1, fnames, None)  # noqa: E731
        u = self.uid()

        def table():
            keys = sorted(r.sample(range(1, 9), r.randint(1, 4)))
            return "{" + ", ".join(f"{k}: " + (r.choice(fnames) if fnames and r.random() < 0.25 else f"()=>{{ {B()} }}") for k in keys) + "}"
        k = r.randrange(7)
        if k == 0:
            return f"Trigger.setup(trg{u}, {table()});"
        if k == 1:
            return f"RightClick.setup(rc{u}, {table()});"
        if k == 2:
            return f"Timer.add(tm{u}, {r.choice(['runOnce', 'runTick'])}, @a, ()=>{{ {B()} }});"
        if k == 3:
            return f"Player.onEvent(used:carrot_on_a_stick, ()=>{{ {B()} }});"
        if k == 4:
            return f"Trigger.add(tra{u}, ()=>{{ {B()} }});"
        if k == 5:
            return f"Player.{r.choice(['join', 'rejoin', 'firstJoin'])}(()=>{{ {B()} }});"
        return f"Player.die(onDeath=()=>{{ {B()} }}, onRespawn=()=>{{ {B()} }});"

    def program(self):
        r = self.rng
        names = ["main", "util.helper", "Game.Start", "a.b.c", "x1", "loop_body", "on.Tick"]
        if self.overrides:
            names += [f"{o}.ovr{i}" for o in self.overrides for i in range(2)]
        r.shuffle(names)
        fnames = names[:r.randint(1, 5)]
        cls, methods = "Kit" + str(self.uid()), ["m1", "m2", "helper"][:r.randint(1, 3)]
        out = []
        with_class = r.random() < 0.7
        all_callable = fnames + ([f"{cls}.{m}" for m in methods] if with_class else [])
        for f in fnames:
            deco = ""
            if r.random() < 0.15:
                deco = f"@add({r.choice([self.tick_name.replace('/', '.'), self.load_name.replace('/', '.'), fnames[0]])}) "
                if deco.endswith(f"({f}) "):
                    deco = ""
            out.append(f"{deco}function {f}() {{ {self.body(r.choice([1, 2, 2, 3]), all_callable, None)} }}")
        if with_class:
            ms = " ".join(f"function {m}() {{ {self.body(r.choice([1, 2]), all_callable, methods)} }}" for m in methods)
            out.append(f"class {cls} {{ {ms} }}")
        for _ in range(r.choice([0, 1, 2])):
            out.append(self.stmt(2, fnames, None))     # load-function statements
        if self.builtins:
            for _ in range(r.choice([0, 1, 2])):
                out.append(self.load_builtin(all_callable))
        r.shuffle(out)
        prog = "\n".join(out)
        return (LAZY_NOTHING + prog) if "nothing0();" in prog else prog


ADVERSARIAL = [
    # (id, job) — shapes that exercise hand-built references, odd names and odd configurations
    ("sched-undefined", dict(src='function a() { schedule function nothere() 1t; }')),
    ("sched-clear-undefined", dict(src='function a() { schedule clear nothere(); }')),
    ("sched-override", dict(src='function minecraft.t() { say "1"; } function a() { schedule function minecraft.t() 1t; }',
                            header="#override minecraft")),
    ("funcmap-dotted", dict(src='function foo.bar() { say "x"; }\nRightClick.setup(my_id, {1: foo.bar, 2: ()=>{ say "2"; say "3"; }});')),
    ("funcmap-undefined", dict(src='RightClick.setup(my_id, {1: nothere, 5: ()=>{ say "2"; say "3"; }});')),
    ("funcmap-trigger", dict(src='function foo.bar() { say "x"; }\nTrigger.setup(help, {1: foo.bar, 2: ()=>{ say "2"; say "3"; }});')),
    ("empty-segment", dict(src='function a..b() { say "1"; } function c() { a..b(); }')),
    ("empty-segment-class", dict(src='class k..l { function m() { say "1"; this.m(); } }')),
    ("bare-override-function", dict(src='function minecraft() { say "1"; } function c() { minecraft(); }', header="#override minecraft")),
    ("bare-override-json", dict(src='new advancements(minecraft) {"criteria": {"a": {"trigger": "minecraft:tick"}}}',
                                header="#override minecraft")),
    ("json-over-load-tag", dict(src='new tags.functions(minecraft.load) {"values": ["minecraft:foo"]}\nfunction minecraft.foo() { say "1"; }',
                                header="#override minecraft")),
    ("json-over-tick-tag", dict(src='new tags.functions(minecraft.tick) {"values": []}\nfunction __tick__() { say "1"; }',
                                header="#override minecraft")),
    ("user-tag-ok", dict(src='function a.b() { say "1"; }\nnew tags.functions(mytag) {"values": ["TEST:a/b"]}\nfunction c() { function #TEST:mytag; }')),
    ("own-namespace-override", dict(src='function foo() { say "1"; } function mypack.bar() { say "2"; } function c() { foo(); mypack.bar(); }',
                                    header="#override mypack", namespace="mypack")),
    ("load-under-override", dict(src='function a() { say "1"; }', header="#override minecraft",
                                 cert="LOAD=minecraft/load\nTICK=__tick__\nPRIVATE=__private__\nVAR=__variable__\nINT=__int__\nSTORAGE=__storage__")),
    ("private-under-override", dict(src='function a() { if ($x > 1) { say "1"; say "2"; } }', header="#override jmc",
                                    cert="LOAD=__load__\nTICK=__tick__\nPRIVATE=jmc/p\nVAR=__variable__\nINT=__int__\nSTORAGE=__storage__")),
    ("link-call", dict(src='function a() { other.lib.f(); }', header="#link other")),
    ("vanilla-literal", dict(src='function a() { function TEST:nothere; }')),
    # (round 4) references to function TAGS: `function #ns:tag`, `schedule function #ns:tag`, after `run`, a tag naming a tag,
    # entries written as objects; both folder spellings; a tag / an entry that does not exist is the user's literal text
    ("tag-forms", dict(src='function a.b() { say "1"; }\nnew tags.function(t1) {"values": ["TEST:a/b", "#TEST:t2"]}\n'
                           'new tags.function(t2) {"values": [{"id": "TEST:a/b", "required": false}, {"id": "#TEST:t1", "required": false}]}\n'
                           'function c() { function #TEST:t1; schedule function #TEST:t2 5t; execute as @a run function #TEST:t2; }', pack_format=48)),
    ("tag-forms-legacy", dict(src='function a.b() { say "1"; }\nnew tags.functions(t1) {"values": ["TEST:a/b", "#TEST:t2"]}\n'
                                  'new tags.functions(t2) {"values": ["#TEST:t1"]}\nfunction c() { function #TEST:t1; schedule function #TEST:t2 5t replace; }',
                              pack_format=15)),
    ("tag-missing", dict(src='function c() { function #TEST:nothere; }\nnew tags.function(t1) {"values": [{"id": "TEST:gone", "required": true}]}', pack_format=48)),
    ("tag-wrong-folder", dict(src='function a() { say "1"; }\nnew tags.functions(t1) {"values": ["TEST:a"]}\nfunction c() { function #TEST:t1; }', pack_format=48)),
    ("tag-override", dict(src='function minecraft.a() { say "1"; }\nnew tags.function(minecraft.t1) {"values": ["minecraft:a"]}\n'
                              'function c() { function #minecraft:t1; }', header="#override minecraft", pack_format=48)),
    ("credits", dict(src='function a() { if ($x > 1) { say "1"; say "2"; } }', header='#credit "made by me"\n#credit\n#credit "function TEST:not_a_ref"')),
    ("tick-empty", dict(src='function __tick__() { }')),
    ("tick-user", dict(src='function __tick__() { say "1"; }')),
    ("first-join", dict(src='Player.firstJoin(()=>{ say "1"; say "2"; });')),
    ("firstjoin-namedfunc", dict(src='function greet() { say "hi"; }\nPlayer.firstJoin(greet);')),
    ("recipe", dict(src='Recipe.table({"type": "minecraft:crafting_shapeless", "ingredients": [{"item": "minecraft:oak_planks"}], "result": {"item": "minecraft:diamond", "count": 5}}, baseItem=knowledge_book, onCraft=()=>{ say "c1"; say "c2"; });')),
    ("require", dict(src='JMC.require(namespace=other, functionPath="other:main", errorMessage="missing");', header="#link other", pack_format=48)),
    ("require-default", dict(src='JMC.require(namespace=other, functionPath="other:main");', header="#link other", pack_format=48)),
    ("require-allow-missing", dict(src='JMC.require(namespace=other, functionPath="other:main", allowMissing=true);', header="#link other", pack_format=48)),
    ("require-allow-missing-msg", dict(src='JMC.require(namespace=other, functionPath="other:main", errorMessage="not there", allowMissing=true);', header="#link other", pack_format=48)),
    ("require-silent", dict(src='JMC.require(namespace=other, functionPath="other:main", errorMessage="", allowMissing=true);', header="#link other", pack_format=48)),
    ("with-macro", dict(src='function f() { $say "$(x)"; } function g() { f() with {x: 1}; execute as @a run f() with storage a:b c; }', pack_format=48)),
    ("switch-macro", dict(src='function f() { switch($x) { case 1: say "1"; say "1b"; case 5: say "5"; default: say "d"; } }', pack_format=48)),
    ("nested-func-decl", dict(src='class k { function a() { say "o"; function b() { say "i"; this.a(); } } }')),
    ("add-to-func", dict(src='function base() { say "b"; }\n@add(base) function ext() { say "e"; }')),
    ("add-to-undefined", dict(src='@add(nowhere) function ext() { say "e"; }')),
    ("lazy", dict(src='@lazy function lz(a) { say "$a"; } function u() { lz(a="x"); }')),
    ("private-ok", dict(src='class k { @private function p() { say "p"; } function q() { this.p(); } }')),
    ("private-outside", dict(src='class k { @private function p() { say "p"; } } function q() { k.p(); }')),
]

# ---- strengthening round 1: bodies WITHOUT commands at every place where a private function is allocated.
# `@E@` is replaced by each of EMPTY_BODIES ("{}" is rejected by some statements and accepted by others, "{ }" and a
# comment-only body pass the `== "{}"` test of add_arrow_function: the private function is stored with no command and
# must still be written, because the call to it is emitted).
EMPTY_BODIES = ["", " ", "// nothing\n", "\n",
                # statements that expand to NO command: the block then holds one empty command (fix C07-empty-single-command-after-run)
                ' Hardcode.repeat((q)=>{ }, start=1, stop=3); ', " nothing0(); "]
BLANK_BODIES = EMPTY_BODIES[:4]
LAZY_NOTHING = "@lazy function nothing0() { }\n"      # prelude of programs that use `nothing0();`
EMPTY_SHAPES = [
    # switch: break-only cases at every position, both strategies (binary tree below pack_format 16 / #forcebst, macro above)
    ("switch-mid", 'function f() { switch($x) { case 1: say "1"; case 2: break; case 3: say "3"; } }'),
    ("switch-first", 'function f() { switch($x) { case 1: break; case 2: say "2"; say "2b"; } }'),
    ("switch-last", 'function f() { switch($x) { case 1: say "1"; case 2: say "2"; case 3: break; } }'),
    ("switch-all", 'function f() { switch($x) { case 1: break; case 2: break; case 3: break; case 4: break; case 5: break; } }'),
    ("switch-single", 'function f() { switch($x) { case 1: break; } }'),
    ("switch-7", 'function f() { switch($x) { case 1: say "1"; case 2: break; case 3: break; case 4: say "4"; break; case 5: break; case 6: say "6"; case 7: break; } }'),
    ("switch-default", 'function f() { switch($x) { case 1: say "1"; case 2: break; default: break; } }'),
    ("switch-sparse", 'function f() { switch($x) { case 3: break; case 10: say "10"; case 25: break; } }'),
    ("switch-nested", 'function f() { switch($x) { case 1: switch($y) { case 1: break; case 2: break; } case 2: break; } }'),
    ("switch-in-class", 'class K.L { function m() { switch($x) { case 1: break; case 2: this.m(); case 3: break; } } }'),
    ("switch-with", 'function f() { switch($x) { case 1: break; case 2: say "2"; } } function g() { f(); }'),
    ("switch-body-if", 'function f() { switch($x) { case 1: if ($y > 1) {@E@} case 2: while ($z > 1) {@E@} } }'),
    # if / else chains
    ("if", 'function f() { if ($x > 1) {@E@} }'),
    ("if-else", 'function f() { if ($x > 1) { say "1"; say "2"; } else {@E@} }'),
    ("if-else-both", 'function f() { if ($x > 1) {@E@} else {@E@} }'),
    ("if-empty-else", 'function f() { if ($x > 1) {@E@} else { say "1"; say "2"; } }'),
    ("elif-mid", 'function f() { if ($x > 1) { say "1"; say "2"; } else if ($y > 1) {@E@} else { say "3"; say "4"; } }'),
    ("elif-all", 'function f() { if ($x > 1) {@E@} else if ($y > 1) {@E@} else if ($z > 2) {@E@} else {@E@} }'),
    ("elif-last", 'function f() { if ($x > 1) { say "1"; } else if ($y > 1 || $z > 1) {@E@} }'),
    ("if-or", 'function f() { if ($x > 1 || $y > 2) {@E@} }'),
    ("if-or-nested", 'function f() { if (($x > 1 || $y > 2) && ($z == 1 || !$w)) {@E@} else {@E@} }'),
    ("if-nested", 'function f() { if ($x > 1) { if ($y > 1) {@E@} else {@E@} say "t"; } }'),
    ("if-load", 'if ($x > 1) {@E@} else if ($y > 2) {@E@}'),
    ("if-class", 'class k { function m() { if ($x > 1) {@E@} else { this.m(); say "2"; } } }'),
    ("if-boolfunc", 'function e() {@E@} function f() { if (e()) {@E@} }'),
    # loops
    ("while", 'function f() { while ($x > 1) {@E@} }'),
    ("do-while", 'function f() { do {@E@} while ($x > 1); }'),
    ("for", 'function f() { for ($i=0; $i<3; $i++) {@E@} }'),
    ("while-nested", 'function f() { while ($x > 1) { while ($y > 1) {@E@} } }'),
    ("loops-class", 'class k { function m() { while ($x > 1) {@E@} do {@E@} while ($y > 1); for ($i=0; $i<3; $i++) {@E@} } }'),
    # anonymous functions
    ("exec-run", 'function f() { execute as @a run {@E@} }'),
    ("exec-expand", 'function f() { execute as @a expand {@E@} }'),
    ("exec-expand-2", 'function f() { execute as @a expand { say "1"; if ($x > 1) {@E@} } }'),
    ("schedule", 'function f() { schedule 5t {@E@} }'),
    ("schedule-append", 'function f() { schedule 5t append {@E@} schedule 7t replace {@E@} }'),
    ("exec-run-class", 'class k { function m() { execute as @a run {@E@} schedule 2t {@E@} } }'),
    # user functions without commands and every way of referring to them
    ("func-call", 'function e() {@E@} function g() { e(); execute as @a run e(); schedule function e() 3t; }'),
    ("func-class", 'class k { function m() {@E@} function n() { this.m(); k.m(); } }'),
    ("func-private", 'class k { @private function p() {@E@} function q() { this.p(); } }'),
    ("func-tick", 'function __tick__() {@E@} function g() { __tick__(); }'),
    ("func-add", 'function base() {@E@} @add(base) function ext() {@E@} function g() { ext(); base(); }'),
    ("func-add-tick", '@add(__tick__) function ext() {@E@} @add(__load__) function ext2() {@E@}'),
    # (round 3) several @add onto one target, the target without commands / declared after its @add
    ("func-add-twice", 'function base() {@E@} @add(base) function ext() { say "e1"; } class k { @add(base) function ext2() {@E@} } @add(base) function ext3() { say "e3"; }'),
    ("func-add-before-target", '@add(late.base) function ext() { say "e1"; } @add(late.base) function ext2() { say "e2"; } class late { function base() {@E@} }'),
    ("func-add-tick-twice", 'function __tick__() {@E@} @add(__tick__) function ext() { say "e1"; } @add(__tick__) function ext2() {@E@} @add(__load__) function ext3() { say "e3"; } @add(__load__) function ext4() {@E@}'),
    ("func-with", 'function e() {@E@} function g() { e() with {x: 1}; }'),
    ("func-tag", 'function e() {@E@}\nnew tags.functions(mytag) {"values": ["TEST:e"]}\nfunction g() { function #TEST:mytag; }'),
    ("func-override", 'function minecraft.e() {@E@} function g() { minecraft.e(); }', "#override minecraft"),
    ("func-as-arg", 'function e() {@E@}\nPlayer.firstJoin(e);\nTrigger.setup(t1, {1: e, 2: ()=>{@E@}});\nRightClick.setup(r1, {1: e});'),
    ("lazy", '@lazy function lz(a) {@E@} function u() { lz(a="x"); say "after"; }'),
    # arrow functions handed to built-ins
    ("firstjoin", 'Player.firstJoin(()=>{@E@});'),
    ("join-rejoin", 'Player.join(()=>{@E@}); Player.rejoin(()=>{@E@});'),
    ("die", 'Player.die(onDeath=()=>{@E@}, onRespawn=()=>{ say "r"; say "s"; });'),
    ("die-respawn", 'Player.die(onDeath=()=>{ say "d"; }, onRespawn=()=>{@E@});'),
    ("on-event", 'Player.onEvent(used:carrot_on_a_stick, ()=>{@E@}); Player.onEvent(used:carrot_on_a_stick, ()=>{ say "x"; });'),
    ("trigger-setup", 'Trigger.setup(t1, {1: ()=>{@E@}, 2: ()=>{ say "c"; }, 3: ()=>{@E@}});'),
    ("trigger-setup-all", 'Trigger.setup(t1, {1: ()=>{@E@}, 2: ()=>{@E@}});\nTrigger.setup(t2, {5: ()=>{@E@}});'),
    ("trigger-add", 'Trigger.add(t3, ()=>{@E@});'),
    ("rightclick", 'RightClick.setup(id1, {1: ()=>{@E@}, 2: ()=>{@E@}});\nRightClick.setup(id2, {3: ()=>{ say "k"; }, 9: ()=>{@E@}});'),
    # (an arrow / @lazy function without commands after `run` used to emit `execute ... run ` with nothing behind it: fix dcc62bc)
    ("timer", 'Timer.add(cd, runOnce, @a, ()=>{@E@});\nTimer.add(cd2, runTick, @a, ()=>{@E@});\nfunction f() { if (Timer.isOver(cd, @s)) {@E@} }'),
    ("lazy-exec", '@lazy function lz(a) {@E@} function u() { execute as @a run lz(a="x"); say "after"; }'),
    ("lazy-exec-noarg", '@lazy function lz() {@E@} function u() { execute if entity @s run lz(); }'),
    ("raycast", 'function f() { Raycast.simple(onHit=()=>{@E@}, onStep=()=>{@E@}, onBeforeStep=()=>{@E@}); Raycast.simple(onHit=()=>{@E@}); }'),
    ("foreach", 'function f() { Array.forEach(::myarr, ()=>{@E@}); }'),
    ("item-use", 'Item.createUse(myWand, carrot_on_a_stick, "Wand", onClick=()=>{@E@});\nItem.createSign(mySign, oak, "Sign", texts=["a","b"], onClick=()=>{@E@});'),
    ("gui", 'Item.create(stone1, stone, "S");\nGUI.template(name=shop.main, template=["####A####","####B####"], mode=entity);\n'
            'GUI.registers(name=shop.main, id="B", items=[stone1], variable=$x, onClick=()=>{@E@}, onClickAsGUI=()=>{@E@});\n'
            'GUI.create(shop.main);\nfunction open() { execute as @e[tag=shop] run GUI.run(shop.main); }'),
    ("recipe", 'Recipe.table({"type": "minecraft:crafting_shapeless", "ingredients": [{"item": "minecraft:oak_planks"}], '
               '"result": {"item": "minecraft:diamond", "count": 5}}, baseItem=knowledge_book, onCraft=()=>{@E@});'),
    ("hardcode-repeat", 'function f() { Hardcode.repeat((i)=>{@E@}, start=1, stop=4); }'),
    ("hardcode-repeat-if", 'function f() { Hardcode.repeat((i)=>{ if ($x == $i) {@E@} else {@E@} }, start=1, stop=4); }'),
    ("hardcode-repeatlist", 'function f() { Hardcode.repeatList((i, s)=>{@E@}, strings=["a","b"]); Hardcode.repeatList((i, s)=>{ execute as @a[tag=$s] run {@E@} }, strings=["a","b"]); }'),
    ("hardcode-switch", 'function f() { Hardcode.switch($v, (i)=>{@E@}, count=5); }'),
    ("hardcode-switch-1", 'function f() { Hardcode.switch($v, (i)=>{@E@}, count=1); Hardcode.switch($w, (i)=>{ if ($x == $i) {@E@} }, count=3); }'),
]
# references that sit inside quoted text (click events): seen only by the embedded scan
EMBEDDED_SHAPES = [
    ("click-user", 'function foo.bar() { say "x"; }\nTextProp.clickCommand("p1", ()=>{ foo.bar(); });\nfunction f() { Text.tellraw(@a, "&<p1>click"); }'),
    ("click-class", 'class Kit.A { function m() { say "x"; } }\nTextProp.clickCommand("p1", ()=>{ Kit.A.m(); });\n'
                    'TextProps.clickCommand("p2", "IDX", ()=>{ execute as @s run Kit.A.m(); });\nfunction f() { Text.tellraw(@a, "&<p1>click &<p2(a)>x"); }'),
    ("click-private", 'TextProp.clickCommand("p1", ()=>{ execute as @a run { say "1"; say "2"; } });\nfunction f() { Text.tellraw(@a, "&<p1>click"); Text.title(@a, "&<p1>t"); }'),
    ("click-override", 'function minecraft.go() { say "x"; }\nTextProp.clickCommand("p1", ()=>{ minecraft.go(); });\nfunction f() { Text.tellraw(@a, "&<p1>click"); }', "#override minecraft"),
    ("sign-click", 'function foo.bar() { say "x"; }\nItem.createSign(mySign, oak, "Sign", texts=["a","b"], onClick=()=>{ foo.bar(); });\nfunction f() { Item.give(mySign, @s); }'),
]
# (round 2) characters that Python's str.splitlines() treats as line ends but Minecraft does not: inside a text they must stay
# inside their command line (a split would leave the tail of the text as a line that is no command).  Raw and as escapes.
LINE_CHARS = {"VT": ("\x0b", "\\x0b"), "FF": ("\x0c", "\\f"), "FS": ("\x1c", "\\x1c"), "GS": ("\x1d", "\\x1d"), "RS": ("\x1e", "\\x1e"),
              "US": ("\x1f", "\\x1f"), "NEL": ("\x85", "\\x85"), "LS": ("\u2028", "\\u2028"), "PS": ("\u2029", "\\u2029"),
              "TAB": ("\t", "\\t"), "NBSP": ("\xa0", "\\xa0"), "CR": ("\r", "\\r")}
LINE_TEMPLATES = [
    'function f() { say "a@C@b"; tellraw @a "c@C@d"; }',
    'function f() { if ($x > 1) { say "head"; say "e@C@f tail"; } else { say "g@C@"; say "h"; } }',
    'class k { function m() { execute as @a run { say "@C@lead"; say "x"; } } }\nPlayer.firstJoin(()=>{ say "i@C@j"; say "k"; });',
    'function f() { say `\nmulti@C@line\n`; title @a title "t@C@u"; }',
]


def line_char_jobs(rng, tier):
    out = []
    k = 0
    for name, (raw, esc) in LINE_CHARS.items():
        for kind, text in (("raw", raw), ("esc", esc)):
            tpls = LINE_TEMPLATES if tier != "quick" else [LINE_TEMPLATES[0], rng.choice(LINE_TEMPLATES[1:])]
            for tpl in tpls:
                k += 1
                cert = CERTS[k % len(CERTS)]
                out.append((f"linechar:{name}-{kind}", dict(src=tpl.replace("@C@", text), cert=cert_text(cert),
                                                           pack_format=[48, 15, 61][k % 3], namespace=NAMESPACES[k % len(NAMESPACES)])))
    return out



# ---- strengthening round 3: every decorator x every reference form.  A name can be DEFINED without a function file being
# written for it (@lazy, @if: expanded in place; a json name); a reference JMC cannot expand in place (call before the
# definition, `schedule function`, a function-typed built-in argument passed by name, `name() with ...`, a function-table
# entry) must then be refused — accepted => closed.  `@T@` spelling of the target at the reference, `@LOC@` its location.
DECO_DEFS = {
    "plain": 'function @N@() { say "d1"; say "d2"; }',
    "plain-empty": 'function @N@() { }',
    "lazy": '@lazy function @N@() { say "d1"; }',
    "lazy-2": '@lazy function @N@() { say "d1"; say "d2"; }',
    "lazy-param": '@lazy function @N@(a) { say "$a"; }',
    "lazy-empty": '@lazy function @N@() { }',
    "if1": '@if(1) function @N@() { say "d1"; say "d2"; }',
    "if0": '@if(0) function @N@() { say "d1"; }',
    "add-tick": '@add(@TICK@) function @N@() { say "d1"; }',
    "add-load": '@add(@LOAD@) function @N@() { say "d1"; }',
    "add-func": '@add(base0) function @N@() { say "d1"; }',                               # (function base0 is declared at top level)
    "private": '@private function @N@() { say "d1"; }',
    "root": '@root function @N@() { say "d1"; }',
    "json": 'new advancements(@N@) {"criteria": {"a": {"trigger": "minecraft:tick"}}}',      # a defined NAME that is no function
    "none": '',                                                                           # never defined
}
# reference forms; `load: True` = a load-level statement (not inside function u)
REF_FORMS = {
    "call": ('@T@();', False), "call-twice": ('@T@(); say "mid"; @T@();', False),
    # not the first / not the last recorded call (function okfn0 is declared at top level)
    "after-ok-call": ('okfn0(); @T@();', False), "between-ok-calls": ('okfn0(); schedule function @T@() 3t; okfn0();', False),
    "exec": ('execute as @a at @s run @T@();', False),
    "sched": ('schedule function @T@() 5t;', False), "sched-append": ('schedule function @T@() 2s append;', False),
    "sched-clear": ('schedule clear @T@();', False),
    "with": ('@T@() with {x: 1};', False), "with-storage": ('@T@() with mystore::a.b;', False), "with-list": ('@T@() with [$a, $b];', False),
    "with-entity": ('@T@() with @s::Inventory;', False), "exec-with": ('execute as @a run @T@() with {x: 1};', False),
    "macro-pos": ('@T@({"x":"1"});', False), "macro-kw": ('@T@(x="k");', False),
    "cond": ('if (@T@()) { say "c1"; say "c2"; }', False), "cond-not": ('if (!@T@() && $x > 1) { say "c1"; say "c2"; }', False),
    "arrow": ('execute as @a run { @T@(); say "x"; }', False), "if-body": ('if ($x > 1) { @T@(); say "y"; } else { @T@(); }', False),
    "while-body": ('while ($x > 1) { @T@(); $x -= 1; }', False), "switch-body": ('switch($x) { case 1: @T@(); case 2: say "2"; @T@(); }', False),
    "sched-block": ('schedule 5t { @T@(); say "z"; }', False),
    "hardcode": ('Hardcode.repeat((i)=>{ @T@(); schedule function @T@() 2t; }, start=1, stop=3);', False),
    "funcmap-trigger": ('Trigger.setup(trg1, {1: @T@, 2: ()=>{ say "k"; }});', True), "funcmap-rc": ('RightClick.setup(rc1, {1: @T@});', True),
    "add-target": ('@add(@T@) function ext0() { say "e"; }', True),
    "load-call": ('@T@();', True), "load-sched": ('schedule function @T@() 5t;', True), "load-if": ('if ($q > 1) { @T@(); say "w"; }', True),
    "arrow-builtin": ('Player.firstJoin(()=>{ @T@(); schedule function @T@() 3t; });', True),
    "click": ('TextProp.clickCommand("p1", ()=>{ @T@(); });\nfunction clk() { Text.tellraw(@a, "&<p1>click"); }', True),
    "tag": ('new tags.functions(mytag) {"values": ["@LOC@"]}\nfunction tg() { function #@NS@:mytag; }', True),
    "reward": ('new advancements(adv1) {"criteria": {"a": {"trigger": "minecraft:tick"}}, "rewards": {"function": "@LOC@"}}', True),
    "vanilla": ('function @LOC@;', False),
}
DECO_PLACEMENTS = ["top", "class", "class-this", "nested-class", "override-class"]      # override-class: `#override minecraft`


def deco_ref_program(deco, form_text, is_load, placement, order, cert, ns, extra_prelude=""):
    """one definition under `deco` and one reference of form `form_text`, reference before ("before") or after the definition"""
    name = "greet"
    d = DECO_DEFS[deco].replace("@N@", name).replace("@TICK@", cert["TICK"].replace("/", ".")).replace("@LOAD@", cert["LOAD"].replace("/", "."))
    classes = {"top": [], "class": ["lib"], "class-this": ["lib"], "nested-class": ["Lib.core", "in"], "override-class": ["minecraft", "util"]}[placement]
    path = "/".join(c.lower().replace(".", "/") for c in classes + [name])
    loc_ns = ns
    if placement == "override-class":
        loc_ns, path = "minecraft", path[len("minecraft/"):]
    spell = ".".join(classes + [name])
    if deco == "json":
        spell, path = "advancements." + spell, "advancements/" + path
    inside = placement == "class-this" and not is_load       # the referencing function is a member of the same class: `this.`
    ref = form_text.replace("@T@", "this." + name if inside and deco != "json" else spell).replace("@LOC@", f"{loc_ns}:{path}").replace("@NS@", ns)
    ref_stmt = ref if is_load else f"function u() {{ {ref} }}"

    def wrap(parts):
        for c in reversed(classes):
            parts = [f"class {c} {{ " + " ".join(parts) + " }"]
        return parts
    if inside:
        members = [ref_stmt, d] if order == "before" else [d, ref_stmt]
        body = wrap([m for m in members if m])
    else:
        dd = wrap([d]) if d and classes else ([d] if d else [])
        body = ([ref_stmt] + dd) if order == "before" else (dd + [ref_stmt])
    return extra_prelude + "\n".join(body)


def deco_ref_jobs(rng, tier, registry, probe_hits):
    """-> [(origin, job)].  quick: every (decorator, form) pair once with placement / order / names drawn from ck.rng (+ every pair
    of the file-less decorators a second time with the other order); thorough: every placement x order."""
    forms = dict(REF_FORMS)
    by_name = {e["call_string"]: e for e in registry}
    builtin_forms = {}
    for name, job in sorted(probe_hits.items()):
        e = by_name[name]
        for k, ty in e["arg_type"].items():
            if ty in ("FUNC", "_FUNC_CALL") and k in job["_args"]:
                args = dict(job["_args"], **{k: "@T@"})
                builtin_forms[f"builtin:{name}:{k}"] = (probe_program(e, args), True)
    # hand-written by-name forms for built-ins whose registry probe does not compile
    builtin_forms.update({
        "builtin:Timer.add": ('Timer.add(cd1, runOnce, @a, @T@);', True), "builtin:Timer.add:tick": ('Timer.add(cd2, runTick, @a, @T@);', True),
        "builtin:Player.die": ('Player.die(onDeath=@T@, onRespawn=()=>{ @T@(); });', True),
        "builtin:Player.onEvent": ('Player.onEvent(used:carrot_on_a_stick, @T@);', True),
        "builtin:Raycast.simple": ('function rc() { Raycast.simple(onHit=@T@, onStep=()=>{ @T@(); }); }', True),
        "builtin:Item.createUse": ('Item.createUse(myWand, carrot_on_a_stick, "Wand", onClick=@T@);', True),
        "builtin:Recipe.table": ('Recipe.table({"type": "minecraft:crafting_shapeless", "ingredients": [{"item": "minecraft:oak_planks"}], '
                                 '"result": {"item": "minecraft:diamond", "count": 5}}, baseItem=knowledge_book, onCraft=@T@);', True),
    })
    forms.update(builtin_forms)
    fileless = ("lazy", "lazy-2", "lazy-param", "lazy-empty", "if1", "if0", "json", "none")
    out, k = [], 0
    for deco in DECO_DEFS:
        for fname, (ftext, is_load) in forms.items():
            if tier == "quick":
                combos = [(rng.choice(DECO_PLACEMENTS), rng.choice(["before", "after"]))]
                if deco in fileless:
                    combos.append((rng.choice(DECO_PLACEMENTS[:2]), "after" if combos[0][1] == "before" else "before"))
            else:
                combos = [(pl, od) for pl in DECO_PLACEMENTS for od in ("before", "after")]
            for placement, order in combos:
                if deco in ("private", "root") and placement == "top" and tier == "quick":
                    placement = "class"
                k += 1
                cert = CERTS[k % len(CERTS)]
                ns = NAMESPACES[k % len(NAMESPACES)]
                pf = [48, 61, 48, 33, 15, 48][k % 6] if not re.search(r"with|macro|\$function", fname + ftext) else [48, 61, 71][k % 3]
                prelude = 'function base0() { say "b"; }\n' if deco == "add-func" else ""
                if "okfn0" in ftext:
                    prelude += 'function okfn0() { say "ok"; }\n'
                src = deco_ref_program(deco, ftext, is_load, placement, order, cert, ns, prelude)
                out.append((f"decoref:{deco}:{fname}:{placement}:{order}", dict(src=src, cert=cert_text(cert), pack_format=pf, namespace=ns,
                                                                              header="#override minecraft" if placement == "override-class" else None)))
    return out


def decoref_coverage(jobs, results, replay_skip, ev):
    """measured: the decorator x reference matrix — per decorator how many compiles were accepted / refused, and in how many traces a
    recorded call names a definition WITHOUT a file (defined_file_pos entry, no functions entry at build time: must be refused)"""
    per, forms, fileless, n = {}, set(), 0, 0
    for i, ((origin, job), res) in enumerate(zip(jobs, results)):
        if not origin.startswith("decoref:"):
            continue
        n += 1
        _, deco, rest = origin.split(":", 2)
        forms.add(rest.rsplit(":", 2)[0])
        d = per.setdefault(deco, dict(accepted=0, refused=0, crashed=0))
        d["accepted" if res["ok"] else "refused" if res.get("jmc") else "crashed"] += 1
        defs = {op[1] for op in res["ops"] if op[0] == "def"}
        stored = {op[1] for op in res["ops"] if op[0] == "fset"}
        if any(op[0] == "called" and op[1] in defs and op[1] not in stored for op in res["ops"]):
            fileless += 1
    return dict(compiles=n, decorators=len(per), reference_forms=len(forms), per_decorator=per, replayed_in_coq=n - len(replay_skip),
                traces_calling_a_fileless_definition=fileless, coq_fileless_called_traces=len(ev.get("fileless", [])))


def called_without_file(res):
    """(round 3) C07_user_call_resolves / C07_accepted_no_fileless_call on the REAL output: every name recorded in functions_called by an
    accepted compile has its function file (unless its namespace is #link-ed); says whether the name is defined (defined_file_pos)."""
    cfg, files = res["cfg"], res["files"]
    defs = {op[1] for op in res["ops"] if op[0] == "def"}
    out = []
    for op in res["ops"]:
        if op[0] == "called" and op[1].split("/", 1)[0].strip() not in cfg["links"] and func_file(cfg, op[1]) not in files:
            out.append(dict(kind="called-function-without-file", called=op[1], from_prefix=op[2], defined_without_file=op[1] in defs,
                            missing=func_file(cfg, op[1])))
    return out


# the accepted variants of every shape are compiled under these (pack_format, header) strategies, names rotate through CERTS
EMPTY_STRATEGIES = [(15, None), (48, None), (48, "#forcebst"), (7, None), (61, None), (33, "#forcebst")]


def empty_shape_jobs(rng, tier):
    """-> [(origin, job)]: every EMPTY_SHAPES entry x empty-body spelling x strategy (quick: each shape under the binary-tree
    and the macro strategy with the blank body + two more (spelling, strategy) pairs drawn from ck.rng; thorough: every spelling under both + one more strategy)."""
    out = []
    k = 0
    for spec in EMPTY_SHAPES + [("embedded:" + e[0],) + tuple(e[1:]) for e in EMBEDDED_SHAPES]:
        name, tpl = spec[0], spec[1]
        hdr0 = spec[2] if len(spec) > 2 else None
        bodies = EMPTY_BODIES if "@E@" in tpl else [""]
        if tier == "quick":
            combos = [(" " if len(bodies) > 1 else "", EMPTY_STRATEGIES[0]), (" " if len(bodies) > 1 else "", EMPTY_STRATEGIES[1]),
                      (rng.choice(bodies[4:] or bodies), rng.choice(EMPTY_STRATEGIES)), (rng.choice(bodies), rng.choice(EMPTY_STRATEGIES[2:]))]
        else:
            combos = [(b, st) for b in bodies for st in [EMPTY_STRATEGIES[0], EMPTY_STRATEGIES[1], rng.choice(EMPTY_STRATEGIES[2:])]]
        seen = set()
        for body, (pf, hdr) in combos:
            if (body, pf, hdr) in seen:
                continue
            seen.add((body, pf, hdr))
            k += 1
            cert = CERTS[k % len(CERTS)]
            ns = NAMESPACES[k % len(NAMESPACES)] if "TEST:" not in tpl else "TEST"
            src = tpl.replace("@E@", body)
            if "nothing0();" in src:
                src = LAZY_NOTHING + src
            for key, dflt in (("TICK", "__tick__"), ("LOAD", "__load__")):
                src = src.replace(f"function {dflt}()", f"function {cert[key].replace('/', '.')}()").replace(
                    f"{dflt}();", f"{cert[key].replace('/', '.')}();").replace(f"@add({dflt})", f"@add({cert[key].replace('/', '.')})")
            header = "\n".join(h for h in (hdr0, hdr) if h) or None
            out.append((name if name.startswith("embedded:") else f"empty:{name}", dict(src=src, header=header, cert=cert_text(cert), pack_format=pf, namespace=ns)))
    return out


def emptied(src: str) -> str:
    """the probe program with every brace-free arrow-function body removed (`()=>{ say "a"; }` -> `()=>{ }`)"""
    return re.sub(r"=>\s*\{[^{}]*\}", "=>{ }", src)


def empty_private_coverage(jobs, results):
    """How many accepted compiles emit a private function WITHOUT commands that is referenced from another emitted file,
    and which private groups these belong to (measured on the real outputs)."""
    n, groups, origins = 0, set(), set()
    for (origin, job), res in zip(jobs, results):
        if not res.get("ok") or not res.get("cfg"):
            continue
        cfg, files = res["cfg"], res["files"]
        ff = "functions" if cfg["legacy"] else "function"
        pre = f"VIRTUAL/data/{cfg['ns']}/{ff}/{cfg['private']}/"
        hit = False
        for path, content in files.items():
            if path.startswith(pre) and path.endswith(".mcfunction") and content.split("\n\n\n")[0] == "":
                loc = f"{cfg['ns']}:{path[len(pre) - len(cfg['private']) - 1:-len('.mcfunction')]}"
                macro = loc.rsplit("/", 1)[0] + "/$(switch_key)"
                if any((loc in c or macro in c) for p2, c in files.items() if p2 != path):
                    hit = True
                    groups.add(path[len(pre):].split("/")[0])
        if hit:
            n += 1
            origins.add(origin.split(":")[0])
    return dict(compiles=n, groups=sorted(groups), origins=sorted(origins))


PROBE_SAMPLES = {
    "ARROW_FUNC": ['()=>{ say "m1"; say "m2"; }'],
    "FUNC": ['()=>{ say "m1"; say "m2"; }', "probe.target"],
    "JS_OBJECT": ['{1: ()=>{ say "a"; say "b"; }, 2: ()=>{ say "c"; }}', "{a: 1b}", "{}"],
    "JSON": ['{"a": 1}', '[{"a":1}]'],
    "LIST": ["[a, b]", '["a","b"]', "[1,2]", "[$x,$y]"],
    "STRING": ['"abc"', '"minecraft:stone"'],
    "KEYWORD": ["abc", "stone", "used:carrot_on_a_stick"],
    "SELECTOR": ["@s", "@a"],
    "INTEGER": ["3"],
    "FLOAT": ["1.5", "1"],
    "SCOREBOARD": ["$x"],
    "SCOREBOARD_INT": ["5", "$y"],
    "NBT": ["@s::foo", "::foo"],
    "COMPONENT": ["[a=1]", ""],
    "ANY": ["abc", "1"],
    "_FUNC_CALL": ["probe.target"],
}
# hand-written probes for the built-ins whose arguments cannot be synthesised from the registry
HAND_PROBES = {
    "GUI.*": ('Item.create(stone1, stone, "S");\nItem.create(dirt1, dirt, "D");\n'
              'GUI.template(name=shop.main, template=["####A####","#########","####B####"], mode=entity);\n'
              'GUI.registers(name=shop.main, id="B", items=[stone1, dirt1], variable=$x, onClick=()=>{ say "b1"; say "b2"; });\n'
              'GUI.create(shop.main);\nfunction open() { execute as @e[tag=shop] run GUI.run(shop.main); }', 32),
    "Item.*": ('Item.create(mySword, stone_sword, "Sword");\n'
               'Item.createUse(myWand, carrot_on_a_stick, "Wand", onClick=()=>{ say "w1"; say "w2"; });\n'
               'function f() { Item.give(mySword, @s); Item.clear(mySword, @s); Item.summon(mySword, "~ ~ ~"); '
               'Item.replaceBlock(mySword, "~ ~ ~", "container.0"); Item.replaceEntity(myWand, @s, "hotbar.0"); }', 32),
    "Item.createSign": ('Item.createSign(mySign, oak, "Sign", texts=["a","b"], onClick=()=>{ say "s1"; say "s2"; });', 32),
    "Timer.*": ('Timer.add(help_cd, runOnce, @a, ()=>{ say "t1"; say "t2"; });\nTimer.add(cd2, runTick, @a, ()=>{ say "t3"; say "t4"; });\n'
                'function f() { Timer.set(help_cd, @s, 5); if (Timer.isOver(help_cd, @s)) { say "o1"; say "o2"; } }', 48),
    "Array.forEach": ('function f() { Array.forEach(::myarr, ()=>{ say "f1"; say "f2"; }); }', 48),
    "Hardcode.*": ('function f() { Hardcode.repeat((i)=>{ say "r$i"; if ($x matches 1..2) { say "a$i"; say "b"; } }, start=1, stop=4); '
                   'Hardcode.repeatList((i, s)=>{ say "l$i $s"; }, strings=["a","b"]); '
                   'Hardcode.repeatLists((i, s, t)=>{ say "l$i $s $t"; if ($y == $i) { say "c$s"; say "d"; } }, [["a","b"], ["c", "d"]]); '
                   'Hardcode.switch($v, (i)=>{ say "$i"; say "x$i"; }, count=5); }', 48),
    "JMC.require": ('JMC.require(namespace=other, functionPath="other:main", errorMessage="missing");', 48, "#link other"),
    "Trigger/RightClick twice": ('Trigger.setup(t1, {1: ()=>{ say "a"; say "b"; }, 2: ()=>{ say "c"; }});\n'
                                 'Trigger.setup(t2, {1: ()=>{ say "d"; say "e"; }, 7: ()=>{ say "f"; }});\n'
                                 'Trigger.add(t3, ()=>{ say "g"; say "h"; });\n'
                                 'RightClick.setup(id1, {1: ()=>{ say "i"; say "j"; }});\nRightClick.setup(id2, {3: ()=>{ say "k"; }, 9: ()=>{ say "l"; say "m"; }});', 48),
    "Player events": ('Player.onEvent(used:carrot_on_a_stick, ()=>{ say "1"; say "2"; });\nPlayer.onEvent(used:carrot_on_a_stick, ()=>{ say "3"; });\n'
                      'Player.firstJoin(()=>{ say "4"; say "5"; });\nPlayer.join(()=>{ say "6"; say "7"; });\nPlayer.rejoin(()=>{ say "8"; say "9"; });\n'
                      'Player.die(onDeath=()=>{ say "10"; say "11"; }, onRespawn=()=>{ say "12"; say "13"; });', 48),
    "Raycast twice": ('function f() { Raycast.simple(onHit=()=>{ say "h1"; say "h2"; }, onStep=()=>{ say "s1"; say "s2"; }, onBeforeStep=()=>{ say "b"; say "c"; }); '
                      'Raycast.simple(onHit=()=>{ say "h3"; say "h4"; }); }', 48),
}


# (round 3) a user-defined TICK function x every way build() itself writes to the tick function (`ticks`: Timer.add, Trigger.setup ...;
# `after_ticks`: @add(TICK)), each alone and combined, definition before / after the generator, zero-command body: the assembled
# function must be replayed exactly by Model.Alloc.st_ticks / st_after_ticks (and C08's build_keeps_stored / build_tick_has_generated)
TICK_GENERATORS = {
    "add": '@add(@TICK@) function added1() { say "a1"; }',
    "add2": '@add(@TICK@) function added1() { say "a1"; }\nclass k { @add(@TICK@) function added2() { say "a2"; } }',
    "timer": 'Timer.add(cd1, runTick, @a, ()=>{ say "t1"; say "t2"; });',
    "trigger": 'Trigger.setup(trg1, {1: ()=>{ say "k1"; say "k2"; }});',
    "rightclick": 'RightClick.setup(rc1, {1: ()=>{ say "r1"; say "r2"; }});',
    "die": 'Player.die(onDeath=()=>{ say "d1"; say "d2"; }, onRespawn=()=>{ say "d3"; say "d4"; });',
    "gui": HAND_PROBES["GUI.*"][0],
}
TICK_USER = ['function @TICK@() { say "user tick"; }', 'function @TICK@() { }', 'function @TICK@() { say "u1"; if ($x > 1) { say "u2"; say "u3"; } }', ""]


# (round 4) conditions of which TWO parts bring commands in front of the `execute if`: the `__logic__` flags of `||` / `!( && )`
# groups and the pre-commands of String.isEqual / Object.isEqual, in every statement that takes a condition
PRE_S = ['String.isEqual(a:b::c, "abc")', "Object.isEqual(a:b::c, a:b::d)", "String.isEqual(@s::SelectedItem.id, 'minecraft:stick')"]
PRE_CONDS = ["($a > 1 || $b > 2) && @S@", "@S@ && ($a > 1 || $b > 2)", "!($a > 1 && $b > 2) && @S@", "($a > 1 || @S@) && ($b > 2 || @S2@)",
             "@S@ && @S2@", "($a > 1 || $b > 2) && ($c > 1 || $d > 2)", "!@S@", "!($a > 1 || $b > 2) || @S@", "@S@ || @S2@",
             "($a > 1 || $b > 2) && !@S@ && entity @s[tag=t]", "@S@"]
PRE_STMTS = ['if (@C@) { say "x"; say "y"; }', 'if (@C@) { say "x"; }', 'if ($z == 1) { say "a"; } else if (@C@) { say "b"; say "c"; } else { say "d"; }',
             'if (@C@) { say "a"; } else if (@C2@) { say "b"; } else if (@C@) { say "c"; say "c2"; }', 'while (@C@) { say "w"; $a++; }',
             'do { say "w"; $a++; } while (@C@);', 'for ($i = 0; @C@; $i++) { say "f"; }',
             'if (@C@) { if (@C2@) { say "n"; say "n2"; } } else { while (@C2@) { $b++; } }']


def precommand_jobs(rng, tier):
    jobs = []
    combos = [(ci, si) for ci in range(len(PRE_CONDS)) for si in range(len(PRE_STMTS))]
    if tier == "quick":
        # every condition form in an `if` and a `while`, plus a sample of the rest
        keep = {(ci, si) for ci in range(len(PRE_CONDS)) for si in (0, 4)}
        keep |= set(rng.sample(combos, 30))
        combos = sorted(keep)
    for k, (ci, si) in enumerate(combos):
        def fill(c):
            return c.replace("@S@", PRE_S[k % len(PRE_S)]).replace("@S2@", PRE_S[(k + 1) % len(PRE_S)])
        src = PRE_STMTS[si].replace("@C@", fill(PRE_CONDS[ci])).replace("@C2@", fill(PRE_CONDS[(ci + 3) % len(PRE_CONDS)]))
        cert = CERTS[k % len(CERTS)]
        place = ("function f() { %s }" % src) if k % 3 else ("class k { function m() { %s } }" % src)
        jobs.append((f"precommand:{ci}:{si}", dict(src=place.replace("__variable__", cert["VAR"]), cert=cert_text(cert),
                                                   pack_format=[48, 15, 61, 26][k % 4], namespace=NAMESPACES[k % len(NAMESPACES)])))
    return jobs


def tick_shape_jobs(rng, tier):
    out, k = [], 0
    gens = list(TICK_GENERATORS)
    combos = [[g] for g in gens] + [["add", "timer"], ["timer", "add"], ["add2", "trigger", "die"], ["gui", "add"]]
    for user in TICK_USER:
        for combo in combos:
            orders = ["user-first", "user-last"] if tier != "quick" else [rng.choice(["user-first", "user-last"])]
            for order in orders:
                k += 1
                cert = CERTS[k % len(CERTS)]
                parts = [TICK_GENERATORS[g] for g in combo]
                parts = ([user] + parts) if order == "user-first" else (parts + [user])
                src = "\n".join(x for x in parts if x).replace("@TICK@", cert["TICK"].replace("/", "."))
                out.append((f"tickshape:{'+'.join(combo)}:{order}:{TICK_USER.index(user)}",
                            dict(src=src, cert=cert_text(cert), pack_format=[48, 15, 61][k % 3], namespace=NAMESPACES[k % len(NAMESPACES)])))
    return out


def probe_program(e, args, args2=None):
    """one call of the built-in; with args2 a second call of the same built-in in the same pack (twin probe)"""
    calls = [f"{e['call_string']}({', '.join(f'{k}={v}' for k, v in a.items() if v != '')})" for a in ([args] if args2 is None else [args, args2])]
    pre = 'function probe.target() { say "t1"; say "t2"; }\n'
    ft = e["func_type"]
    if ft in ("LOAD_ONLY", "LOAD_ONCE"):
        return pre + "\n".join(c + ";" for c in calls)
    if ft in ("JMC_COMMAND", "EXECUTE_EXCLUDED"):
        return pre + "class holder { function main() { " + " ".join(c + ";" for c in calls) + " } }"
    if ft == "VARIABLE_OPERATION":
        return pre + "function probe.main() { " + " ".join(f"$r{i} = {c};" for i, c in enumerate(calls)) + " }"
    return pre + "function probe.main() { " + " ".join("if (" + c + ') { say "a"; say "b"; }' for c in calls) + " }"


def respellings(arg_type: str, v: str) -> list[str]:
    """(round 2) other spellings of the SAME argument value: a helper that is created once per value but named after the
    spelling (Entity.launch(2) / Entity.launch(2.0)) leaves the second spelling's call without a file."""
    out = []
    if arg_type in ("FLOAT", "INTEGER", "SCOREBOARD_INT") and re.fullmatch(r"-?\d+(\.\d+)?", v):
        if "." in v:
            out += [v + "0", v + "00", "0" + v if not v.startswith("-") else v]
            if v.endswith(".0"):
                out.append(v[:-2])
        else:
            out += ["0" + v if not v.startswith("-") else v] + ([v + ".0", v + ".00"] if arg_type == "FLOAT" else [])
    elif arg_type == "STRING" and len(v) >= 2 and v[0] == v[-1] == '"' and "'" not in v:
        out.append("'" + v[1:-1] + "'")
    elif arg_type == "KEYWORD" and v.isidentifier():
        out += [v.capitalize(), v.upper()]
    elif arg_type in ("JSON", "JS_OBJECT", "LIST") and "=>" not in v:
        out += [v.replace(",", " , ").replace(":", " : "), v.replace(", ", ",").replace(": ", ":")]
    return [o for o in dict.fromkeys(out) if o != v]


def twin_probe_jobs(rng, tier, registry, hits):
    """For every built-in with a compiling probe: the same call twice in ONE pack, the second time with one argument
    spelled differently but meaning the same (and the default left out vs written out), in both orders."""
    out = []
    by_name = {e["call_string"]: e for e in registry}
    for name, job in hits.items():
        e, args = by_name[name], job["_args"]
        pairs = []
        for k, v in args.items():
            for alt in respellings(e["arg_type"][k], v):
                pairs.append((k, args, dict(args, **{k: alt})))
        for k, dv in e["defaults"].items():
            if k in e["arg_type"] and dv != "":
                base = {a: b for a, b in args.items() if a != k}
                for alt in [dv] + respellings(e["arg_type"][k], dv):
                    pairs.append((k, base, dict(base, **{k: alt})))
        if tier == "quick" and len(pairs) > 12:
            # keep every respelling of a numeric-looking value (two spellings of one number are where a helper named by
            # the spelling but registered by the value goes wrong), then one pair per remaining argument, then a sample
            numeric = [p_ for p_ in pairs if str(p_[2].get(p_[0], "")).lstrip("-+").replace(".", "", 1).isdigit()]
            rest = [p_ for p_ in pairs if p_ not in numeric]
            per_key = {}
            for p_ in rest:
                per_key.setdefault(p_[0], p_)
            chosen = numeric[:8] + list(per_key.values())
            extra = [p_ for p_ in rest if p_ not in chosen]
            pairs = chosen + rng.sample(extra, max(0, min(len(extra), 12 - len(chosen))))
        for k, a, b in pairs:
            for order, (x, y) in (("ab", (a, b)), ("ba", (b, a))):
                out.append((f"twin:{name}:{k}:{order}", dict(src=probe_program(e, x, y), pack_format=job["pack_format"], cert=job["cert"])))
    return out


def builtin_probe_jobs(registry, cert):
    """Candidate probe programs per built-in (generated from the func_property registry): the first candidate that
    compiles is the probe.  -> list of (call_string, [jobs])"""
    import itertools
    out = []
    for e in registry:
        keys = list(e["arg_type"])
        cands = [PROBE_SAMPLES[e["arg_type"][k]] for k in keys]
        jobs = []
        for combo in itertools.islice(itertools.product(*cands), 24):
            jobs.append(dict(src=probe_program(e, dict(zip(keys, combo))), pack_format=48, cert=cert, _args=dict(zip(keys, combo))))
        req = {k: PROBE_SAMPLES[e["arg_type"][k]][0] for k in keys if k not in e["defaults"]}
        jobs.append(dict(src=probe_program(e, req), pack_format=48, cert=cert, _args=req))
        jobs.append(dict(src=probe_program(e, req), pack_format=15, cert=cert, _args=req))
        out.append((e["call_string"], jobs))
    return out


# --------------------------------------------------------------------------- unit correspondences (string functions)

def unit_cases(rng, tier):
    alphabet = ["a", "B", "z", "_", "9", ".", ".", "-", "/", " ", ":", "this.", "T", "x1", "é"]
    prefixes = ["", "k/", "a/b/", "cls_1/inner/"]
    names = ["foo", "Foo.Bar", "a..b", ".a", "a.", "this.x", "this.", "this..x", "THIS.y", "a b", "", "a-b", "a/b", "x.this.y",
             "__private__.x", "a.b.c.d", "..", "a...b", "A", "0", "this.this.z"]
    n = 150 if tier == "quick" else 1500
    for _ in range(n):
        names.append("".join(rng.choice(alphabet) for _ in range(rng.randint(1, 6))))
    conv = [dict(fn="conv", s=s, prefix=p, lower=lw) for s in names for p in prefixes for lw in (True, False)]
    paths = ["a", "a/b", "a/b/a/c", "minecraft", "minecraft/x", "b/a", "aa/b", "a/", "x/y/z", "mc/a/mc/b"]
    fmt = [dict(fn="fmt", ns=ns, overrides=ov, p=p) for p in paths for ns in ("TEST", "a") for ov in ([], ["a"], ["minecraft", "mc"], ["a", "b"])]
    return conv, fmt


def eval_units(ck, conv, fmt, strict):
    reqs = conv + fmt
    res = run_py(OPTRACE, {"mode": "unit", "reqs": reqs}, timeout=300)
    cres, fres = res[:len(conv)], res[len(conv):]
    cterms = [f'mkConv {coq_bool(strict)} {coq_bool(q["lower"])} {coq_str(q["prefix"])} {coq_str(q["s"])} '
              f'{("(Some " + coq_str(r["value"]) + ")") if r["ok"] else "None"}' for q, r in zip(conv, cres)]
    fterms = [f'mkFmt {coq_str(q["ns"])} {coq_list(coq_str(o) for o in q["overrides"])} {coq_str(q["p"])} {coq_str(r.get("value", "<error>"))}'
              for q, r in zip(fmt, fres)]
    body = (COQ_HEADER + "Definition cc := [\n" + ";\n".join(cterms) + "\n].\nDefinition fc := [\n" + ";\n".join(fterms) + "\n].\n"
            "Eval vm_compute in conv_mismatches cc.\nEval vm_compute in conv_illegal cc.\nEval vm_compute in fmt_mismatches fc.\n")
    (ok, out), = run_coq_files(PROP, [("unit.v", body)], timeout=600, clean=False)
    if not ok:
        ck.violation(dict(kind="correspondence-file-failed", file="unit.v", log=out[-3000:]), no_input=True)
        return [], [], []
    parts = out.split(": list nat")
    return ([(conv[i], cres[i]) for i in parse_nat_list(parts[0])], [(conv[i], cres[i]) for i in parse_nat_list(parts[1])],
            [(fmt[i], fres[i]) for i in parse_nat_list(parts[2])])


# --------------------------------------------------------------------------- main

def report_failure(ck, job, res, origin, f, reported, extra=None):
    """One failing input found on the real output: known finding or violation (once per rule/kind)."""
    rid = classify(job, res, f)
    listed = {k["id"] for k in known_for(PROP)}
    if rid and rid in listed:
        what = next(k["what"] for k in known_for(PROP) if k["id"] == rid)
        ck.known(rid, what)
        return
    key = rid or (f["kind"], origin.split(":")[0])
    if key in reported:
        return
    reported.add(key)
    rep = dict(kind=f["kind"], failure=f, program=job.get("src"), header=job.get("header"), jmc_txt=job.get("cert"),
               pack_format=job.get("pack_format"), namespace=job.get("namespace", "TEST"), origin=origin,
               candidate_finding=rid, job=job,
               expected="every own-namespace reference (also inside quoted click-event text) resolves to an emitted file; legal paths; "
                        "no empty or incomplete (`... run` + nothing) command line; `execute if|unless` followed by a condition kind; every recorded call has its "
                        "function file; load/tick registered",
               actual=f)
    if extra:
        rep.update(extra)
    ck.violation(rep)


def gather_jobs(ck, tier):
    rng = ck.rng
    jobs = []   # (origin, job)
    for j in run_py(OPTRACE, {"mode": "harvest"}, timeout=600):
        j["cert"] = complete_cert(j.get("cert"))
        jobs.append(("corpus", j))
    for name, job in ADVERSARIAL:
        j = dict(job)
        j["cert"] = complete_cert(j.get("cert"))
        jobs.append((f"adversarial:{name}", j))
        if "pack_format" not in job:
            j2 = dict(j)
            j2["pack_format"] = 61
            jobs.append((f"adversarial:{name}@61", j2))
    for name, spec in HAND_PROBES.items():
        src, pf = spec[0], spec[1]
        for cert in (CERTS[0], CERTS[3]):
            j = dict(src=src, pack_format=pf, cert=cert_text(cert), namespace="mypack")
            if len(spec) > 2:
                j["header"] = spec[2]
            jobs.append((f"probe:{name}", j))
    n_rand = 120 if tier == "quick" else 1200
    for i in range(n_rand):
        cert = CERTS[i % len(CERTS)] if i % 3 else rng.choice(CERTS)
        ns = NAMESPACES[i % len(NAMESPACES)]
        pf = PACK_FORMATS[i % len(PACK_FORMATS)] if i % 2 else rng.choice(PACK_FORMATS)
        hdr_kind = rng.choice(["none", "none", "none", "override", "override2", "credit"])
        overrides = {"override": ["minecraft"], "override2": ["minecraft", "lib_x"]}.get(hdr_kind, [])
        header = "\n".join(f"#override {o}" for o in overrides) if overrides else ('#credit "generated"\n#credit' if hdr_kind == "credit" else None)
        g = Gen(rng, overrides, tick_name=cert["TICK"], load_name=cert["LOAD"])
        src = g.program().replace("__variable__", cert["VAR"])
        jobs.append((f"random:{i}", dict(src=src, header=header, cert=cert_text(cert), pack_format=pf, namespace=ns)))
    # strengthening round 1: empty bodies everywhere a private function is allocated, under every strategy
    jobs.extend(empty_shape_jobs(rng, tier))
    for name, spec in HAND_PROBES.items():
        # the hand probes again under the binary-tree strategy / other names, and with emptied arrow functions
        src, pf = spec[0], spec[1]
        for src2, pf2, cert in ((src, 15 if pf >= 16 else 48, CERTS[1]), (emptied(src), pf, CERTS[2]), (emptied(src), 15, CERTS[4])):
            j = dict(src=src2, pack_format=pf2, cert=cert_text(cert), namespace="ns_1.x-y")
            if len(spec) > 2:
                j["header"] = spec[2]
            jobs.append((f"probe2:{name}", j))
    jobs.extend(line_char_jobs(rng, tier))
    n_rand2 = 90 if tier == "quick" else 600
    for i in range(n_rand2):
        cert = CERTS[(i + 2) % len(CERTS)]
        ns = NAMESPACES[(i + 1) % len(NAMESPACES)]
        pf = [15, 48, 10, 61, 16, 4, 33, 48][i % 8] if i % 3 else rng.choice(PACK_FORMATS)
        hdr_kind = rng.choice(["none", "none", "forcebst", "forcebst", "override", "credit"])
        overrides = ["minecraft"] if hdr_kind == "override" else []
        header = {"forcebst": "#forcebst", "override": "#override minecraft", "credit": '#credit "generated"'}.get(hdr_kind)
        g = Gen(rng, overrides, tick_name=cert["TICK"], load_name=cert["LOAD"], p_empty=0.18, builtins=bool(i % 2))
        src = g.program().replace("__variable__", cert["VAR"])
        jobs.append((f"random-empty:{i}", dict(src=src, header=header, cert=cert_text(cert), pack_format=pf, namespace=ns)))
    return jobs


def main(tier: str) -> int:
    ck = Check(PROP, tier)
    ck.cov["trusted_base"] = COMMON_TRUSTED + [
        "Model/Alloc.v + Model/ResLoc.v: hand-written ports of DataPack (get_count, call_func, Function split, the dictionaries, build()), "
        "compiling.build (tags, path mapping, credits), convention_jmc_to_mc, format_func_path; tied to the repo by replaying the logged "
        "operation sequence of every traced compile and comparing verdict and complete file map, plus unit correspondences of the string functions",
        "harness/optrace.py wraps the real DataPack/Function objects (no repo change) to log state changes; a compile using a feature outside "
        "the model (#copy, Debug.trackFunction, header post_process, #show_private_command, in-place deletes) is reported, not compared",
        "reference syntax (`function <loc>`, `schedule function <loc>`, `function #<tag>`, tag values, advancement rewards) and 'legal resource "
        "location' ([a-z0-9_.-] segments, non-empty, not dots only) are written specifications (Minecraft itself is not available)",
        "built-in functions are NOT modelled: their output is covered by evaluating disc/closedb in Coq on their logged "
        "sequences and by the direct scan of every real output (level for 'all built-ins': correspondence only)",
        "core-language closure (C07_core_*): the statement compilers are the models of properties C04/C05/C06 (Model/IfElse.v, Model/Loop.v, "
        "Model/Switch.v, MC/Print.v), tied to the repo by THEIR checks (exact emitted text), not re-tied here; closure of their output is proved "
        "for every program; the step to the text machine (C07_core_*_machine_closed) keeps as hypotheses text_fromb (every stored line is a "
        "printed command of the lowered code whose scan shows only its own calls), definedness of the calls the source itself makes, and "
        "json_discb / paths_disc / tag_free",
        "only ASCII names (Python str.lower() on non-ASCII letters is outside Model/ResLoc.v)",
        "ODef (defined_file_pos) is logged by harness/optrace.py like the other dictionaries; Model.Alloc.fileless = defined name without a function after "
        "assemble; which source constructs define a name without a file (@lazy, @if, json) is NOT modelled: the decorator x reference matrix "
        "(harness/c07.py DECO_DEFS x REF_FORMS x every function-typed built-in argument) exercises them and the replay compares the verdict",
        "the vocabulary of `execute if|unless` condition kinds (CONDITION_KINDS) is a written specification checked by the direct scan only",
        "(round 4) Model/AllocDisk.v: hand-written port of the non-virtual part of compiling.build (read_func_tag, merged_func_tag, deletion with "
        "#static shields, make_cert, #copy, load / tick tag writes, the tick clean-up, function and json writes) on a tree of regular files; tied to "
        "the repo by harness/c07_disk.py: real `compile_jmc` / read_header+read_cert+Lexer+build runs into a real output directory (first build and "
        "rebuilds, #copy / #static / left-over / previous-output tag files, custom jmc.txt), the output directory read back before and after each "
        "build, Run.C07.dsummary compares the predicted tree with the real one (tag files as parsed JSON: other keys + list of string values; "
        "everything else byte for byte).  Outside: pack.mcmeta, directories, tag entries that are objects, a json written onto a tag path "
        "(hypothesis disk_tag_free, evaluated in Coq per build), interrupted builds (C10/C11)",
        "`one command per line` beyond non-empty / newline-free lines is checked by the direct scan only: first word in the command vocabulary, and "
        "nothing after the integer of a generated `scoreboard players set|add|remove <holder> <objective> <integer>` (glued_command)",
        "references inside quoted text (`/function ns:x` in click events) and the test that a line is a complete command (not blank, "
        "no `execute ... run` with nothing behind it) are checked by the direct scan of the real output only; Model/Alloc.v's "
        "scanners and C07_lines speak about word-separated references and non-empty newline-free lines",
    ]
    import time
    t_phase, phases = [time.time()], {}

    def phase(name):
        phases[name] = round(time.time() - t_phase[0], 1)
        t_phase[0] = time.time()
    pr = ck.proof(extra_targets=["Run/C07.vo"])
    phase("proof")
    ck.cov["core_closure_theorems"] = [t for t in pr.get("theorems", []) if t.startswith(("C07_core_", "C07_calls_", "C07_macro_"))]
    from lib import gen_dir
    gen_dir(PROP)
    reported: set = set()

    # ---- unit correspondences; detect which convention behaviour the tree has
    probe = run_py(OPTRACE, {"mode": "unit", "reqs": [dict(fn="conv", s="a..b", prefix="", lower=True)]})
    strict = not probe[0]["ok"]
    conv, fmt = unit_cases(ck.rng, tier)
    cm, cill, fm = eval_units(ck, conv, fmt, strict)
    for q, r in cill[:1]:
        report_failure(ck, dict(src=f"function {q['s']}() {{ say \"1\"; }} function caller() {{ {q['s']}(); }}"), {}, "unit:convention",
                       dict(kind="dangling-reference", ref="TEST:" + str(r.get("value")), path="", line="",
                            note="convention_jmc_to_mc returned an illegal path", input=q, output=r), reported)
    if cm:
        ck.violation(dict(kind="correspondence-differs", what="convention_jmc_to_mc differs from Model.ResLoc.convention",
                          cases=[dict(input=q, real=r) for q, r in cm[:5]], n=len(cm)), no_input=True)
    if fm:
        ck.violation(dict(kind="correspondence-differs", what="format_func_path differs from Model.ResLoc.format_func_path",
                          cases=[dict(input=q, real=r) for q, r in fm[:5]], n=len(fm)), no_input=True)

    phase("unit")
    # ---- traced compiles
    jobs = gather_jobs(ck, tier)
    registry = run_py(OPTRACE, {"mode": "registry"})
    probes = builtin_probe_jobs(registry, cert_text(CERTS[0]))
    flat = [j for _, js in probes for j in js]
    pres = trace_jobs(flat, chunk=60)
    pos, n_probe_ok, probe_failed, n_emptied_probes = 0, 0, [], 0
    probe_hits: dict = {}
    for name, js in probes:
        rs = pres[pos:pos + len(js)]
        pos += len(js)
        hit = next(((j, r) for j, r in zip(js, rs) if r["ok"]), None)
        if hit:
            n_probe_ok += 1
            probe_hits[name] = hit[0]
            jobs.append((f"builtin:{name}", hit[0]))
            # strengthening round 1: the same probe with its arrow functions emptied, under both switch strategies and other names
            e_src = emptied(hit[0]["src"])
            if e_src != hit[0]["src"]:
                n_emptied_probes += 1
                jobs.append((f"builtin-empty:{name}", dict(hit[0], src=e_src, cert=cert_text(CERTS[3]), namespace="mypack")))
                jobs.append((f"builtin-empty:{name}@15", dict(hit[0], src=e_src, pack_format=15, cert=cert_text(CERTS[1]))))
                jobs.append((f"builtin:{name}@15", dict(hit[0], pack_format=15, cert=cert_text(CERTS[4]), namespace="mypack")))
        else:
            probe_failed.append(name)
    # (round 2) twin probes: only the accepted ones are kept (a second call is often refused: duplicate id, load-once)
    twins = twin_probe_jobs(ck.rng, tier, registry, probe_hits)
    tres = trace_jobs([j for _, j in twins], chunk=60)
    n_twin_ok = 0
    for (origin, job), r in zip(twins, tres):
        if r["ok"]:
            n_twin_ok += 1
            jobs.append((origin, job))
    phase("probes+twins")
    # (round 3) every decorator x every reference form (incl. every function-typed built-in argument passed by name)
    decoref = deco_ref_jobs(ck.rng, tier, registry, probe_hits)
    jobs.extend(decoref)
    jobs.extend(tick_shape_jobs(ck.rng, tier))
    jobs.extend(precommand_jobs(ck.rng, tier))
    results = trace_jobs([j for _, j in jobs])

    phase("trace")
    # the Coq replay of the decorator x reference matrix (and, round 4, of the pre-command shapes): quick = 35 % of it (round 4; was half) drawn from ck.rng plus every compile the direct
    # scan objects to (the scan and called_without_file look at ALL of them); thorough = all
    replay_skip = set()
    if tier == "quick":
        for i, ((origin, job), res) in enumerate(zip(jobs, results)):
            if origin.startswith(("decoref:", "precommand:")) and ck.rng.random() >= 0.35 and not (res["ok"] and res.get("cfg") and oracle(job, res)):
                replay_skip.add(i)
    terms, tidx, unsupported = [], [], []
    for i, ((origin, job), res) in enumerate(zip(jobs, results)):
        if i in replay_skip:
            continue
        try:
            case_term(job, res)              # (only to learn whether the model covers this compile; the text is built per case file)
            terms.append((job, res))
            tidx.append(i)
        except Unsupported as e:
            unsupported.append((origin, str(e)))
    phase("terms")
    ev, errs = eval_trace_cases(terms, per_file=14)
    phase("coq-replay")
    for e in errs:
        ck.violation(dict(kind="correspondence-file-failed", log=e), no_input=True)

    # ---- the direct oracle on every real output
    n_ok, n_fail_inputs, literal_skipped = 0, 0, 0
    failing = {}
    for i, ((origin, job), res) in enumerate(zip(jobs, results)):
        if not res["ok"]:
            if not res.get("jmc") and res.get("exc") not in ("Timeout",) and origin.startswith(("random", "adversarial")):
                pass   # crashes are property C13's subject
            continue
        n_ok += 1
        fs = oracle(job, res)
        real = [f for f in fs if not f.get("user_literal")]
        literal_skipped += len(fs) - len(real)
        if real:
            failing[i] = real
            n_fail_inputs += 1
            for f in real:
                report_failure(ck, job, res, origin, f, reported)

    phase("scan")
    # ---- correspondence verdicts
    def unexplained(indices):
        return [tidx[k] for k in indices if tidx[k] not in failing]
    mism = [tidx[k] for k in ev["mismatch"]]
    for i in mism[:5]:
        origin, job = jobs[i]
        res = results[i]
        if i in failing:
            continue
        ck.violation(dict(kind="correspondence-differs", what="model build of the logged operations differs from the real compile",
                          code=ev["codes"].get(tidx.index(i)), origin=origin, job=job,
                          real=dict(ok=res["ok"], exc=res.get("exc"), files=sorted((res.get("files") or {}).keys())),
                          note="codes: 1 op result differs, 2 real ok but no build logged, 3 error class differs, 4 file map differs, 5 model accepts but real rejects"),
                     no_input=True)
    for name, lst in (("undisciplined", ev["undisciplined"]), ("not_closed", ev["not_closed"]), ("illegal", ev["illegal"])):
        for i in unexplained(lst)[:3]:
            origin, job = jobs[i]
            lit = [f for f in oracle(job, results[i]) if f.get("user_literal")]
            if lit:
                continue    # a reference the user wrote literally (vanilla syntax): passed through, not generated
            ck.violation(dict(kind=f"hypothesis-{name}", what=f"a real accepted compile is {name} in the model but the scan of its output found nothing",
                              origin=origin, job=job), no_input=True)

    phase("verdicts")
    # ---- (round 4) DISK builds: first build and rebuilds into the same output directory, #copy / #static / left-over function tags
    disk_cov = c07_disklib.run_disk(ck, tier, CERTS, reported)
    phase("disk")

    origins = {}
    for (origin, _), res in zip(jobs, results):
        k = origin.split(":")[0]
        origins.setdefault(k, [0, 0])
        origins[k][0] += 1
        origins[k][1] += 1 if res["ok"] else 0
    nops = [len(r["ops"]) for r in results]
    ck.cov.update(dict(
        evaluations=len(terms) + len(conv) + len(fmt) + disk_cov.get("replayed_in_coq", 0),
        distinct_nontrivial=len({json.dumps(j, sort_keys=True) for (_, j), r in zip(jobs, results)
                                 if any(op[0] in ("pset", "jset", "called") for op in r["ops"])}),
        rule="a case = one traced real compile (program x namespace x pack_format x jmc.txt names x header); non-trivial = its trace stores at least "
             "one private function / json / user call; plus one case per (name, prefix, lower) for convention_jmc_to_mc and per (path, overrides) for format_func_path; "
             "plus one case per traced real DISK build (history x build index: program, header, previous tree, #copy tree, statics)",
        programs=len(jobs), accepted_compiles=n_ok, origins={k: dict(total=v[0], accepted=v[1]) for k, v in origins.items()},
        builtins_in_registry=len(registry), builtin_probes_compiling=n_probe_ok, builtin_probes_failed=probe_failed,
        unsupported=unsupported[:20], n_unsupported=len(unsupported),
        ops_per_trace=dict(min=min(nops), max=max(nops), mean=round(sum(nops) / len(nops), 1)),
        disagreements_checked=len(mism), undisciplined=len(ev["undisciplined"]), not_closed=len(ev["not_closed"]),
        failing_inputs=n_fail_inputs, user_literal_references_skipped=literal_skipped,
        empty_private_functions=empty_private_coverage(jobs, results), builtin_probes_emptied=n_emptied_probes,
        decorator_x_reference=decoref_coverage(jobs, results, replay_skip, ev), phase_seconds=phases, disk_builds=disk_cov,
        twin_probes=dict(generated=len(twins), accepted=n_twin_ok,
                         builtins=len({o.split(":")[1] for (o, _), r in zip(twins, tres) if r["ok"]})),
        convention_mode="strict (repaired)" if strict else "pinned (accepts 'a..b')",
        samples=[dict(origin=o, program=j["src"][:300], ops=len(r["ops"]), ok=r["ok"]) for (o, j), r in list(zip(jobs, results))[120:123]],
        correspondence="model verdict + complete file map (paths and contents) == real, per traced compile; disc/closedb/alloc_disc evaluated in Coq per trace; "
                       "every real output scanned for dangling references (word-separated and embedded in quoted text), illegal paths, "
                       "empty / incomplete / glued command lines, missing tag entries; (round 4) per disk build: predicted tree (Model.AllocDisk.dbuild) == tree "
                       "read back from disk, load / tick registration and closure evaluated in Coq on it, and the direct scan of the real tree",
    ))
    return ck.finish()


def replay(path: str) -> int:
    rep = json.loads(Path(path).read_text())
    if rep.get("disk_job"):
        return c07_disklib.replay_disk(rep)
    job = rep.get("job")
    if not job:
        print("replay file has no input (no-failing-input-found)")
        print(json.dumps(rep, indent=1)[:3000])
        return 1
    res = trace_jobs([job])[0]
    print("program:\n" + job["src"])
    print("expected:", rep.get("expected"))
    if not res["ok"]:
        print("actual: compile fails with", res["exc"], res["msg"][:300])
        return 0
    fs = [f for f in oracle(job, res) if not f.get("user_literal")]
    print("actual:", json.dumps(fs, indent=1) if fs else "no failure")
    return 1 if fs else 0
