"""C09, strengthening round 4: generators and the Python-side oracle pieces for

 * literals that MIX non-ASCII text (Latin-1, BMP, combining marks, astral, characters that other encodings spell with a
   0x5C / 0x22 byte) with every escape the tokenizer accepts, in both quote kinds, systematic + random;
 * formatted text (`&x`, `&&`, `&<..>`): blank runs at every position, systematic + random;
 * the Debug.watch(src=true) sink (the watched source line is copied into a tellraw).

Source texts below are JMC source, i.e. a backslash is the backslash the user types."""
from __future__ import annotations

import re
import unicodedata

BS = "\\"

# --------------------------------------------------------------------------- the alphabet
# (name, text) - raw characters that may stand in a literal as they are
NONASCII = [
    ("latin1-e", "\u00e9"), ("latin1-y", "\u00ff"), ("latin1-times", "\u00d7"), ("latin1-sect", "\u00a7"),
    ("nbsp", "\u00a0"), ("soft-hyphen", "\u00ad"), ("nel", "\u0085"), ("c1-control", "\u009b"),
    # code points whose UTF-16 / UCS-2 bytes hold 0x5C or 0x22, and characters that legacy encodings (Shift-JIS, GBK, Big5) write
    # with a trailing 0x5C byte: a decoder that works on bytes instead of code points sees a backslash / quote there
    ("low-byte-5c", "\u015c"), ("low-byte-22", "\u0122"), ("low-byte-27", "\u0127"), ("bytes-5c22", "\u5c22"),
    ("bytes-225c", "\u225c"), ("sjis-5c", "\u8868\u30bd\u80fd\u5341"), ("big5-5c", "\u8a31\u529f\u84cb"),
    ("fullwidth-backslash", "\uff3c"), ("fullwidth-quote", "\uff02\uff07"), ("set-minus", "\u2216\u29f5"),
    ("curly-quotes", "\u201c\u201d\u2018\u2019\u00ab\u00bb"),
    ("combining-acute", "e\u0301o\u0308"), ("combining-enclosing", "a\u20dd\u0489"), ("combining-only", "\u0301"),
    ("cjk", "\u65e5\u672c\u8a9e"), ("hangul", "\ud55c\uae00"), ("hebrew", "\u05e9\u05dc\u05d5\u05dd"),
    ("arabic", "\u0645\u0631\u062d\u0628\u0627"), ("thai", "\u0e2a\u0e27\u0e31\u0e2a\u0e14\u0e35"),
    ("replacement", "\ufffd"), ("bom", "\ufeff"), ("private-use", "\ue000\uf8ff"), ("noncharacter", "\uffff\ufdd0"),
    ("bidi-controls", "\u202e\u2066\u2069"), ("ideographic-space", "\u3000"),
    ("emoji", "\U0001f600"), ("emoji-zwj", "\U0001f468\u200d\U0001f469\u200d\U0001f467"), ("emoji-flag", "\U0001f1e9\U0001f1ea"),
    ("emoji-skin", "\U0001f44d\U0001f3fd"), ("emoji-vs16", "\u2764\ufe0f"), ("astral-math", "\U0001d518\U0001d7d8"),
    ("astral-cjk", "\U00020000\U0002a6d6"), ("astral-pua", "\U000f0000"), ("astral-last", "\U0010ffff"), ("tag-chars", "\U000e0067\U000e007f"),
]
# (name, source text, value holds a line break (say refuses it))
ESCAPES = [
    ("backslash", BS + BS, False), ("dquote", BS + '"', False), ("squote", BS + "'", False),
    ("n", BS + "n", True), ("r", BS + "r", True), ("t", BS + "t", False),
    ("a-b-f-v", BS + "a" + BS + "b" + BS + "f" + BS + "v", False), ("nul", BS + "0 ", False),
    ("octal-3", BS + "101", False), ("octal-latin1", BS + "351", False), ("octal-max", BS + "777", False),
    ("octal-2", BS + "47 ", False), ("octal-then-digit", BS + "1018", False),
    ("x", BS + "xe9", False), ("x-upper", BS + "xE9" + BS + "xFF", False), ("x-control", BS + "x1b", False),
    ("x-backslash", BS + "x5c", False), ("x-dquote", BS + "x22" + BS + "x27", False),
    ("u", BS + "u00e9", False), ("u-bmp", BS + "u65e5" + BS + "uff3c", False), ("u-upper", BS + "u00C9" + BS + "u015C", False),
    ("U", BS + "U0001f600", False), ("U-upper", BS + "U0001F600" + BS + "U0010FFFF", False), ("U-bmp", BS + "U000000e9", False),
    ("N", BS + "N{BULLET}", False), ("N-latin", BS + "N{LATIN SMALL LETTER E WITH ACUTE}", False),
    ("N-lower", BS + "N{greek small letter alpha}", False), ("N-astral", BS + "N{GRINNING FACE}", False),
    ("unknown", BS + "q" + BS + "-", False), ("unknown-non-ascii", BS + "\u00e9" + BS + "\u65e5", False),
    # escapes of OTHER languages that Python does not know: JSON's \/ , C's \? and \e , JavaScript's \u{..}: kept with the backslash
    ("foreign-slash", BS + "/", False), ("foreign-c", BS + "?" + BS + "e", False), ("foreign-regex", BS + "d" + BS + "s" + BS + ".", False),
    ("continuation", BS + "\n", False),
]
ESC_NO_BREAK = [e for e in ESCAPES if not e[2]]


def names_table(raw: str) -> list[tuple[str, int]]:
    """the \\N{name} names of a literal that Python's unicodedata knows (single code points), with their code points - the
    `nm` parameter of the Coq model (like the isprintable table: Python's answers, the theorems hold for every table)"""
    out, seen = [], set()
    for m in re.finditer(r"\\N\{([^}]*)\}", raw):
        n = m.group(1)
        if n in seen:
            continue
        seen.add(n)
        try:
            ch = unicodedata.lookup(n)
        except KeyError:
            continue
        if len(ch) == 1:
            out.append((n, ord(ch)))
    return out


def mixed_literals() -> list[tuple[str, str, str, str]]:
    """(name, quote, text before the marker, text after it)"""
    out = []
    core = ["\u00e9", "\u015c\u5c22", "\u8868", "e\u0301", "\U0001f600", "\u00ff\u00d7"]
    # one literal per escape: the escape between and around every kind of non-ASCII text
    for name, esc, _brk in ESCAPES:
        body = esc.join(core) + esc
        for q in ('"', "'"):
            out.append((f"mix:esc-{name}:{'dq' if q == chr(34) else 'sq'}", q, "Caf\u00e9 " + esc, body))
    # one literal per class of non-ASCII text: eight escapes (rotating over all of them) between repetitions of it; the long
    # version with EVERY escape is `mix:allesc-..` (few cases each: the files of long cases are slow to evaluate)
    pool = [e for e in ESC_NO_BREAK if e[0] != "continuation"]
    for i, (name, text) in enumerate(NONASCII):
        q = '"' if i % 3 else "'"
        some = [pool[(i * 5 + j * 4) % len(pool)] for j in range(8)]
        out.append((f"mix:chars-{name}", q, text + " ", "".join(text + e[1] for e in some) + text))
        out.append((f"mix:allesc-{name}", q, text + " ", "".join(text + e[1] for e in pool) + text))
        # ... and the shortest shape of the reported miss: one escaped quote next to the text
        out.append((f"mix:quoted-{name}", '"', "say " + BS + '"' + text, BS + '" ' + text))
    # the reported example itself
    out.append(("mix:cafe-zoe", '"', "Caf\u00e9 " + BS + '"Zo\u00eb' + BS + '" ', ""))
    out.append(("mix:cafe-zoe-sq", "'", "Caf\u00e9 " + BS + "'Zo\u00eb" + BS + "' \"", "\""))
    # backtick strings decode the same way
    out.append(("mix:bt", "`", "\nCaf\u00e9 " + BS + '"Zo\u00eb' + BS + '" ' + BS + "xe9 \u8868" + BS + "t" + BS + "u00e9 ", " \U0001f600" + BS + BS + "\n"))
    out.append(("mix:bt-two-lines", "`", "\n  e\u0301 " + BS + "N{BULLET} ", "\n  \u015c" + BS + "101 \uff3c\n "))
    return out


def random_mixed(rng, n: int) -> list[tuple[str, str, str, str]]:
    chars = [t for _n, t in NONASCII] + list("abc xyz01 {}[]();:,.#/$@=-+*") + ['"', "'"]
    out = []
    for k in range(n):
        q = rng.choice(['"', '"', "'"])
        parts, brk = [], rng.random() < 0.15
        for _ in range(rng.randint(3, 12)):
            r = rng.random()
            if r < 0.45:
                t = rng.choice(chars)
                if t == q:
                    t = BS + t
                parts.append(t)
            else:
                e = rng.choice(ESCAPES if brk else ESC_NO_BREAK)
                parts.append(e[1])
        cut = rng.randint(0, len(parts))
        out.append((f"mix:random-{k}", q, "".join(parts[:cut]), "".join(parts[cut:])))
    return out


# --------------------------------------------------------------------------- formatted text
CODES = "0123456789abcdefklmnor"
BLANKS = [" ", "  ", "\t", "\u00a0", "\u3000 ", " \u2003"]
FMT_CODE_SAMPLES = ["&c", "&l", "&r", "&<bold>", "&<red,bold>", "&<#ff00ff>", "&<!italic>", "&<green, underlined >", "&c&l", "&<reset>"]
FMT_COMPONENTS = ["&<@s>", "&<$v>", "&<obj:@s>", "&<@a,bold>", "&<$v.w, red>"]


def fmt_literals() -> list[tuple[str, str, str, str]]:
    """(name, quote, text before the marker, text after it): blank runs at the start / between codes / before a component / at
    the end; the marker is ordinary text"""
    out = []

    def add(name, pre, post, q='"'):
        out.append((f"fmt:{name}", q, pre, post))

    for bi, b in enumerate(BLANKS):
        for ci, c in enumerate(FMT_CODE_SAMPLES):
            if (bi + ci) % 2 and bi > 1:
                continue            # the two ASCII blanks get every code, the others every second one
            add(f"start-{bi}-{ci}", b + c + "X", "")
            add(f"between-{bi}-{ci}", "", c + b + "&aY")
            add(f"between-same-colour-{bi}-{ci}", "&e", "&e" + b + c + "Z")
            add(f"end-{bi}-{ci}", "", c + b)
            add(f"only-after-code-{bi}-{ci}", c + b + "&b", "")
        for ki, k in enumerate(FMT_COMPONENTS):
            add(f"before-component-{bi}-{ki}", "", b + k)
            add(f"between-components-{bi}-{ki}", k + b + "&<@p>" + b, b + k + b)
            add(f"coloured-before-component-{bi}-{ki}", "&6" + b + k + b, "")
            add(f"end-after-component-{bi}-{ki}", "", k + b)
        add(f"merge-{bi}", "&c", "&c" + b + "&c" + b + "&cend")
        add(f"amp-{bi}", b + "&&" + b, b + "&&")
    for ci, c in enumerate(CODES):
        add(f"code-{c}", f"&{c} ", f" &{c}&l x")
    add("all-styles", "&k&l&m&n&o", "&r plain")
    add("hex-and-negation", "&<#00ff7f,!bold,!italic,underlined,strikethrough,obfuscated>", "&<!underlined>x")
    add("score-forms", "&<$a>&<$b.c>&<obj:name>&<obj:@s>", "&<red,$z>")
    add("selector-forms", "&<@s>&<@a[tag=x]>&<@e[type=pig]>", "&<@p,bold,red>!")
    add("bad-selector-with-comma", "&<@e[type=pig,limit=1]>", "")      # (the bracket is split at every comma)
    add("non-ascii", "&cCaf\u00e9 &l\u8868\u015c&r \U0001f600", "&<bold>e\u0301")
    add("escapes", "&c" + BS + '"q' + BS + '" ' + BS + BS + " &l" + BS + "xe9" + BS + "t", BS + "u00e9&r" + BS + "'")
    add("single-quoted", "&c\"q\" ", " &<bold>it" + BS + "'s", q="'")
    # refused
    add("bad-trailing-amp", "x ", " &")
    add("bad-unclosed", "x ", " &<bold")
    add("bad-colour-twice", "&<red,blue>", "")
    add("bad-colour-twice-code", "&c&<red>", "")
    add("bad-negated-colour", "&<!red>", "")
    add("bad-unknown-property", "&<sparkly>", "")
    add("bad-empty-property", "&<>", "")
    add("bad-score-and-selector", "&<@s,$v>", "")
    add("bad-negated-selector", "&<!@s>", "")
    # unknown one-letter codes (fixes/C09-unknown-format-code.patch: a diagnostic; before it the two characters vanished)
    add("unknown-code-blank", "Tom & Jerry ", "")
    add("unknown-code-letter", "50&x ", "")
    add("unknown-code-non-ascii", "a &\u00e9 b ", "")
    add("unknown-code-upper", "&C", " red?")
    return out


def random_fmt(rng, n: int) -> list[tuple[str, str, str, str]]:
    runs = BLANKS + ["a", "Caf\u00e9", "x y", "&&", "\U0001f600", ",", ">", "<", "!"]
    out = []
    for k in range(n):
        parts = []
        for _ in range(rng.randint(2, 9)):
            r = rng.random()
            if r < 0.45:
                parts.append(rng.choice(runs))
            elif r < 0.7:
                parts.append("&" + rng.choice(CODES))
            elif r < 0.88:
                props = rng.sample(["red", "blue", "bold", "!bold", "italic", "#12ab9f", "reset", "underlined", " obfuscated "], rng.randint(1, 3))
                parts.append("&<" + ",".join(props) + ">")
            else:
                parts.append(rng.choice(FMT_COMPONENTS))
        cut = rng.randint(0, len(parts))
        out.append((f"fmt:random-{k}", '"', "".join(parts[:cut]), "".join(parts[cut:])))
    return out


def fmt_expect(value: str):
    """What a reader of the emitted components must see, judged without the model: ("text", plain text) /
    ("diag", why) for what the character loop itself refuses; `brackets` = the literal holds `&<..>` (whose properties the
    compiler may refuse for reasons this function does not judge)."""
    out, i, n, brackets = [], 0, len(value), False
    while i < n:
        ch = value[i]
        if ch != "&":
            out.append(ch); i += 1; continue
        if i + 1 >= n:
            return ("diag", "trailing &"), brackets
        nx = value[i + 1]
        if nx == "&":
            out.append("&"); i += 2; continue
        if nx == "<":
            j = value.find(">", i + 2)
            if j < 0:
                return ("diag", "unclosed <"), True
            brackets = True
            i = j + 1
            continue
        if nx not in CODES:
            return ("diag", f"unknown code {nx!r}"), brackets
        i += 2
    return ("text", "".join(out)), brackets
