"""C15, strengthening round 4: layout runs INSIDE the bracket arguments of calls whose argument TEXT is substituted
into a body - @lazy calls (datapack.py: PreFunction.__argument_text / handle_lazy), Hardcode.repeat / repeatList /
repeatLists / switch bodies (execute_excluded.py: _hardcode_processes), JMC built-in calls and `#define` macros with
parameters (header_parse.py) - crossed with HOW the parameter is used in the body:

    code        the parameter stands where a token is expected (it is re-tokenised: layout in it would be harmless)
    sq / dq     inside a single-quoted / double-quoted string literal of the body
    bt          inside a backtick (multi-line) string
    calc        inside the parentheses of Hardcode.calc( )
    mixed       several of them in one body

Where the parameter is spliced into a string, the argument text reaches the output verbatim: only if the compiler
substitutes the CLEANED text of a bracket argument (Model/LayoutArg.v: clean_paren / argument_text, invariant under
`relayout` by C15_argument_text) is the output independent of the layout inside the argument.

In every call the mark `¦` stands at a place inside a bracket argument (or between the arguments) where a layout run
is legal; the corpus program has ONE blank there, so each of the re-layouts of c15_layout rewrites it to line breaks,
tabs, wide gaps and comments (glued or not).  An entry is
    (family, usage, definitions (top level), call statement (inside `function t`), header or None, needs or None,
     statements of the load section)
`needs` names a recorded defect of the pinned tree (FINDING_OF): the entry is part of the corpus only if the tree has
the fix (probed), the finding is listed in known_findings.json, or VERIF_C15_DEMAND=1.
"""
from __future__ import annotations

MARK = "¦"

# ---- bracket-kind arguments (text with marks, may it appear in a "..." string?, in a '...' string?)
ARG_KINDS = {
    "json":      ('{¦"text"¦:¦"a b"¦,¦"color"¦:¦"red"¦}', False, True),
    "json_nest": ('{¦"text":"a"¦,¦"extra"¦:¦[¦{¦"text":"!"¦}¦,¦"s"¦]¦}', False, True),
    "nbt":       ('{¦a¦:¦1b¦,¦b¦:¦[¦1¦,¦2¦]¦,¦c¦:¦{¦d¦:¦2.5f¦}¦}', True, True),
    "nbt_str":   ("{¦id¦:¦'minecraft:stone'¦,¦Count¦:¦1b¦}", True, False),
    "selector":  ('@e[¦type¦=¦pig¦,¦limit¦=¦1¦,¦tag¦=¦!x¦]', True, True),
    "sel_nbt":   ('@e[¦type=pig¦,¦nbt¦=¦{¦OnGround¦:¦1b¦}¦,¦scores¦=¦{¦obj¦=¦1..5¦}¦]', True, True),
    "list":      ('[¦1¦,¦2¦,¦3¦]', True, True),
    "int_array": ('[¦I;¦1¦,¦2¦]', True, True),
    "round":     ('(¦1¦+¦2¦)', True, True),
    "coords":    ('~¦~1¦~', True, True),
    "item":      ('stone[¦custom_name¦=¦\'"x"\'¦,¦lore¦=¦[¦\'"a"\'¦]¦]', False, False),
    "state":     ('chest[¦facing¦=¦north¦]{¦Items¦:¦[]¦}', True, True),
}

# ---- bodies of a one-parameter @lazy function, by usage: (usage, body, argument kinds it makes sense for)
LAZY_BODIES = [
    ("code", 'summon pig ~ ~ ~ $p;', ("nbt", "nbt_str")),
    ("code", 'tellraw @a $p;', ("json", "json_nest")),
    ("code", 'kill $p;', ("selector", "sel_nbt")),
    ("code", 'data modify storage a:b x set value $p;', ("nbt", "list", "int_array", "nbt_str")),
    ("code", 'tp @s $p;', ("coords",)),
    ("code", 'give @s $p 1;', ("item",)),
    ("code", 'setblock ~ ~ ~ $p replace;', ("state",)),
    ("code", '$x := $p * 2;', ("round",)),
    ("sq", "summon pig ~ ~ ~ {CustomName:'$p'};", ("json", "json_nest", "nbt", "selector", "list", "coords")),
    ("sq", "data modify storage a:b x set value '$p';", ("json", "nbt", "selector", "sel_nbt", "int_array", "round", "state")),
    ("dq", 'tellraw @a "marked $p";', ("nbt", "selector", "sel_nbt", "list", "int_array", "round", "coords", "state")),
    ("dq", 'say "$p";', ("selector", "nbt", "coords")),
    ("dq", 'Text.tellraw(@a, "got $p");', ("selector", "list", "round")),
    ("bt", 'tellraw @a `\n$p\n`;', ("nbt", "selector", "list")),
    ("calc", '$x = Hardcode.calc($p * 2);', ("round",)),
    ("calc", 'tp @s ~ ~Hardcode.calc($p + 1) ~;', ("round",)),
    ("mixed", 'kill $p; tellraw @a "killed $p"; data modify storage a:b who set value \'$p\';', ("selector", "sel_nbt")),
    ("mixed", "summon pig ~ ~ ~ $p; data modify storage a:b last set value '$p';", ("nbt",)),
]

ENTRIES = []


def _add(family, usage, defs, stmt, header=None, needs=None, top=""):
    """top: statements of the load section (top level), with marks"""
    ENTRIES.append((family, usage, defs, stmt, header, needs, top))


for _u, _body, _kinds in LAZY_BODIES:
    for _k in _kinds:
        _arg = ARG_KINDS[_k][0]
        _add("lazy_positional/" + _k, _u, "@lazy function lzp(p) { %s }" % _body, "lzp(¦%s¦);" % _arg)
for _u, _body, _kinds in LAZY_BODIES[8:13]:
    _k = _kinds[0]
    _add("lazy_keyword/" + _k, _u, "@lazy function lzk(p) { %s }" % _body, "lzk(¦p¦=¦%s¦);" % ARG_KINDS[_k][0])

# two parameters, both bracket arguments, both spliced into strings (the shape of the missed change)
_add("lazy_two_params", "mixed", "@lazy function mark(name, sel) { summon pig ~ ~ ~ {CustomName:'$name'}; tellraw @a \"marked $sel\"; kill $sel; }",
     'mark(¦{¦"text"¦:¦"a"¦}¦,¦@e[¦type=pig¦,¦limit=1¦]¦);')
_add("lazy_two_params", "mixed", "@lazy function mark(name, sel) { summon pig ~ ~ ~ {CustomName:'$name'}; tellraw @a \"marked $sel\"; kill $sel; }",
     'mark(¦sel¦=¦@e[¦type=pig¦,¦limit=1¦]¦,¦name¦=¦{¦"text"¦:¦"a"¦}¦);')
# a lazy function in a class, a lazy call inside a lazy body (the argument text is substituted twice)
_add("lazy_in_class", "dq", 'class util { @lazy function note(p) { tellraw @a "note $p"; } }', 'util.note(¦{¦a¦:¦1b¦}¦);')
_add("lazy_nested", "dq", '@lazy function inner(q) { tellraw @a "inner $q"; kill $q; }\n@lazy function outer(p) { inner($p); say "outer $p"; }',
     'outer(¦@e[¦type=pig¦,¦limit=1¦]¦);')
_add("lazy_nested", "sq", "@lazy function inner(q) { data modify storage a:b x set value '$q'; }\n@lazy function outer(p) { inner({w: $p}); }",
     'outer(¦{¦a¦:¦1b¦}¦);')
# a bracket argument next to other tokens of the same argument (is_connected decides the blank between them)
_add("lazy_multi_token", "dq", '@lazy function at(p) { tellraw @a "at $p"; execute $p run say "x"; }', 'at(¦as @a[¦tag=x¦] at @s¦);')
_add("lazy_multi_token", "sq", "@lazy function st(p) { data modify storage a:b x set value '$p'; data modify storage a:b y set from $p; }",
     'st(¦entity @s Inventory[¦{¦Slot¦:¦0b¦}¦].tag¦);')
_add("lazy_string_arg", "dq", '@lazy function sa(p) { say $p; data modify storage a:b x set value $p; }', 'sa(¦"a  b // not a comment"¦);')
_add("lazy_in_execute", "dq", '@lazy function one(p) { tellraw @a "one $p"; }', 'execute as @a run one(¦{¦a¦:¦1b¦}¦);')
# a lazy call in the load section (top level)
_add("lazy_top_level", "dq", '@lazy function lzt(p) { tellraw @a "top $p"; data modify storage a:b t set value $p; }', 'say "x";', None, None,
     'lzt(¦{¦a¦:¦1b¦,¦b¦:¦[¦1¦,¦2¦]¦}¦);')
# round brackets: a nested call as the argument (its own bracket arguments are cleaned inside the round bracket)
_add("lazy_nested_call", "mixed", '@lazy function inner(q) { tellraw @a "in $q"; }\n@lazy function run(p) { $p; tellraw @a "ran $p"; }',
     'run(¦inner(¦{¦a¦:¦1b¦,¦b¦:¦[¦1¦,¦2¦]¦}¦)¦);')
_add("lazy_nested_call", "mixed", '@lazy function st(p) { $y = $p; tellraw @a "set $p"; }', 'st(¦Math.sqrt(¦$x¦)¦);')
_add("lazy_nested_call", "sq", "@lazy function ex(p) { execute if $p run say 'x'; data modify storage a:b c set value 'if $p'; }", 'ex(¦entity @e[¦type¦=¦pig¦,¦nbt¦=¦{¦Tags¦:¦[¦"a  b"¦]¦}¦]¦);')
# arrow-function arguments of a lazy call: used as code
_add("lazy_arrow/code", "code", '@lazy function rep(f) { Hardcode.repeat($f, start=0, stop=2); }', 'rep(¦(¦i¦)¦=>¦{¦say "n $i";¦tp @s ~ ~$i ~;¦}¦);')
_add("lazy_arrow/code", "code", '@lazy function rep(f) { Hardcode.repeat($f, start=0, stop=2); }', 'rep(¦f¦=¦(i)¦=>¦{¦say "n $i";¦}¦);')
_add("lazy_arrow/code", "code", '@lazy function sw(f) { Hardcode.switch($x, $f, count=2); }', 'sw(¦(¦i¦)¦=>¦{¦say "a $i";¦say "b";¦}¦);')
# ... and spliced into a string (recorded defect: the body of an arrow function is substituted as raw text)
_add("lazy_arrow/string", "sq", "@lazy function sh(f) { data modify storage a:b src set value '$f'; }", 'sh(¦()¦=>¦{¦say hi;¦}¦);', None, "arrow-argument-in-string")
_add("lazy_arrow/string", "sq", "@lazy function sh(f) { data modify storage a:b src set value '$f'; }", 'sh(¦(¦i¦)¦=>¦{¦tp @s ~ ~$i ~;¦}¦);', None, "arrow-argument-in-string")

# ---- Hardcode.* bodies: the parameter as code, in strings and in Hardcode.calc; layout inside the body and the lists
_add("hardcode_repeat", "mixed", "", 'Hardcode.repeat(¦(¦i¦)¦=>¦{¦say "index $i";¦tellraw @a \'{"n":"$i"}\';¦$x = Hardcode.calc(¦$i¦*¦2¦+¦1¦);¦'
     'summon pig ~ ~$i ~ {¦n¦:¦$i¦,¦l¦:¦[¦$i¦,¦Hardcode.calc($i+1)¦]¦};¦}¦,¦start¦=¦1¦,¦stop¦=¦3¦);')
_add("hardcode_repeat", "calc", "", 'Hardcode.repeat(¦(i)¦=>¦{¦tp @s ~ ~Hardcode.calc(¦(¦$i¦+¦1¦)¦*¦2¦) ~;¦}¦,¦start=0¦,¦stop=2¦);')
_add("hardcode_repeat_list", "mixed", "", 'Hardcode.repeatList(¦(¦i¦,¦v¦)¦=>¦{¦say "$v $i";¦give @s $v{¦n¦:¦$i¦,¦name¦:¦\'$v\'¦};¦}¦,¦strings¦=¦[¦"stone"¦,¦"dirt"¦]¦);')
_add("hardcode_repeat_lists", "mixed", "", 'Hardcode.repeatLists(¦(¦i¦,¦a¦,¦b¦)¦=>¦{¦say "$i $a $b";¦give @s $a{¦t¦:¦"$b"¦};¦}¦,¦'
     'stringLists¦=¦[¦[¦"stone"¦,¦"dirt"¦]¦,¦[¦"x y"¦,¦"z"¦]¦]¦);')
_add("hardcode_switch", "mixed", "", 'Hardcode.switch(¦$x¦,¦(¦i¦)¦=>¦{¦say "case $i";¦tellraw @a {¦"text"¦:¦"$i"¦};¦$y = Hardcode.calc(¦$i¦*¦3¦);¦}¦,¦count¦=¦2¦);')
_add("hardcode_in_lazy", "mixed", '@lazy function each(p) { Hardcode.repeat((i) => { tellraw @a "$i of $p"; kill $p; }, start=0, stop=2); }',
     'each(¦@e[¦type=pig¦,¦limit=1¦]¦);')
_add("lazy_in_hardcode", "mixed", '@lazy function show(p) { tellraw @a "shown $p"; }', 'Hardcode.repeat(¦(i)¦=>¦{¦show(¦{¦n¦:¦$i¦}¦);¦}¦,¦start=0¦,¦stop=2¦);')

# ---- JMC built-in calls with bracket arguments
_add("builtin/selector", "code", "", 'Text.tellraw(¦@a[¦tag¦=¦x¦,¦limit¦=¦1¦]¦,¦"hello &<red>world"¦);')
_add("builtin/selector", "code", "", 'Text.title(¦@a[¦scores¦=¦{¦obj¦=¦1..¦}¦]¦,¦"t"¦);')
_add("builtin/nbt", "code", "", 'Item.give(¦stone¦,¦@s[¦tag¦=¦x¦]¦,¦1¦);', None, None, 'Item.create(¦stone¦,¦stone¦,¦"n"¦,¦[¦"l  1"¦]¦,¦nbt¦=¦{¦a¦:¦1b¦,¦b¦:¦[¦{¦c¦:¦"x  y"¦}¦]¦}¦);')
_add("builtin/json_string", "dq", "", 'Text.tellraw(¦@a¦,¦"a {b: [1, 2]} // c"¦);')
_add("builtin/hover", "code", "", 'Text.tellraw(¦@a¦,¦"&<hov,red>x"¦);', None, None, 'TextProp.hoverText(¦"hov"¦,¦"hover  text"¦);')
_add("builtin/js_object", "code", "", 'say "x";', None, None, 'Player.onEvent(¦jump¦,¦()¦=>¦{¦tellraw @s {¦"text"¦:¦"j"¦};¦}¦);\n'
     'Trigger.setup(¦help¦,¦{¦1¦:¦(¦)¦=>¦{¦tellraw @s {¦"text"¦:¦"h  1"¦};¦}¦,¦2¦:¦()=>{¦say "h2";¦}¦}¦);')
_add("builtin/raycast", "code", "", 'Raycast.simple(¦onHit¦=¦()¦=>¦{¦kill @s[¦type=pig¦];¦}¦,¦onStep¦=¦()=>{¦particle dust{¦color¦:¦[¦1.0¦,¦0.0¦,¦0.0¦]¦,¦scale¦:¦1¦} ~ ~ ~ 0 0 0 0 1;¦}¦,¦interval¦=¦0.5¦,¦maxIter¦=¦5¦);')

_add("builtin/keyword_selector", "code", "", 'Text.tellraw(¦selector¦=¦@a[¦tag¦=¦x¦,¦limit¦=¦1¦]¦,¦message¦=¦"hello"¦);')
_add("builtin/keyword_selector", "code", "", 'Text.title(¦message¦=¦"t"¦,¦selector¦=¦@a[¦scores¦=¦{¦obj¦=¦1..¦}¦]¦);')
_add("builtin/keyword_selector", "code", "", 'Raycast.simple(¦onHit¦=¦()=>{¦say "h";¦}¦,¦target¦=¦@e[¦type¦=¦pig¦,¦tag¦=¦!x¦]¦,¦interval=0.5¦,¦maxIter=5¦);')
_add("builtin/bool", "code", "", 'if (¦Timer.isOver(¦tm¦,¦@s[¦tag¦=¦x¦]¦)¦&&¦$x¦>¦1¦) {¦say "t";¦}')

# ---- strings INSIDE a bracket argument (re-quoted by the clean-up: repr / json.dumps): quotes, escapes, layout-like
#      text and comment-like text within them must survive every re-layout of the brackets around them
_add("lazy_quotes", "code", "@lazy function q1(p) { data modify storage a:b x set value $p; summon pig ~ ~ ~ $p; }",
     "q1(¦{¦a¦:¦\"it's  x\"¦,¦b¦:¦[¦\"// no\"¦,¦\" , \"¦]¦}¦);")
_add("lazy_quotes", "dq", '@lazy function q2(p) { tellraw @a $p; data modify storage a:b x set value \'$p\'; }',
     'q2(¦{¦"text"¦:¦"tab\\there  \\\\ end"¦,¦"extra"¦:¦[¦"a\\"b"¦,¦{¦"text"¦:¦"  "¦}¦]¦}¦);')
_add("lazy_quotes", "code", "@lazy function q3(p) { give @s stone$p 1; }", "q3(¦[¦custom_name¦=¦'\"x  y\"'¦,¦lore¦=¦[¦'\"l // 1\"'¦]¦]¦);")

# ---- `#define` macros with parameters: bracket arguments at the use site
_H1 = "#define TELL(who, what) tellraw who what\n#define SEL(t) @e[type=t,limit=1]\n#define PAIR(a, b) {first:a,second:b}\n"
_add("define_args", "code", "", 'TELL(¦@a[¦tag¦=¦x¦]¦,¦{¦"text"¦:¦"hi"¦}¦);', _H1)
_add("define_args", "code", "", 'kill SEL(¦pig¦);', _H1)
_add("define_args", "code", "", 'data modify storage a:b x set value PAIR(¦{¦k¦:¦1b¦}¦,¦[¦1¦,¦2¦]¦);', _H1)
_add("define_in_lazy_arg", "dq", '@lazy function note(p) { tellraw @a "note $p"; kill $p; }', 'note(¦SEL(¦pig¦)¦);', _H1)
_add("define_in_lazy_arg", "sq", "@lazy function keep(p) { data modify storage a:b x set value '$p'; }", 'keep(¦PAIR(¦{¦k¦:¦1b¦}¦,¦[¦1¦,¦2¦]¦)¦);', _H1)

# canonical probes: does the tree have the fix?
FIX_PROBES = {
    "arrow-argument-in-string": ("@lazy function sh(f) { data modify storage a:b src set value '$f'; }\nfunction t() { sh(()=>{ say   hi; }); }",
                                 lambda out: "say   hi" not in out),
}
FINDING_OF = {"arrow-argument-in-string": "C15-arrow-function-argument-in-string"}
# what of an entry is explained by its finding: the layout runs inside the parentheses of the calls of `sh` (c15.py)
SCOPE = {"arrow-argument-in-string": ("call", "sh")}


def programs(enabled):
    """-> list of dict(src, header, kind, usage, needs, marks, no_comments)"""
    out = []
    for family, usage, defs, stmt, header, needs, top in ENTRIES:
        if needs is not None and needs not in enabled:
            continue
        src = ((defs + "\n" if defs else "") + (top.replace(MARK, " ") + "\n" if top else "") +
               "function t() {\n    " + stmt.replace(MARK, " ") + "\n}\n")
        out.append(dict(src=src, header=header, kind=family, usage=usage, needs=needs, marks=(stmt + top).count(MARK),
                        no_comments=False, call=stmt))
    return out
