"""C13 — malformed input yields a JMC diagnostic, never an internal crash or hang.

 proof step   Props/C13.v: the tokenizer model never crashes and is total (C13_tok_total), statements are non-empty
              (C13_tok_nonempty), Python subscript semantics vs. the guard obligations (C13_guard_sound/_facts)
 regenerated  coq/Gen/C13/Space.v   Python's `\\s` table of the interpreter == Tok.space_ranges
              coq/Gen/C13/Guards.v  one lemma per constant subscript of the positional parsers, facts collected from
                                    the source by translate_guards.py, closed by lia (open ones listed, never counted)
 tie          a sample of the mutants is traced through the real Tokenizer and compared token-for-token with Tok.parse
 search       the property's own quantifier: every single-token deletion / duplication / neighbour swap / replacement by
              each token of an alphabet / prefix truncation / bracket flip of every valid corpus program and of its
              header; real compiler under a 5 s alarm; outcome class {ok, diagnostic, internal, timeout}.  An internal
              exception or timeout whose (file, function, exception) is not a listed known finding is a VIOLATION with the
              mutant as replay.  quick: all structural edits + a STRATIFIED sample of the replacements (one seeded member of
              every cell (enclosing construct, statement head, previous token class, token class) x replacement token);
              thorough: all.
 known sites  a known finding is matched at the granularity of the crash SITE: innermost jmc frame (file, qualified
              function), exception class AND the failing sub-expression of that frame (c13_run.py: code.co_positions ->
              ast node; kind of statement + expression with local names anonymised, e.g. `Delete:_[3]`), so a new
              unguarded subscript inside a function that already has a listed crash is still a VIOLATION, while renaming
              locals / re-wrapping / moving the code of a listed site is not.  The sites of the listed findings are in
              harness/c13_known_sites.json (or `match.expr` of the entry); findings proposed by triage round 5 and not yet
              merged / repaired upstream are read from reports/C13-known-findings-5.json.  A timeout is matched the same
              way: the runner reports the innermost jmc frame in which the alarm fired.
 round 4      (strengthening) vanilla macros `$(name)`: Props/C13.v C13_macro_* about Model/TokMacro.v (merge_vanilla_macro and the
              loops of condition_to_ast / _is_vanilla_func / FuncContent that call it while the list shrinks), tied by
              c13_run.py op "macro": every traced call of the real method while generated programs compile, and direct calls
              on the tokens of condition texts at every position from -3 to len + 2, compared token by token with the model
              (Run/C13.v mmismatches); the regenerated guard table now covers merge_vanilla_macro, merge_tokens,
              condition_to_ast, find_operator, custom_condition, FuncContent.__optimize / __parse_commands / __expect_command
              with call-site obligations for the preconditions (key_pos >= 0, non-empty token lists); generators:
              c13_gen.vanilla_macros (1..3 macros at every operand position of every condition form under every construct,
              selectors, scores, NBT paths, call arguments, `$`-statements; all spellings), macro_cond corpus statements,
              whole macro operands in the replacement alphabet; custom_commands / self_reference / new_json / builtin_pairs
              streams for the side findings
 round 5      (c13_gen.py, c13_mut.py) header-line neighbourhood (every line: delete / duplicate / swap / move to the end /
              blank and comment-only forms / cut after each token / appended token), head-of-statement insertions and
              replacements by every operator / symbol, sources that END in every token kind without `;` (incl. the macro
              names of the program's header), corpus programs whose macros are defined on LATE header lines over a one-line
              source (tokens made by `#deepdefine` carry header line numbers), and generated streams: header forms of
              every directive, a declaration at every gap of every block statement, the argument matrix of every built-in
              of the registry, compile-time arithmetic from a grammar incl. degenerate forms, and the hang detector's own
              size-parameterised inputs; the hang detector itself is exercised on every run by a canary job.
"""
from __future__ import annotations

import hashlib
import json
import os
import re
from concurrent.futures import ThreadPoolExecutor

from lib import (Check, COMMON_TRUSTED, NCPU, REPO, VERIF, GEN, compile_batch, eval_cases, known_for, run_coq_files, run_py)
from c13_corpus import corpus_c13, macro_names, FULL_CERT
from c13_mut import mutants, contexts, head_end_mutants, header_line_mutants, ALPHABET, STRING_ALPHABET, HEAD_SYMBOLS, END_TOKENS
import c13_gen
from c14_lib import COQ_HEADER, call_encodable, encodable, env_term, space_ranges, tcase_term
from lib import coq_str, coq_z, coq_bool, coq_list
import translate_guards as tg

PROP = "C13"
RUNNER = VERIF / "harness" / "c13_run.py"
TRACER = VERIF / "harness" / "c14_run.py"
STRESS_ALARM = 10       # seconds (quick tier: 5); the size-parameterised inputs of c13_gen.stress take well under 2 s each on the unchanged tree
BASELINE = VERIF / "harness" / "c13_guards_baseline.json"
KNOWN_SITES = VERIF / "harness" / "c13_known_sites.json"          # finding id -> failing expressions of its crash sites
PROPOSED = VERIF / "reports" / "C13-known-findings-5.json"        # findings of triage round 5: not yet merged, or repaired by a
#                                                                   fix patch the integrator has not committed yet
PROPOSED_R4 = VERIF / "reports" / "C13-known-findings-r4.json"    # the same for strengthening round 4


def known_findings():
    """listed findings of C13 (+ the proposals of triage round 5 until the integrator has merged them), each with the list of
    site expressions it covers (None = no refinement recorded: the whole (file, function, exception) is covered)"""
    refine = json.loads(KNOWN_SITES.read_text()) if KNOWN_SITES.exists() else {}
    listed = list(known_for(PROP))
    ids = {f["id"] for f in listed}
    # VERIF_C13_NO_PROPOSED=1: judge a tree that already contains the round-5 patches (the state after the integrator's commit):
    # only the proposals WITHOUT `repaired_by` (the findings that stay) are read
    proposals = [f for pth in (PROPOSED, PROPOSED_R4) if pth.exists() for f in json.loads(pth.read_text())]
    if os.environ.get("VERIF_C13_NO_PROPOSED"):
        proposals = [f for f in proposals if "repaired_by" not in f]
    if proposals:
        listed += [f for f in proposals if f.get("property") == PROP and f["id"] not in ids]
    out = []
    for f in listed:
        m = f.get("match", {})
        r = refine.get(f["id"])
        if isinstance(r, dict):
            # round 4: a refinement may also NARROW a listed finding by frames that must not be on the stack (`not_on_stack`):
            # the class-only RecursionError entry (deep nesting) does not cover a recursion through the expansion of a lazy
            # function / a `#deepdefine` macro
            if "not_on_stack" in r and "not_on_stack" not in m:
                f = dict(f, match=dict(m, not_on_stack=r["not_on_stack"]))
                m = f["match"]
            r = r.get("expr")
        out.append((f, m.get("expr", r)))
    return out


def run_mutants(jobs, chunk=300, alarm=5, times=False):
    chunks = [jobs[i:i + chunk] for i in range(0, len(jobs), chunk)]
    with ThreadPoolExecutor(max_workers=NCPU) as ex:
        res = list(ex.map(lambda c: run_py(RUNNER, dict(jobs=c, timeout=alarm, cert=FULL_CERT, times=times), timeout=3000), chunks))
    return [r for rs in res for r in rs]


# operators with one mutant per token of an alphabet: the quick tier runs one seeded member of every (cell x operator)
SAMPLED_OPERATORS = ("replace", "head-insert", "end-append", "line-insert", "line-append")


def deep_programs():
    out = []
    for d in (40, 80):
        out.append(("deep-if-%d" % d, "function f() { " + "if ($x == 1) { " * d + 'say "a";' + " }" * d + " }"))
        out.append(("deep-class-%d" % d, "class a { " * d + 'function f() { say "x"; }' + " }" * d))
        out.append(("deep-paren-%d" % d, "function f() { $x = " + "(" * d + "1" + ")" * d + "; }"))
        out.append(("deep-cond-%d" % d, "function f() { if (" + "(" * d + "$x == 1" + ")" * d + ') { say "a"; } }'))
        out.append(("deep-list-%d" % d, "function f() { tellraw @a " + "[" * d + '"a"' + "]" * d + "; }"))
    out.append(("deep-if-400", "function f() { " + "if ($x == 1) { " * 400 + 'say "a";' + " }" * 400 + " }"))
    return out


def known_match(o, table=None, job=None):
    """o = ['internal', exc, file, function, lineno, msg, expr] | ['timeout', file, function, lineno, expr] -> known finding
    entry or None.  A timeout entry (`match.outcome == "timeout"`) names the file and function in which the alarm fired
    (and, optionally, the expressions): a hang somewhere else is not covered by it."""
    for f, exprs in (table if table is not None else known_findings()):
        m = f.get("match", {})
        if o[0] == "timeout":
            if m.get("outcome") != "timeout":
                continue
            if "file" in m and (len(o) < 3 or m["file"] != o[1] or m.get("function") != o[2]):
                continue
            # `sites`: [file, function] pairs one of which must be ON THE STACK when the alarm fires (the alarm itself fires in
            # whatever helper happens to run); `program_regex`: and the program must contain this (e.g. the `**` operator)
            stack = o[5] if len(o) > 5 and isinstance(o[5], list) else ([[o[1], o[2]]] if len(o) > 2 else [])
            if "sites" in m and not any(fr in m["sites"] for fr in stack):
                continue
            if "program_regex" in m and (job is None or not re.search(m["program_regex"], job.get("src") or "")):
                continue
            if "file" in m and exprs is not None and (len(o) < 5 or o[4] not in exprs):
                continue
            return f
        if m.get("outcome") == "timeout":
            continue
        if m.get("exc") != o[1]:
            continue
        if "file" in m and (m["file"] != o[2] or m.get("function") != o[3]):
            continue
        if "file" in m and exprs is not None and len(o) > 6 and o[6] not in exprs:
            continue        # same function, same exception class, but a crash site that is not the listed one
        # round 4: `sites` = [file, function] frames one of which must be on the stack of the exception, `not_on_stack` = frames
        # none of which may be (o[7] = the distinct jmc frames of the traceback)
        stack = o[7] if len(o) > 7 and isinstance(o[7], list) else []
        if "sites" in m and not any(fr in m["sites"] for fr in stack):
            continue
        if "not_on_stack" in m and any(fr in m["not_on_stack"] for fr in stack):
            continue
        return f
    return None


# ------------------------------------------------------------------------------------------------ round 4: Model/TokMacro.v
def _mtok(t):
    ty, line, col, string, quote = t
    return f"R {ty} {coq_z(line)} {coq_z(col)} {coq_str(string)} {coq_bool(quote == '`')}"


def macro_case_term(c) -> str | None:
    """Coq term (Run.C13.mcase) of one observation of c13_run.py op "macro"; None when a text is not encodable"""
    texts = [t[3] for t in c["toks"]] + list(c["clean"]) + [v for v in c["clean"].values() if v is not None] + list(c["repr"])
    o = c["out"]
    if o[0] == "ok":
        texts += [t[3] for t in o[1]]
    if not all(encodable(x) for x in texts):
        return None
    if o[0] == "ok":
        out = "MOk " + coq_list(_mtok(t) for t in o[1])
    elif o[0] == "diag":
        out = "MDiag"
    else:
        out = {"IndexError": "MIndexError", "ValueError": "MValueError"}.get(o[1], "MOther")
    clean = coq_list(f"({coq_str(k)}, {'None' if v is None else '(Some ' + coq_str(v) + ')'})" for k, v in c["clean"].items())
    rp = coq_list(f"({coq_str(k)}, {coq_z(v)})" for k, v in c["repr"].items())
    return f"MC {c['fn']}%nat {coq_list(_mtok(t) for t in c['toks'])} {coq_z(c['kp'])} {clean} {rp} ({out})"


def macro_observations(rng, tier, programs):
    """runs c13_run.py op "macro" on a sample of generated programs (traced calls) and on condition texts (direct calls)"""
    n_prog = 240 if tier == "quick" else 1200
    progs = rng.sample(programs, min(n_prog, len(programs)))
    texts = []
    for tname, text, plain in c13_gen.COND_TEMPLATES:
        for i in range(len(plain)):
            for f in c13_gen.MACRO_FORMS if tier != "quick" else c13_gen.CORE_FORMS + rng.sample(c13_gen.MACRO_FORMS[4:], 3):
                texts.append(text.format(*[f if j == i else p_ for j, p_ in enumerate(plain)]))
        for f in c13_gen.CORE_FORMS:
            texts.append(text.format(*[f for _ in plain]))
    texts += c13_gen.MACRO_FORMS + [a + " " + b for a in c13_gen.MACRO_FORMS[:12] for b in c13_gen.MACRO_FORMS[:12]]
    texts = sorted(set(texts))
    if tier == "quick":
        texts = rng.sample(texts, min(260, len(texts)))
    k = max(1, NCPU)
    reqs = [dict(op="macro", programs=progs[i::k], texts=texts[i::k], cert=FULL_CERT) for i in range(k)]
    with ThreadPoolExecutor(max_workers=NCPU) as ex:
        res = list(ex.map(lambda r: run_py(RUNNER, r, timeout=900), reqs))
    obs, seen = [], set()
    for r in res:
        for c in r["calls"]:
            c.pop("lid", None)
            key = json.dumps([c["fn"], c["toks"], c["kp"], c["out"]], sort_keys=True)
            if key not in seen:
                seen.add(key)
                obs.append(c)
    return obs, len(progs), len(texts), sum(r["traced"] for r in res)


def main(tier: str) -> int:
    ck = Check(PROP, tier)
    ck.cov["trusted_base"] = COMMON_TRUSTED[:1] + [
        "Model/Tok.v: hand-written character-exact port of Tokenizer.parse (header macros outside the model; a backtick string "
        "containing an unescaped triple double quote is outside the model); tied by token / diagnostic-position equality on traced mutants",
        "whole-compiler totality is not a theorem: it is searched over the single-token-edit neighbourhood of the corpus (c13_mut.py) "
        "with the real compiler (c13_run.py, 5 s alarm); the classification 'JMC diagnostic' is jmc.compile.exception.EXCEPTIONS of the tree under test",
        "translate_guards.py (fail-closed translator of len() guards into Coq obligations); the two producer facts it assumes "
        "(statement parameters and elements of Tokenizer.parse results have length >= 1) are C13_tok_nonempty; the length facts it "
        "writes after a call of merge_vanilla_macro are C13_macro_merge_total / C13_macro_nonempty (Proofs/TokMacro.v merge_vm_post)",
        "Model/TokMacro.v: hand-written model of Tokenizer.merge_vanilla_macro / merge_tokens / is_connected / Token.end and of the "
        "three calling loops; clean_up_paren_token and len(repr(..)) are parameters (their observed values are part of each case; "
        "the theorems assume only that clean_up_paren_token raises nothing but JMC diagnostics); tokens made by header macros "
        "(`_macro_end`) are outside the model; tied by token-by-token equality on traced and direct calls",
        "harness: c13.py, c13_run.py, c13_mut.py, c13_corpus.py, c14_run.py, c14_lib.py, Run/C13.v, Run/C14.v",
    ]
    import time
    t_phase = [time.time()]
    phases = {}

    def phase(name):
        t_phase.append(time.time())
        phases[name] = round(t_phase[-1] - t_phase[-2], 1)

    pr = ck.proof(extra_targets=["Run/C13.vo"])
    rng = ck.rng
    phase("proof")

    # ------------------------------------------------------------ regenerated: whitespace table
    sp = space_ranges()
    space_v = ("From Coq Require Import NArith List.\nFrom JMCV Require Import Model.Tok.\nImport ListNotations.\n"
               "Goal space_ranges = [" + "; ".join(f"({a}%N, {b}%N)" for a, b in sp) + "].\nProof. reflexivity. Qed.\n")
    # ------------------------------------------------------------ regenerated: guard obligations
    items = tg.analyse_tree(REPO)
    obs = [o for o in items if o["kind"] == "obligation"]
    unanalysed = [o for o in items if o["kind"] == "unanalysed"]
    baseline = json.loads(BASELINE.read_text()) if BASELINE.exists() else {"open": []}
    # round 4: ONE pass on the unchanged tree.  The baseline records (by the hash of their Coq statement) the obligations that
    # lia is known not to close; every other obligation is written as a Lemma closed by `intros; lia` straight away (four files
    # in parallel).  Only when one of these files does not check - the tree under test has an obligation that is neither
    # closable nor listed - the probing pass of the earlier rounds runs (every obligation tried, never admitted) and the
    # lemma files are written again from its result.  The hint can only make the count smaller, never accept anything.
    hint_open = set(baseline.get("open_statements", []))
    stmt_hash = [hashlib.sha1(tg.coq_statement(o).encode()).hexdigest()[:16] for o in obs]
    nparts = 4

    def guard_files(closed_set):
        idx_parts = [[i for i in range(k, len(obs), nparts)] for k in range(nparts)]
        return [(f"Guards_{k}.v", tg.guards_file(obs, closed_set, only=idx)) for k, idx in enumerate(idx_parts)]

    closed = {i for i in range(len(obs)) if stmt_hash[i] not in hint_open}
    outs = run_coq_files(PROP, [("Space.v", space_v)] + guard_files(closed))
    ok_space, out_space = outs[0]
    if not ok_space:
        ck.violation(dict(kind="regenerated-table-differs", what="Python's \\s code points differ from Tok.space_ranges",
                          python=sp, log=out_space[-1500:]), no_input=True)
    ok_g = all(ok for ok, _ in outs[1:])
    probed = False
    if not ok_g:
        probed = True
        pparts = [list(range(i, len(obs), 6)) for i in range(6)]
        pouts = run_coq_files(PROP, [(f"probe_{k}.v", tg.probe_file([obs[i] for i in idx])) for k, idx in enumerate(pparts)], clean=False)
        closed = set()
        for (ok, out), idx in zip(pouts, pparts):
            if not ok:
                ck.violation(dict(kind="guard-probe-failed", log=out[-2000:]), no_input=True)
                continue
            for m in re.findall(r"DISCHARGED (\d+)", out):
                closed.add(idx[int(m)])
        gouts = run_coq_files(PROP, guard_files(closed), clean=False)
        ok_g = all(ok for ok, _ in gouts)
        if not ok_g:
            ck.violation(dict(kind="guard-obligations-do-not-check", log="\n".join(o[-800:] for ok, o in gouts if not ok)), no_input=True)
            closed = set()
    closed_emitted = set(closed)
    if os.environ.get("VERIF_C13_REBASELINE"):
        # maintenance: rewrite the baseline from a PROBED run of this tree (run with an empty / stale hint list)
        if not probed:
            pparts = [list(range(i, len(obs), 6)) for i in range(6)]
            pouts = run_coq_files(PROP, [(f"probe_{k}.v", tg.probe_file([obs[i] for i in idx])) for k, idx in enumerate(pparts)], clean=False)
            really = set()
            for (ok, out), idx in zip(pouts, pparts):
                for m in re.findall(r"DISCHARGED (\d+)", out):
                    really.add(idx[int(m)])
        else:
            really = closed
        BASELINE.write_text(json.dumps(dict(
            open=sorted(f"{o['file']}:{o['function']}:{o['expr']}" for i, o in enumerate(obs) if i not in really),
            open_statements=sorted({stmt_hash[i] for i in range(len(obs)) if i not in really})), indent=1))
        baseline = json.loads(BASELINE.read_text())
        closed = closed_emitted = closed & really if not probed else closed
    open_obs = [o for i, o in enumerate(obs) if i not in closed]
    open_keys = sorted(f"{o['file']}:{o['function']}:{o['expr']}" for o in open_obs)
    base_left = list(baseline["open"])
    new_open = []
    for k in open_keys:
        if k in base_left:
            base_left.remove(k)
        else:
            new_open.append(k)
    for k in new_open:
        print(f"NOTE property=C13 guard obligation not closed by lia (not counted as discharged): {k}", flush=True)

    phase("guards")
    # ------------------------------------------------------------ corpus
    cs = corpus_c13(REPO)
    res = compile_batch([dict(src=c["src"], header=c["header"], cert=FULL_CERT, pack_format=c["pack_format"]) for c in cs], chunk=20)
    valid = [c for c, r in zip(cs, res) if r["ok"]]
    for c, r in zip(cs, res):
        if not r["ok"] and not r["jmc"]:
            ck.violation(dict(kind="internal-exception", program=c["src"], header=c["header"], origin=c["name"],
                              outcome=[r["exc"], r["frame"], r["msg"][:300]], expected="ok or a JMC diagnostic"))
    n_stmt_valid = sum(1 for c in valid if c["origin"] == "statements")
    n_stmt_total = sum(1 for c in cs if c["origin"] == "statements")
    if n_stmt_valid < 0.8 * n_stmt_total:
        ck.violation(dict(kind="corpus-ineffective", valid=n_stmt_valid, total=n_stmt_total,
                          note="fewer than 80 % of the per-statement corpus programs compile on this tree: the neighbourhood "
                               "no longer covers the statement kinds"), no_input=True)

    phase("corpus")
    # ------------------------------------------------------------ the single-edit neighbourhood
    allm, seen = [], set()        # (origin name, operator, cell context, job)
    for c in valid:
        ctx = contexts(c["src"])
        for op, i, m in mutants(c["src"], c.get("span")):
            k = (m, c["header"], c["pack_format"])
            if k not in seen:
                seen.add(k)
                allm.append((c["name"], op, ctx[i], dict(src=m, header=c["header"], pack_format=c["pack_format"])))
        # round 5: every operator / symbol in front of / instead of the first token of every statement; the source ending in
        # every token kind (and in each macro name of its header) without `;`
        for op, i, m in head_end_mutants(c["src"], c.get("span"), macro_names(c["header"])):
            k = (m, c["header"], c["pack_format"])
            if tier == "quick" and op.startswith("end-append-nl"):
                continue
            if k not in seen:
                seen.add(k)
                cell = ("head5", ctx[i][3]) if op.startswith("head") else ("end5", ctx[i][3])
                allm.append((c["name"], op, cell, dict(src=m, header=c["header"], pack_format=c["pack_format"])))
        if c["header"]:
            ctx = contexts(c["header"])
            for op, i, m in (mutants(c["header"], c.get("header_span"))
                             if not (tier == "quick" and c.get("quick_skip_header_tokens")) else ()):
                k = (c["src"], m, c["pack_format"])
                if k not in seen:
                    seen.add(k)
                    allm.append((c["name"], "header:" + op, ("header",) + ctx[i], dict(src=c["src"], header=m, pack_format=c["pack_format"])))
            # round 5: the header is line-oriented: its neighbourhood per LINE
            hlines = c["header"].split("\n")
            for op, n_, m in header_line_mutants(c["header"], c.get("header_first_line", 0)):
                k = (c["src"], m, c["pack_format"])
                if k not in seen:
                    seen.add(k)
                    word = (hlines[n_].split() or [""])[0] if n_ < len(hlines) else "$"
                    allm.append((c["name"], "header:" + op, ("header-line", word), dict(src=c["src"], header=m, pack_format=c["pack_format"])))
    total_neighbourhood = len(allm)
    cells = {}
    for n, x in enumerate(allm):
        cells.setdefault((x[2], x[1]), []).append(n)
    if tier == "quick":
        # stratified: every structural edit, and one seeded member of every (context x replacement token) cell
        keep = set()
        for key in sorted(cells):
            members = cells[key]
            if not any(w in key[1] for w in SAMPLED_OPERATORS):
                keep.update(members)
            else:
                keep.add(members[rng.randrange(len(members))])
        allm = [x for n, x in enumerate(allm) if n in keep]
    cells_run = len({(x[2], x[1]) for x in allm})
    deep = deep_programs()
    # ------------------------------------------------------------ round 5: generated streams (c13_gen.py)
    registry = run_py(RUNNER, dict(op="builtins"), timeout=120)
    if len(registry) < 50:
        ck.violation(dict(kind="builtin-registry-not-read", found=len(registry)), no_input=True)
    streams = {
        "header_forms": list(c13_gen.header_forms(REPO)),
        "nested_decls": list(c13_gen.nested_decls()),
        "builtin_matrix": list(c13_gen.builtin_matrix(registry)),
        "arithmetic": list(c13_gen.arithmetic(rng, 60 if tier == "quick" else 600)),
        "vanilla_macros": list(c13_gen.vanilla_macros(rng, tier)),
        "custom_commands": list(c13_gen.custom_commands()),
        "self_reference": list(c13_gen.self_reference()),
        "new_json": list(c13_gen.new_json()),
        "builtin_pairs": list(c13_gen.builtin_pairs(registry)),
    }
    gen_total = {k: len(v) for k, v in streams.items()}
    gen, gseen = [], set()
    for sname, items in streams.items():
        if tier == "quick":
            items = c13_gen.quick_sample(sname, items, rng)
        for (st, cell), job in items:
            k = (job["src"], job["header"])
            if k not in gseen:
                gseen.add(k)
                if st in ("builtin_matrix", "arithmetic", "builtin_pairs"):
                    job = dict(job, alarm=3)      # thousands of numeric arguments: a count of 2^31 is a hang within 3 s as well
                gen.append((st, cell, job))
    gen_run = {}
    for st, _, _ in gen:
        gen_run[st] = gen_run.get(st, 0) + 1
    jobs = [x[3] for x in allm] + [dict(src=s, header=None, pack_format=None) for _, s in deep] + [g[2] for g in gen]
    labels = [(x[0], x[1]) for x in allm] + [(n, "generated") for n, _ in deep] + [("gen." + g[0], "generated:" + str(g[1])[:80]) for g in gen]
    phase("generate")
    out = run_mutants(jobs)
    phase("run-mutants")
    # the hang detector's own inputs (longer alarm, wall time recorded) and its canary: a job that spins for longer than
    # its alarm MUST come back as a timeout, otherwise no hang of the compiler would be seen either
    stress = c13_gen.stress(tier)
    sjobs = [j for _, _, j in stress]
    stress_alarm = STRESS_ALARM if tier != "quick" else 5
    sout = run_mutants(sjobs, chunk=4, alarm=stress_alarm, times=True)
    stress_times = {}
    for (sname, size, _), o in zip(stress, sout):
        stress_times.setdefault(sname, []).append([size, o[0], o[-1]])
    jobs += sjobs
    labels += [("stress." + n, "generated:size=%d" % sz) for n, sz, _ in stress]
    out += [o[:-1] for o in sout]
    canary = run_mutants([dict(canary=4, alarm=1), dict(src='function f() { say "a"; }', header=None, pack_format=None)], alarm=1)
    if canary[0][0] != "timeout" or canary[1][0] != "ok":
        ck.violation(dict(kind="hang-detector-broken", canary=canary,
                          expected="a job spinning for 4 s under a 1 s alarm is reported as timeout, the next job still runs"), no_input=True)

    # a timeout is only believed when the job, run again ALONE in a fresh process, times out again (a job that follows a
    # memory-hungry one in the same batch can be slow for reasons that are not its own): the shortest job of every
    # timeout site first; when that one does not confirm, every job of the site
    tgroups = {}
    for n, o in enumerate(out):
        if o[0] == "timeout":
            tgroups.setdefault((o[1], o[2]) if len(o) > 2 else ("?", "?"), []).append(n)
    first = {k: min(v, key=lambda n: len(jobs[n]["src"]) + len(jobs[n]["header"] or "")) for k, v in tgroups.items()}
    n_plain = len(jobs) - len(sjobs)

    def alone(ns):
        return run_mutants([dict(jobs[n], alarm=stress_alarm if n >= n_plain else jobs[n].get("alarm", 5)) for n in ns], chunk=1)

    again = alone(list(first.values())) if first else []
    reruns = len(again)
    unconfirmed = [m for (k, n), o in zip(first.items(), again) if o[0] != "timeout" for m in tgroups[k]]
    if unconfirmed:
        reruns += len(unconfirmed)
        for m, o2 in zip(unconfirmed, alone(unconfirmed)):
            out[m] = o2
    phase("stress+confirm")
    classes = {"ok": 0, "diag": 0, "internal": 0, "timeout": 0}
    sites = {}
    for (name, op), job, o in zip(labels, jobs, out):
        classes[o[0]] += 1
        if o[0] in ("internal", "timeout"):
            # a timeout is keyed by the function the alarm fired in (the exact expression varies from run to run)
            key = ((o[1] if len(o) > 1 else "?"), (o[2] if len(o) > 2 else "?"), "timeout", "") if o[0] == "timeout" \
                else (o[2], o[3], o[1], o[6] if len(o) > 6 else "")
            cur = sites.get(key)
            if cur is None or len(job["src"]) + len(job["header"] or "") < len(cur[1]["src"]) + len(cur[1]["header"] or ""):
                n = (cur[3] if cur else 0) + 1
                sites[key] = ((name, op), job, o, n)
            else:
                sites[key] = (cur[0], cur[1], cur[2], cur[3] + 1)
    known_hit = {}
    ktable = known_findings()
    for key, ((name, op), job, o, n) in sorted(sites.items()):
        kf = known_match(o, ktable, job)
        if kf is not None:
            ck.known(kf["id"], kf["what"])
            known_hit[kf["id"]] = known_hit.get(kf["id"], 0) + n
            continue
        ck.violation(dict(kind="internal-exception" if o[0] == "internal" else "timeout", program=job["src"], header=job["header"],
                          pack_format=job["pack_format"], mutation=op, origin=name, outcome=o, occurrences=n,
                          site=dict(file=key[0], function=key[1], exception=key[2], failing_expression=key[3]),
                          expected="compiles, or one of jmc.compile.exception.EXCEPTIONS, within 5 s"))

    phase("classify")
    # ------------------------------------------------------------ tie: Tok.parse == Tokenizer.parse on traced mutants
    n_tie = 1000 if tier == "quick" else 8000
    pool = [j for j, o in zip(jobs, out) if j["header"] is None and len(j["src"]) <= 4000]
    sample = rng.sample(pool, min(n_tie, len(pool)))
    chunks = [sample[i:i + 80] for i in range(0, len(sample), 80)]
    with ThreadPoolExecutor(max_workers=NCPU) as ex:
        tres = [r for rs in ex.map(lambda c: run_py(TRACER, [dict(src=j["src"], cert=FULL_CERT, timeout=5) for j in c], timeout=900), chunks) for r in rs]
    calls, seen_calls = [], set()
    for j, r in zip(sample, tres):
        for call in r["calls"]:
            if call["macros"] or "out" not in call or not call_encodable(call):
                continue
            k = (call["string"], call["line"], call["col"], call["es"], call["alms"], call["allow_semi"])
            if k in seen_calls:
                continue
            seen_calls.add(k)
            calls.append((j, call))
    header = COQ_HEADER + "From JMCV Require Import Run.C13.\n" + env_term([c["string"] for _, c in calls])
    bad, errs = eval_cases(PROP, header, [tcase_term(c) for _, c in calls], per_file=300, checker="tmismatches E", prefix="tie")
    for e in errs:
        ck.violation(dict(kind="correspondence-file-failed", log=e), no_input=True)
    reported = 0
    for i in bad:
        j, call = calls[i]
        o = call["out"]
        if o["kind"] == "exc" and not o["jmc"]:
            # the real tokenizer raised an internal exception where the model (C13_tok_total) says it cannot
            kf = known_match(["internal", o["exc"], "tokenizer.py", "", 0, ""], ktable)
            if kf is None and reported < 3:
                reported += 1
                ck.violation(dict(kind="tokenizer-internal-exception", program=j["src"], text=call["string"][:400],
                                  start=[call["line"], call["col"]], exception=o["exc"],
                                  expected="Tokenizer.parse returns tokens or raises a JMC diagnostic (C13_tok_total)"))
            continue
        if reported < 3:
            reported += 1
            ck.violation(dict(kind="model-differs-from-tokenizer", program=j["src"], text=call["string"][:400],
                              start=[call["line"], call["col"]], real=json.dumps(o)[:1200],
                              theorem="C13_tok_total / C13_tok_nonempty no longer speak about the code"), no_input=True)

    phase("tie")
    # ------------------------------------------------------------ round 4 tie: Model/TokMacro.v == Tokenizer.merge_vanilla_macro
    macro_programs = [g[2]["src"] for g in gen if g[0] == "vanilla_macros"] + [c["src"] for c in valid if c.get("kind") in ("macro_cond", "macro")]
    mobs, m_nprog, m_ntext, m_traced = macro_observations(rng, tier, macro_programs)
    cap = 2400 if tier == "quick" else 12000
    if len(mobs) > cap:
        loops_ = [c for c in mobs if c["fn"] != 0]
        singles = [c for c in mobs if c["fn"] == 0]
        mobs = loops_[:cap // 2] + rng.sample(singles, min(len(singles), cap - min(len(loops_), cap // 2)))
    mterms = [(c, macro_case_term(c)) for c in mobs]
    mterms = [(c, t) for c, t in mterms if t is not None]
    mheader = COQ_HEADER + "From JMCV Require Import Run.C13.\n"
    mbad, merrs = eval_cases(PROP, mheader, [t for _, t in mterms], per_file=300, checker="mmismatches", prefix="macro")
    for e in merrs:
        ck.violation(dict(kind="correspondence-file-failed", which="macro", log=e), no_input=True)
    if len(mterms) < 200 or not any(c["fn"] == 1 for c, _ in mterms) or not any(c["out"][0] == "ok" and len(c["out"][1]) < len(c["toks"]) for c, _ in mterms):
        ck.violation(dict(kind="macro-tie-ineffective", cases=len(mterms),
                          note="too few observations of merge_vanilla_macro / no loop of condition_to_ast observed / no merge observed: "
                               "C13_macro_* no longer speak about the code"), no_input=True)
    m_reported = 0
    # a NEGATIVE position is passed by no caller (regenerated call-site obligations; C13_macro_negative_position_refuted is why
    # the theorems exclude it): the direct calls at -3..-1 are compared for the record only - a rewrite of the length test
    # (`len(tokens) - key_pos` for `len(tokens[key_pos:])`) behaves differently there and nowhere else
    neg_diff = [i for i in mbad if mterms[i][0]["fn"] == 0 and mterms[i][0]["kp"] < 0]
    mbad = [i for i in mbad if i not in neg_diff]
    for i in mbad:
        c = mterms[i][0]
        if m_reported >= 3:
            break
        m_reported += 1
        is_program = c["src"] in macro_programs
        if c["out"][0] == "exc":
            # the real method raised an internal exception where the model (C13_macro_merge_total / _loops_total) says it cannot
            ck.violation(dict(kind="macro-merge-internal-exception", program=c["src"] if is_program else None,
                              condition_text=None if is_program else c["src"], function=["merge_vanilla_macro", "condition_to_ast loop", "_is_vanilla_func loop"][c["fn"]],
                              called_from=c["caller"], tokens=c["toks"], key_pos=c["kp"], exception=c["out"][1],
                              expected="the merged token list or a JMC diagnostic (C13_macro_merge_total, C13_macro_loops_total)"),
                         )
        else:
            ck.violation(dict(kind="model-differs-from-merge-vanilla-macro", source=c["src"], function=c["fn"], tokens=c["toks"], key_pos=c["kp"],
                              real=json.dumps(c["out"])[:1200], theorem="C13_macro_merge_total / C13_macro_loops_total / C13_macro_nonempty no longer speak about the code"),
                         no_input=True)

    phase("macro-tie")
    # obligations of this run's claim: the theorems of Props/C13.v, the lemmas written into Gen/C13/Guards.v (one per
    # subscript whose facts entail the bound; the others are listed under guard_obligations.open and are NOT part of the
    # claim) and the whitespace table; discharged = those that coqc accepted on this run
    n_lemmas = len(closed_emitted)
    ck.cov["obligations"] = len(pr["theorems"]) + n_lemmas + 1
    ck.cov["discharged"] = (len(pr["theorems"]) if pr["ok"] else 0) + (n_lemmas if ok_g else 0) + (1 if ok_space else 0)
    ck.cov["checker_cmd"] = ("make -C coq Props/C13.vo Run/C13.vo; coqc -Q coq JMCV coq/Gen/C13/Guards_{0..3}.v coq/Gen/C13/Space.v "
                             "(regenerated from $JMC_REPO on this run; coqc 8.16.1, full .vo build)")
    ck.cov.update(dict(
        evaluations=len(jobs) + len(calls) + len(mterms), distinct_nontrivial=classes["diag"] + classes["internal"] + len(calls) + len(mterms),
        rule="one evaluation = one distinct mutant compiled by the real compiler (+ one per traced Tokenizer.parse call compared with "
             "the model, + one per distinct observation of merge_vanilla_macro / its loops compared with Model/TokMacro.v); non-trivial = "
             "mutants that no longer compile (diagnostic or internal) + distinct traced calls + distinct macro observations",
        programs=len(valid), corpus=dict(total=len(cs), valid=len(valid)),
        neighbourhood=dict(total=total_neighbourhood, run=len(allm), generated_deep=len(deep), alphabet=ALPHABET,
                           string_alphabet=STRING_ALPHABET, head_symbols=HEAD_SYMBOLS, end_tokens=END_TOKENS),
        phases_s=phases, timeouts_rerun_alone=reruns,
        generated_streams=dict(total=gen_total, run=gen_run, builtins_in_registry=len(registry), stress_programs=len(stress),
                               stress_alarm_s=stress_alarm, stress_times={k: v for k, v in sorted(stress_times.items())},
                               hang_detector_canary=canary[0][0]),
        outcome_classes=classes,
        crash_sites={f"{k[0]}:{k[1]}:{k[2]}:{k[3]}": v[3] for k, v in sorted(sites.items())},
        statement_corpus=dict(total=n_stmt_total, valid=n_stmt_valid),
        cells=dict(total=len(cells), run=cells_run,
                   rule="cell = (enclosing construct, statement head, class of previous token, class of edited token) x operator"),
        guard_obligations=dict(total=len(obs), closed_by_lia=len(closed), open=open_keys, new_open_vs_baseline=new_open,
                               unanalysed=[f"{u['file']}:{u['function']}:{u['line']} {u['expr'][:60]} ({u['why']})" for u in unanalysed]),
        tokenizer_calls_compared=len(calls), disagreements_checked=len(bad) + len(mbad),
        macro_tie=dict(cases=len(mterms), programs_traced=m_nprog, condition_texts=m_ntext, traced_calls=m_traced,
                       by_function={str(k): sum(1 for c, _ in mterms if c["fn"] == k) for k in (0, 1, 2)},
                       merges=sum(1 for c, _ in mterms if c["out"][0] == "ok" and len(c["out"][1]) < len(c["toks"])),
                       beyond_end=sum(1 for c, _ in mterms if c["fn"] == 0 and c["kp"] >= len(c["toks"])),
                       outcomes={k: sum(1 for c, _ in mterms if (c["out"][0] if c["out"][0] != "exc" else c["out"][1]) == k)
                                 for k in sorted({(c["out"][0] if c["out"][0] != "exc" else c["out"][1]) for c, _ in mterms})},
                       mismatches=len(mbad), negative_position_differences=len(neg_diff)),
        samples=[dict(mutation=l[1], program=j["src"][:120], outcome=o[:2]) for l, j, o in list(zip(labels, jobs, out))[:3]],
    ))
    return ck.finish()


def replay(path: str) -> int:
    rp = json.loads(open(path).read())
    if rp.get("program") is None and rp.get("condition_text") is not None:
        # round 4: a direct call of merge_vanilla_macro / the loops on the tokens of a condition text
        r = run_py(RUNNER, dict(op="macro", programs=[], texts=[rp["condition_text"]], cert=FULL_CERT), timeout=300)
        bad = [c for c in r["calls"] if c["out"][0] == "exc" and c["kp"] >= 0]
        print("condition text:", repr(rp["condition_text"]))
        print("expected: every call merge_vanilla_macro(tokens, key_pos >= 0) and both loops return a list or raise a JMC diagnostic")
        for c in bad[:5]:
            print("actual  :", ["merge_vanilla_macro", "condition_to_ast loop", "_is_vanilla_func loop"][c["fn"]], "key_pos", c["kp"],
                  "tokens", [t[3] for t in c["toks"]], "->", c["out"])
        if not bad:
            print("actual  : no internal exception")
        return 1 if bad else 0
    if rp.get("program") is None:
        print("replay file has no program (proof / regenerated tie breakage):", rp.get("kind"))
        return 1
    o = run_mutants([dict(src=rp["program"], header=rp.get("header"), pack_format=rp.get("pack_format"))],
                    alarm=STRESS_ALARM if str(rp.get("origin", "")).startswith("stress.") else 5)[0]
    print("program :", repr(rp["program"])[:500])
    if rp.get("header"):
        print("header  :", repr(rp["header"])[:300])
    print("expected: compiles, or a JMC diagnostic (jmc.compile.exception.EXCEPTIONS), within 5 s (stress programs: %d s)" % STRESS_ALARM)
    print("actual  :", o)
    return 1 if o[0] in ("internal", "timeout") else 0
