"""C05 — while, do-while and for loops iterate exactly as their source says.

Proof step (Props/C05.v) + correspondence (text of the caller and of every generated
while_loop/k, for_loop/k, if_else/k function, real compiler vs Model.Loop, compared in Coq)
+ search (emitted functions run in mcvm for 0, 1 and many iterations against the JavaScript
meaning; every generated loop has its own bounded counter; everything under time/step limits)."""
from __future__ import annotations

import itertools

from lib import Check, COMMON_TRUSTED
import c04_gen as G
import c05_gen as X          # round 4: teaches c04_gen's tree walkers `switch` / `execute … run {…}` / Hardcode.repeat / methods

PROP = "C05"

LOOP_KINDS = ["while", "dowhile", "for"]
COND_KINDS = ["atomic", "and_or", "or_and", "or_top", "or_free"]
BODY_KINDS = ["one", "two", "chain", "chain_noelse_or", "loop", "flip", "single_if"]


def loop_cond(kind, lv, bound):
    g = (lv, "<", bound)
    if kind == "atomic":
        return [("atom", g)]
    if kind == "and_or":     # $L < N && ($a == 1 || $b != 1)
        return [("atom", g), ("or", [[("$a", "==", 1)], [("$b", "!=", 1)]])]
    if kind == "or_and":     # ($a == 1 || $b != 1) && $L < N
        return [("or", [[("$a", "==", 1)], [("$b", "!=", 1)]]), ("atom", g)]
    if kind == "or_top":     # $L < N && $a == 1 || $L < N && $b >= 0     (one || group, bounded)
        return [("or", [[g, ("$a", "==", 1)], [g, ("$b", ">=", 0)]])]
    if kind == "or_free":    # $L < N || $a == 1     (terminates only if the body clears $a)
        return [("or", [[g], [("$a", "==", 1)]])]
    raise ValueError(kind)


def loop_body(kind, nm: G.Names, lv):
    if kind == "one":
        return []
    if kind == "two":
        return [nm.say("b")]
    if kind == "chain":
        return [("if", [(G.atomic_cond("$a"), [nm.say("t")]), (G.or_cond("$b", "$a"), [nm.say("u"), nm.say("u")])],
                 [nm.say("e")])]
    if kind == "chain_noelse_or":
        return [("if", [(G.atomic_cond("$b"), [nm.say("t")]), (G.or_cond("$a", lv), [nm.say("u")])], None)]
    if kind == "loop":
        iv = nm.loopvar()
        return [("for", [("set", iv, 0)], [("atom", (iv, "<", 2))], [("add", iv, 1)], [nm.say("in")])]
    if kind == "flip":
        return [nm.say("f"), ("set", "$a", 0), ("set", "$b", 1)]
    if kind == "single_if":
        return [("if", [(G.or_cond("$a", "$b"), [nm.say("s")])], None)]
    raise ValueError(kind)


def make_loop(lk, ck, bk, bound):
    nm = G.Names()
    lv = nm.loopvar()
    cond = loop_cond(ck, lv, bound)
    body = loop_body(bk, nm, lv)
    inc = ("add", lv, 1)
    if ck == "or_free":
        body = body + [("set", "$a", 0)]
    if lk == "for":
        body = body or [nm.say("o")]
        loop = ("for", [("set", lv, 0)], cond, [inc], body)
        return [loop, nm.say("end")]
    body = body + [inc] if bk != "two" else [inc] + body     # counter first or last
    loop = ("while", cond, body) if lk == "while" else ("dowhile", body, cond)
    return [("set", lv, 0), loop, nm.say("end")]


# ---- strengthening round 2: rich conditions in every loop-condition position ------------------------------

RICH_TEMPLATES = ["guard_and", "and_guard", "distributed", "guard_or", "demorgan"]
RICH_BODIES = ["say", "clear_first", "chain_same_vars"]


def rich_loop(lk, kind, tmpl, bound, bk, spell=0):
    """a bounded loop whose condition is the rich formula `kind` (G.RICH) combined with the counter test
    `$L < bound` by template tmpl; None when the template does not apply"""
    nm = G.Names()
    lv = nm.loopvar()
    V = ["$a", "$b", "$c", "$d"]
    f = G.rich(kind, V, spell)
    g = G.A(lv, "<", bound)
    extra = []
    if tmpl == "guard_and":            # $L < N && F
        cf = G.AND(g, f)
    elif tmpl == "and_guard":          # F && $L < N
        cf = G.AND(f, g)
    elif tmpl == "distributed":        # the guard inside every alternative of a top-level ||
        if f[0] != "|":
            return None
        cf = G.OR(*[G.AND(g, x) if i % 2 == 0 else G.AND(x, g) for i, x in enumerate(f[1])])
    elif tmpl == "guard_or":           # $L < N || F : F is an ALTERNATIVE after the guard; the body makes F false
        extra = G.falsifier(f)
        if extra is None:
            return None
        cf = G.OR(g, f) if f[0] != "|" else G.OR(g, *f[1])
        if spell % 2:
            cf = G.OR(g, f)             # nested: a || (x || y)
    elif tmpl == "demorgan":           # !($L >= N || !F)
        cf = G.NOT(G.OR(G.A(lv, ">=", bound), G.NOT(f)))
    else:
        raise ValueError(tmpl)
    cond = [("f", cf)]
    if bk == "say":
        body = [nm.say("b")]
    elif bk == "clear_first":          # the body changes a tested variable: the re-test must see the new value
        body = [nm.say("b"), ("set", V[spell % 4], 0)]
    else:                              # a chain in the body testing the same variables with other rich shapes
        k2 = G.RICH_KINDS[(G.RICH_KINDS.index(kind) + 3) % len(G.RICH_KINDS)]
        body = [("if", [([("f", G.rich(k2, V[1:] + V[:1], spell + 1))], [nm.say("t")]),
                        ([("f", G.rich(kind, V, spell + 2))], [nm.say("u"), nm.say("u")])], None)]
    body = body + extra
    inc = ("add", lv, 1)
    if lk == "for":
        return [("for", [("set", lv, 0)], cond, [inc], body), nm.say("end")]
    body = body + [inc] if spell % 2 else [inc] + body
    loop = ("while", cond, body) if lk == "while" else ("dowhile", body, cond)
    return [("set", lv, 0), loop, nm.say("end")]


def rich_loop_items(rng, quick):
    items = []
    n = 0
    for ki, kind in enumerate(G.RICH_KINDS):
        for li, lk in enumerate(LOOP_KINDS):
            for ti, tmpl in enumerate(RICH_TEMPLATES):
                # bound 3 always; bounds 0 and 1 rotate (every kind x template sees both, every loop kind some)
                bounds = [3, (0, 1)[(ki + li + ti) % 2]] if quick else [0, 1, 3]
                for bound in bounds:
                    bk = RICH_BODIES[(ki + li + ti + bound) % 3] if quick else None
                    for b in ([bk] if bk else RICH_BODIES):
                        p = rich_loop(lk, kind, tmpl, bound, b, spell=ki + ti + n)
                        n += 1
                        if p is not None:
                            items.append(dict(prog=p, cert=n % 2, stream="rich-loop-" + tmpl))
    # random formulas as loop conditions, nested loops both with rich conditions
    for i in range(40 if quick else 400):
        nm = G.Names()
        inner = G.random_loop(rng, nm, 1, ["$a", "$b", "$c"], cond_kind="rich")
        outer = G.random_loop(rng, nm, 1, ["$a", "$b", "$c"], cond_kind="rich")
        if outer[0] == "seq":
            pre, lp = outer[1]
            if lp[0] == "while":
                lp = ("while", lp[1], [inner] + lp[2])
            else:
                lp = ("dowhile", [inner] + lp[1], lp[2])
            prog = [pre, lp]
        else:
            prog = [("for", outer[1], outer[2], outer[3], [inner] + outer[4])]
        items.append(dict(prog=G.flatten_seq(prog + [nm.say("end")]), cert=i % 2, stream="rich-loop-random-nested"))
    return items


def gen_items(rng, tier):
    items = []
    quick = tier == "quick"
    # (i) exhaustive small: loop kind x condition kind x body kind x bound (0, 1, many iterations)
    for lk, ck, bk in itertools.product(LOOP_KINDS, COND_KINDS, BODY_KINDS):
        for bound in (0, 1, 3):
            items.append(dict(prog=make_loop(lk, ck, bk, bound), cert=0, stream="exhaustive-loops"))
    # loops nested in each branch position of chains, chains nested in loops (depth 3)
    for lk, ck in itertools.product(LOOP_KINDS, COND_KINDS[:4]):
        inner = make_loop(lk, ck, "chain_noelse_or", 2)[:-1]
        for pos in range(3):
            brs = [(G.atomic_cond("$c"), [("say", "p0")]), (G.or_cond("$d", "$c"), [("say", "p1")])]
            els = [("say", "p2")]
            if pos < 2:
                brs[pos] = (brs[pos][0], inner)
            else:
                els = inner
            outer = ("while", [("atom", ("$O", "<", 2))], [("if", brs, els), ("add", "$O", 1)])
            items.append(dict(prog=[("set", "$O", 0), outer, ("say", "end")], cert=1, stream="loop-chain-loop"))
    # (ii) random structured: nests to depth 3, at least one loop
    n = 0
    while n < (220 if quick else 4000):
        p = G.random_program(rng, depth=rng.choice([2, 3, 3]), loops=True, nvars=rng.choice([2, 3]))
        t = G.shape_tags(p)
        if not any(k.startswith(("while_", "dowhile_", "for_")) for k in t):
            continue
        n += 1
        items.append(dict(prog=p, cert=rng.randrange(2), stream="random-nested"))
    # (iii) adversarial: directly nested loops sharing __logic__0 in outer and inner conditions; empty bodies
    for lk1, lk2 in itertools.product(LOOP_KINDS, LOOP_KINDS):
        nm = G.Names()
        o, i = nm.loopvar(), nm.loopvar()
        inner_body = [nm.say("i"), ("add", i, 1)]
        ic = loop_cond("and_or", i, 2)
        inner = [("set", i, 0), ("while", ic, inner_body) if lk2 == "while" else ("dowhile", inner_body, ic)] \
            if lk2 != "for" else [("for", [("set", i, 0)], ic, [("add", i, 1)], [nm.say("i")])]
        oc = loop_cond("or_top", o, 3)
        ob = inner + [nm.say("o"), ("add", o, 1)]
        outer = [("set", o, 0), ("while", oc, ob) if lk1 == "while" else ("dowhile", ob, oc)] \
            if lk1 != "for" else [("for", [("set", o, 0)], oc, [("add", o, 1)], inner + [nm.say("o")])]
        items.append(dict(prog=outer + [nm.say("end")], cert=0, stream="nested-shared-logic-flag"))
    c = [("atom", ("$a", "==", 5))]
    for p in ([("while", c, [])], [("dowhile", [], c)], [("for", [("set", "$i", 0)], c, [("add", "$i", 1)], [])]):
        items.append(dict(prog=p + [("say", "after")], cert=0, stream="empty-bodies"))
    items += rich_loop_items(rng, quick)
    # packs of several functions: a loop body calls a function that runs loops of its own (shared while_loop/for_loop numbering)
    for lk1, lk2 in itertools.product(LOOP_KINDS, LOOP_KINDS):
        for order in (["f", "g"], ["g", "f"]):
            nm = G.Names()
            g = G.flatten_seq([G.random_loop(rng, nm, 1, ["$a", "$b"], kind=lk2, cond_kind="and_or"), nm.say("gend")])
            outer = G.random_loop(rng, nm, 1, ["$a", "$b"], kind=lk1, cond_kind="or")
            f = G.flatten_seq([outer, nm.say("end")])
            G.insert_calls(rng, f, "g", 1)
            items.append(dict(prog=f, more={"g": g}, order=order, cert=0, stream="multi-function-loops"))
    n = 0
    while n < (30 if quick else 300):
        it = G.random_pack(rng, depth=2, loops=True, helpers=rng.choice([1, 2]))
        if not any(k.startswith(("while_", "dowhile_", "for_")) for b in [it["prog"]] + list(it["more"].values()) for k in G.shape_tags(b)):
            continue
        n += 1
        items.append(dict(it, cert=n % 2, stream="multi-function-random"))
    # strengthening round 3: a loop as the brace-less body of every chain position, followed by loops of every kind
    items += G.braceless_items(rng, quick, bodies=G.BL_LOOP_BODIES,
                               follows=["none", "for", "while", "dowhile", "for_or", "blloop", "say", "blchain"],
                               stream="braceless-loop-matrix")
    n = 0
    while n < (120 if quick else 1500):
        p = G.mark_braceless(rng, G.random_program(rng, depth=rng.choice([2, 3, 3]), loops=True, braceless_loops=True), 0.75)
        if not G.count_braceless(p) or not any(k.startswith(("while_", "dowhile_", "for_")) for k in G.shape_tags(p)):
            continue
        n += 1
        items.append(dict(prog=p, cert=n % 2, stream="random-nested-braceless"))
    return items


# ---- a loop body written without braces --------------------------------------------------------------------
# JavaScript allows `while (c) stmt;`.  JMC's grammar wants a block; it has to say so (diagnostic) or lower
# the statement as the body — silently dropping it changes the iteration behaviour (the emitted loop then
# recurses without ever running the statement).  Not expressible in Model.Loop (a body is a block there), so
# this is a direct probe: accepted => the emitted code must behave as the source tree says.

def loop_body_form_probes():
    L, a = "$k", "$a"          # (a name ending in a digit changes how the brace-less form is tokenised)
    inc = ("add", L, 1)
    w = [("atom", (L, "<", 2))]
    probes = [
        ("while-assignment", [("set", L, 0), ("while", w, [inc]), ("say", "after")],
         f'function f() {{ {L} = 0; while ({L} < 2) {L} += 1; say "after"; }}'),
        ("while-if-block", [("set", L, 0), ("while", w, [("if", [(G.atomic_cond(a), [("say", "t")])], None), inc]), ("say", "after")],
         None),
        ("while-nested-if", [("set", L, 0), ("while", w, [("if", [([("atom", (L, "<", 5))], [inc, ("say", "t")])], None)]), ("say", "after")],
         f'function f() {{ {L} = 0; while ({L} < 2) if ({L} < 5) {{ {L} += 1; say "t"; }} say "after"; }}'),
        ("while-or-assignment", [("set", L, 0), ("while", [("f", G.OR(G.A(L, "<", 2), G.A(a, "==", 1)))], [inc, ("set", a, 0)])],
         f'function f() {{ {L} = 0; while ({L} < 2 || {a} == 1) {{ {L} += 1; {a} = 0; }} }}'),
        ("dowhile-assignment", [("set", L, 0), ("dowhile", [inc], w), ("say", "after")],
         f'function f() {{ {L} = 0; do {L} += 1; while ({L} < 2); say "after"; }}'),
        ("for-assignment", [("for", [("set", L, 0)], w, [inc], [("add", a, 1)]), ("say", "after")],
         f'function f() {{ for ({L} = 0; {L} < 2; {L} += 1) {a} += 1; say "after"; }}'),
    ]
    return [(t, p, src or G.prog_src(p)) for t, p, src in probes]


def run_loop_body_form_probes(ck):
    from lib import compile_batch
    cert = G.CERTS[0]
    probes = loop_body_form_probes()
    res = compile_batch([dict(src=src, cert=G.cert_text(cert)) for _t, _p, src in probes])
    out = {}
    for (tag, prog, src), r in zip(probes, res):
        if not r["ok"]:
            out[tag] = "refused: " + r["exc"]
            continue
        states = G.states_for(prog, cert, cap=16, rng=ck.rng)
        f, *_ = G.semantic_failure(prog, G.real_functions(r), cert, states)
        out[tag] = "accepted, behaves as the source" if f is None else "accepted, WRONG: " + f["kind"]
        if f:
            ck.violation(dict(kind="semantic-failure", what="a loop whose body is a single statement (no braces) is accepted but does not "
                              "iterate as its source says", source=src, jmc_txt=cert, program=prog, failure=f, original_source=src,
                              stream="loop-body-form-" + tag, n_failing_cases=1, text_differs_from_model=None,
                              note="accepted programs must behave as written; a diagnostic would have been fine"))
    return out


def main(tier: str) -> int:
    ck = Check(PROP, tier)
    ck.cov["trusted_base"] = COMMON_TRUSTED + [
        "Model/Loop.v (+ Model/IfElse.v, Model/PrivAlloc.v): hand-written ports of while_ / the do-while branch / for_ + __handle_for "
        "(_flow_control.py:134-212, 517-609), add_custom_private_function / get_count / call_func (datapack.py) and of the "
        "statement-by-statement lowering of a function body; tied to the tree by exact text equality of the caller and of every "
        "generated private function on the generated programs",
        "conditions enter the model as (precommand lines, execute guards), computed in Coq by property C03's model (Run.C04.lowc = "
        "Model.Cond.parse_condition on the formula the source text was printed from; bracket token for while/do-while, bare token list for "
        "for), not predicted by the harness; for-initialiser and step are single assignment statements (property C01)",
        "a loop body written without braces is outside Model.Loop: probed directly (accepted => the emitted code must behave as the source)",
        "Model/LoopSwitch.v (round 4): hand-written extension of Model.Loop's statement tree by `switch` (case bodies lowered like function bodies, then "
        "Model.Switch.compile_switch — both lowerings, property C06's port of switch() / parse_switch()) and by `execute if score … run { … }` blocks "
        "(add_arrow_function('anonymous')); class methods and Hardcode.repeat arrow functions enter as further user functions / repeated statement lists; "
        "tied by exact text equality of every function under the item's pack_format / #forcebst (Run.C05.xmismatches)",
        "outside the model: async loops, `switch … with`, Hardcode.switch; the statement SPLITTING of the tokenizer (which statement a token belongs to) is "
        "not modelled — it is exercised by the correspondence: a statement glued to / cut off a loop changes the emitted text and the mcvm run; "
        "Minecraft's maxCommandChainLength and recursion limits are not modelled (theorems say: for every terminating source loop there is fuel ...)",
        "mcvm.py + the source-level interpreter in c04_gen.py: untrusted, used only to search for failing inputs",
    ]
    ck.proof(extra_targets=["Run/C05.vo"])
    items = gen_items(ck.rng, tier)
    items += X.long_chain_items(ck.rng, tier == "quick")
    st = G.check_programs(ck, items, tier, "a loop does not iterate as its source says")
    body_forms = run_loop_body_form_probes(ck)
    # round 4: loops nested in / around switch statements (both lowerings), blocks, methods, arrow functions: Model.LoopSwitch
    xitems = X.x_items(ck.rng, tier)
    xst = X.check_xprograms(ck, xitems, tier, "a loop nested in / around a switch statement or block does not iterate as its source says, "
                                             "or the statements after it do not run exactly once")
    distinct = len({G.jmc_src(it) + str(it["cert"]) for it in items}) + \
        len({G.jmc_src(it) + str((it["cert"], it.get("pack_format"), it.get("forcebst"))) for it in xitems})
    ck.cov.update(dict(
        loop_body_form_probes=body_forms,
        evaluations=len(items) + len(xitems), distinct_nontrivial=distinct, programs=len(items) + len(xitems),
        round4=dict(programs=len(xitems), streams=xst["streams"], shape_histogram=xst["tags"], semantic_runs=xst["n_runs"],
                    semantic_runs_skipped_divergent=xst["n_skipped"], semantic_failures=len(xst["sem_fail"]),
                    text_differs=len(xst["bad"]), refused_by_compiler=xst["n_errors"], max_source_iterations_histogram=xst["iters_hist"],
                    lowerings=sorted({f"pack_format={it.get('pack_format')} forcebst={bool(it.get('forcebst'))}" for it in xitems}),
                    follow_matrix=dict(enclosures=sorted({it["fm"]["encl"] for it in xitems if it.get("fm")}),
                         combos=len({tuple(sorted(it["fm"].items())) for it in xitems if it.get("fm")})),
                    rule="Model.LoopSwitch (xcompile_stmts) vs the real compiler, every function compared by exact text in Coq (Run.C05.xmismatches), under "
                         "the item's own pack_format / #forcebst.  case-loop-matrix: label profiles (consecutive incl. negative / zero / positive starts, single "
                         "negative label; macro only: unsorted, sparse, int32 extremes, `default` in every position but the first) x every case holding a loop "
                         "{while, do-while, for; plain and || conditions} as first / middle / last / only statement x follower {say, score change + say, for, "
                         "while, do-while, chain, switch, two says, none} x `break` or not x label spelling {`case n:`, `case n :`, first statement on the "
                         "label's line} x lowering {default pack format, 15, #forcebst at 48: binary search tree; 16, 48: macro dispatch}; the switched "
                         "variable ranges over every label, both neighbours of the label range, gaps and 0.  follow-matrix: a statement following a loop in "
                         "every enclosing block {function, if / else-if / else branch, for / while / do-while body, class method, execute-run block, "
                         "Hardcode.repeat arrow function, case with negative / zero / positive label, default} x loop kind x follower, loop first in the "
                         "block or after a statement.  switch-in-loop: a for / while / do-while driving the switched variable through all labels and past "
                         "both ends, every case holding a loop + follower.  random-nested-switch: random nests of all statement kinds with >= 1 loop and "
                         ">= 1 switch / block / repeat, labels fitting the lowering"),
        rule="a case = one function body compiled by the real compiler (one pack each); streams: loop kind {while, do-while, for} x condition "
             "kind {atomic, atom && ||-group, ||-group && atom, top-level || group, || with a variable the body clears} x body kind {counter only, "
             "2 cmds, chain with else, chain ending in an ||-else-if without else, nested for, body flipping the tested variables, single if with "
             "||} x bound {0, 1, 3}; loops in every branch position of a chain inside a while (depth 3); random nests to depth 3 with >= 1 loop; "
             "directly nested loops whose conditions share __logic__0; empty bodies.  Round 2: 14 rich condition shapes x 5 ways of combining them with the "
             "counter test (guard && F, F && guard, guard distributed into the alternatives, guard || F with a body that falsifies F, !(!guard || !F)) x "
             "loop kind x bounds x bodies (say / clears a tested variable / chain over the same variables); random formulas in nested loops; packs of "
             "several functions whose loops call each other.  Round 3: a loop (for / while, plain and || conditions, for holding a chain) as the BRACE-LESS body of "
             "every chain position (lone if, first with else, else, last else-if, else-if before else, middle, last of 3, else of 3, all bodies brace-less), "
             "followed in the same block by nothing / for / while / do-while / for with || / another brace-less else-if loop + loop / say / brace-less chain, "
             "inside a function, loop body or branch; `for` counters take part in the enumeration of initial states (stale value makes the test true while the "
             "branch is not taken); random nests with brace-less bodies.  Round 4: chains of 5-7 branches with OVERLAPPING conditions (thresholds up / down, "
             "every other condition with helper lines, tests over several variables) with and without else inside for / while / do-while bodies, the loop driving "
             "the tested variable through every threshold (long-chain-in-loop, deterministic); and the Model.LoopSwitch streams described under round4.  "
             "Every case contains a loop, so distinct_nontrivial = distinct sources",
        correspondence="text of the user function and of every private function == Model (compile_body), compared in Coq",
        disagreements_checked=len(st["bad"]), semantic_runs=st["n_runs"], semantic_runs_skipped_divergent=st["n_skipped"],
        semantic_failures=len(st["sem_fail"]), compile_errors_expected_by_model=st["n_errors"],
        branch_histogram=st["tags"], streams=st["streams"], max_source_iterations_histogram=st["iters_hist"],
        braceless_bodies=sum(G.count_braceless(it["prog"]) for it in items),
        search="every case: emitted functions run in mcvm (step and depth limits) from every 0/1 assignment of the variables read "
               "(<=48 states, sampled beyond; thorough: also unset); say-trace and final user scores compared with the JavaScript meaning; "
               "source runs exceeding 400 iterations are skipped as divergent",
        not_modelled="Minecraft's maxCommandChainLength / recursion limits",
        samples=[dict(source=G.jmc_src(items[i])) for i in (0, 100, len(items) // 2, len(items) - 1) if i < len(items)],
    ))
    return ck.finish()


def replay(path: str) -> int:
    import json
    rp = json.loads(open(path).read())
    if rp.get("kind") == "semantic-failure" and rp.get("xjob"):
        return X.xreplay(rp, PROP)
    return G.replay_file(path, PROP)
