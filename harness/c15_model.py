"""Writers of Coq terms for the C15/C16 model drivers (Run/C15.v, Run/C16.v)."""
from __future__ import annotations

from lib import coq_str, coq_z, coq_bool, coq_list, coq_opt

HEADER = ("From Coq Require Import ZArith String List Bool Ascii.\n"
          "From JMCV Require Import Model.Layout Run.Common Run.C15.\n"
          "Import ListNotations.\nOpen Scope string_scope.\n")

TYPES = {"KEYWORD", "OPERATOR", "PAREN_ROUND", "PAREN_SQUARE", "PAREN_CURLY", "STRING", "COMMA", "FUNC"}


def is_ascii(s: str) -> bool:
    return all(ord(c) < 128 and (ord(c) >= 32 or c in "\t\n\r") for c in s)


def coq_string(s: str) -> str:
    """Coq string literal for an ASCII text (control characters are written literally: Coq strings may span lines)."""
    return coq_str(s)


def rtok_term(t) -> str:
    ty, line, col, string, mlen, mend = t
    me = "None" if mend is None else f"(Some ({coq_z(mend[0])}, {coq_z(mend[1])}))"
    return f"(mkR {ty} {coq_z(line)} {coq_z(col)} {coq_string(string)} {coq_z(mlen)} {me})"


def tokens_ascii(programs) -> bool:
    return all(is_ascii(t[3]) and t[0] in TYPES for st in programs for t in st)


def mt_term(mt) -> str:
    """mt: list of (key, arity, [(type, col, text)])"""
    items = []
    for key, arity, body in mt:
        b = coq_list(f"(mkTT {ty} {coq_z(col)} (s2l {coq_string(txt)}))" for ty, col, txt in body)
        items.append(f"(mkMacro (s2l {coq_string(key)}) {arity}%nat {b})")
    return coq_list(items)


def case_term(call, check_end: bool, mt=None, case_fix: bool = False) -> str:
    real = "None"
    if call["ok"]:
        real = "(Some " + coq_list(coq_list(rtok_term(t) for t in st) for st in call["programs"]) + ")"
    return (f"(mkCase {mt_term(mt or [])} {coq_bool(case_fix)} {coq_bool(call['expect_semicolon'])} {coq_bool(call['allow_last'])} "
            f"{coq_bool(call['allow_semicolon'])} {coq_z(call['line'])} {coq_z(call['col'])} {coq_string(call['string'])} "
            f"{coq_bool(check_end)} {real})")


def conn_term(cur, prev, real) -> str:
    return f"(mkConn {rtok_term(cur)} {rtok_term(prev)} {coq_bool(real)})"


def pair_term(a: str, b: str, fuel: int, case_fix: bool = False) -> str:
    return f"(mkPair {coq_bool(case_fix)} {coq_string(a)} {coq_string(b)} {fuel}%nat)"
