"""Corpus of valid JMC programs shared by the C13 and C14 checks.

Sources (all read from lib.REPO at run time, so the corpus follows the tree under test):
  * every `JMCTestPack().set_jmc_file(<literal>)[.set_header_file(<literal>)]` chain of the pinned
    test-suite (src/tests/**/*.py), extracted with Python `ast` (no test code is executed);
  * the ```js example of README.md;
  * a fixed list of small hand-written programs covering every header-of-statement parser
    (if / else / while / do / for / switch / async / function / class / new / @decorator / arrow
    functions / variable operations / nbt operations), see GENERATED below.
  * (C13 only, corpus_c13) one small program per entry of STATEMENTS / HEADER_LINES: a table of valid statements by
    kind that puts every token shape (negative literal, obj:selector, NBT path, keyword argument, macro, ...) in every
    operand position; entries that do not compile on the tree under test are dropped by the check.
Each entry: {"name", "src", "header" (or None), "origin"} (+ "kind", "span", "header_span" for statement programs).
"""
from __future__ import annotations

import ast
import re
from pathlib import Path

FULL_CERT = "LOAD=__load__\nTICK=__tick__\nPRIVATE=__private__\nVAR=__variable__\nINT=__int__\nSTORAGE=__storage__"


def _chain_calls(node):
    """Yield (method name, call node) for a chain a().b().c() from outermost to innermost."""
    while isinstance(node, ast.Call) and isinstance(node.func, ast.Attribute):
        yield node.func.attr, node
        node = node.func.value


def _const_str(call):
    if len(call.args) == 1 and isinstance(call.args[0], ast.Constant) and isinstance(call.args[0].value, str):
        return call.args[0].value
    return None


def from_tests(repo: Path) -> list[dict]:
    out = []
    seen = set()
    for py in sorted((repo / "src" / "tests").rglob("*.py")):
        try:
            tree = ast.parse(py.read_text(encoding="utf-8"))
        except SyntaxError:
            continue
        for fn in ast.walk(tree):
            if not isinstance(fn, (ast.FunctionDef, ast.AsyncFunctionDef)):
                continue
            k = 0
            for node in ast.walk(fn):
                if not (isinstance(node, ast.Call) and isinstance(node.func, ast.Attribute)
                        and node.func.attr == "build"):
                    continue
                src = header = None
                fmt = None
                for name, call in _chain_calls(node):
                    if name == "set_jmc_file":
                        src = _const_str(call)
                    elif name == "set_header_file":
                        header = _const_str(call)
                    elif name == "set_pack_format" and call.args and isinstance(call.args[0], ast.Constant):
                        fmt = call.args[0].value
                if src is None:
                    continue
                key = (src, header, fmt)
                if key in seen:
                    continue
                seen.add(key)
                out.append(dict(name=f"{py.stem}.{fn.name}.{k}", src=src, header=header, pack_format=fmt,
                                origin="tests"))
                k += 1
    return out


def from_readme(repo: Path) -> list[dict]:
    p = repo / "README.md"
    if not p.exists():
        return []
    out = []
    for i, m in enumerate(re.finditer(r"```js\n(.*?)```", p.read_text(encoding="utf-8"), re.S)):
        out.append(dict(name=f"README.{i}", src=m.group(1), header=None, pack_format=None, origin="readme"))
    return out


GENERATED = [
    ("fn_basic", 'function f() { say "a"; $x = 1; }\nfunction g.h() { f(); }'),
    ("class_nested", 'class a { function f() { say "x"; } class b { function g() { say "y"; } new advancements(z) { "k": 1 } } }'),
    ("if_else_chain", 'function f() { if ($x == 1) { say "1"; } else if ($x > 2 && $y <= 3) { say "2"; } else { say "3"; } }'),
    ("while_do_for", 'function f() { while ($i < 3) { $i++; } do { $i--; } while ($i > 0); for ($j = 0; $j < 4; $j++) { say "j"; } }'),
    ("switch_case", 'function f() { switch ($x) { case 1: say "a"; break; case 2: say "b"; say "c"; case 3: say "d"; } }'),
    ("switch_blocks", 'function f() { switch ($x) { case 1: if ($y == 1) { say "d"; } case 2: while ($w < 2) { $w++; } say "after"; case 3: say "e"; } }'),
    ("paren_exprs", 'function f() { $s := ($a + 2) * ($b - 1); if (($x == 1) && ($y == 2 || $z == 3)) { say "p"; } }'),
    ("arrow_args", 'Timer.add(t, runOnce, @a, () => { say "done"; });\nfunction f() { Hardcode.repeat((i) => { say "i"; }, start=1, stop=3); }'),
    ("execute_run", 'function f() { execute as @a at @s run { say "x"; tp @s ~ ~1 ~; } execute if ($x matches 1..2) run say "y"; }'),
    ("varops", 'function f() { $a = 1; $a += $b; $a *= 3; $a ??= 2; $a >< $b; $a = obj:@s; obj:@s -= 4; $a = @s::Health; @s::Health = 2; $s := $a + 2 * $b; }'),
    ("nbt_ops", 'function f() { ::a = 1; ::a.b = "s"; @s::tag.x = {a: 1b}; ::l << 3; ::m = ::n; ::m ?= $x; ::a.del(); }'),
    ("new_json", 'new advancements(a.b) { "criteria": { "t": { "trigger": "minecraft:tick" } } }\nnew tags.functions(q) { "values": [] , "x": 1}'),
    ("decorators", '@add(__tick__) function t() { say "t"; }\n@lazy function l(a, b) { say "$a $b"; }\nfunction u() { l(1, 2); }'),
    ("async_schedule", 'function f() { schedule function f 1t; async while ($i < 2) { $i++; } 1t; async for ($k = 0; $k < 2; $k++) { say "k"; } 2s; }'),
    ("load_stmts", '$g = 3;\nsay "load";\nif ($g == 3) { say "three"; }\nfunction f() { return run { say "r"; } }'),
    ("strings_comments", "function f() { // line comment\n  say 'single \\' quote'; # not a comment here\n  say \"esc \\\" \\\\ \\t\"; tellraw @a {\"text\":\"a//b\"}; JMC.python(`\nemit('say 1')\n`); }"),
    ("brackets_mix", 'function f() { tp @e[type=pig, limit=1, nbt={A:[I;1,2], B:{c:"}"}}] ~ ~ ~; data modify storage a:b c set value [{x:1},{y:[1,2]}]; }'),
    ("builtin_calls", 'Player.onEvent(jump, () => { say "j"; });\nfunction f() { Text.tellraw(@a, "&<red>hi"); $r = Math.random(1, 5); $r = Math.sqrt($r); printf("x"); }'),
    ("return_with", 'function f() { g() with storage::path; return 1; return run f(); if ($x) return 1; }\nfunction g() { $say "$(k)"; }'),
]


PRE_G = 'function g() { $tp @s $(a) ~ ~; }'

# kind -> valid statements; function-level kinds are wrapped as `function f() { <stmt> say "z"; }` (+ an optional
# prelude that is NOT mutated), `top:` kinds stand alone at load level.  (statement, prelude) tuples carry a prelude.
STATEMENTS = {
    'var_assign': [
        '$x = -5;',
        '$x = 5;',
        '$x = $y;',
        '$x += -5;',
        '$x -= -3;',
        '$x *= -2;',
        '$x /= -2;',
        '$x %= -7;',
        '$x ??= -1;',
        '$x ??= $y;',
        '$x >< $y;',
        '$x++;',
        '$x--;',
        '$x = obj:@s;',
        '$x += obj:@s[tag=a];',
        '$x.get();',
        '$x.reset();',
        '$x;',
        '$x = true;',
        '$x = false;',
        '$x = 2147483647;',
        '$x = -2147483648;',
        '$x -= 2147483648;',
    ],
    'obj_assign': [
        'obj:@s = -5;',
        'obj:@s += -1;',
        'obj:@a[tag=t] *= -2;',
        'obj:name ??= -4;',
        'obj:@s = $x;',
        'obj:@s -= obj:@p;',
        'obj:@s.get();',
        'obj:@s.reset();',
        'obj:@s--;',
        'obj:@s++;',
        'obj:@s >< obj:@p;',
        '$x >< obj:@s;',
        'obj:@s[tag=a] = obj:@s[tag=b];',
        'obj:@e[type=pig,limit=1] = 1;',
        'obj:@s;',
        'obj:@s = obj:@e[type=pig,limit=1,sort=nearest];',
        'obj:$x = 1;',
    ],
    'var_store': [
        '$x = data get entity @s Health;',
        '$x ?= kill @e[type=pig];',
        '$y = clear @s diamond 0;',
        'obj:@s = time query daytime;',
        '$x = f();',
        '$x ?= f();',
        '$x = Math.sqrt($y);',
        '$x = Math.random(-5, -1);',
        '$x = Math.random(min=-5, max=-1);',
        '$x = Math.random();',
        '$x = @s::Health;',
        '$x = ::a.b;',
        '$x = ::a * -3;',
        '$x = ::a * 0.5;',
        '$x = ns:st::a[0];',
        '$x ?= @s::Health;',
    ],
    'expr': [
        '$s := -1 + $y * -2;',
        '$s := ($a - -3) / ($b + 1) % 4;',
        '$s := $a ** 2 - $b;',
        '$s := -$a;',
        '$s := ($a + 2) * ($b - 1);',
        '$s := $a / $b + $c % 3;',
        '$s := obj:@s + $a;',
        '$s := 2 ** 3;',
        '$s := 1;',
        '$s := $a;',
        '$s := (($a));',
        '$s := -(1 + 2);',
        'obj:@s := $a * 2 + obj:@p;',
        '$s := $a * $a * $a + 7 / 2;',
    ],
    'for': [
        'for ($i = -3; $i < -1; $i++) { say "n"; }',
        'for ($k = 10; $k > -10; $k -= 2) { say "k"; }',
        'for ($i = $n; $i >= 0; $i--) { say "b"; }',
        'for ($i = 0; $i < $n && $i != 3; $i += 2) { say "c"; }',
        'for ($j = obj:@s; $j matches 1..5; $j *= 2) { say "d"; }',
        'for ($i = 0; $i < 2; $i++) { for ($j = -1; $j < 1; $j++) { say "ij"; } }',
        'for ($i = -1; !($i == 3); $i += -1) { say "neg"; }',
    ],
    'while_do': [
        'while ($x < -1) { $x++; }',
        'while ($x < 3 && $y > -3) { $x++; }',
        'do { $i--; } while ($i > -5 && $i != -3);',
        'while ($x matches -3..-1) { $x++; }',
        'while (!$x) { $x = 1; }',
        'do { say "o"; } while (entity @s[tag=a]);',
        'while ($x < 3) $x++;',
    ],
    'if': [
        'if ($x == -1) { say "a"; } else if ($x >= -3 && $y != -2) { say "b"; } else { say "c"; }',
        'if ($x matches -5..-1) { say "a"; }',
        'if (!$x) { say "a"; }',
        'if (!($a == 1 && $b == 2) || $c) { say "b"; }',
        'if (entity @s[tag=a, scores={o=1..}]) { say "c"; }',
        'if (block ~ ~-1 ~ stone) { say "d"; }',
        'if ($x == $y) { say "e"; }',
        'if (obj:@s > obj:@p) { say "f"; }',
        'if ($x = $y) { say "g"; }',
        'if (::a.b) { say "h"; }',
        'if (::a == 1) { say "i"; }',
        'if (::s == "str") { say "j"; }',
        'if ($x === $y) { say "k"; }',
        'if ($x !== 1) { say "l"; }',
        'if ($x) return 1;',
        'if ($x == -1) return -1;',
        'if ($a) if ($b) say "ab"; else say "a";',
        'if ($a) say "x"; else say "y";',
        'if ($x matches 1..2 || $y matches -3..3) { say "m"; }',
        'if ($x > -1 && ($y < 2 || !($z == -3))) { say "n"; }',
        'if ($x == 1) expand { say "1"; say "2"; }',
        'if (Timer.isOver(t)) { say "a"; }',
        'if (String.isEqual(::a, "b")) { say "b"; }',
        'if (Timer.isOver(t, @s) && !Object.isEqual(::a, ::b)) { say "c"; }',
        'if (@s::Health) { say "hp"; }',
        'if ($x <= -1 || $x >= 1) { say "abs"; }',
        'if (data entity @s Health) { say "v"; }',
        'if (predicate ns:p) { say "p"; } else { say "q"; }',
        'if (score @s o matches -1..) { say "s"; }',
        'if (f()) { say "fn"; }',
        'if ($x != $y && obj:@s == -1) say "one";',
    ],
    'switch': [
        'switch (obj:@s) { case 1: say "o"; }',
        'switch ($x) { case 0: say "zero"; case 1: say "one"; }',
        'switch ($x) { case 2: say "two"; case 3: if ($y == -1) { say "d"; } say "after"; }',
        'switch ($x) { case -1: say "neg"; case 0: say "z"; }',
        'switch ($x) { case 1: switch ($y) { case 1: say "in"; } case 2: say "out"; }',
        'switch ($x) { case 1: say "a"; break; case 2: say "b"; break; }',
        'switch ($x) { case 1: say "a"; case 2: $y = -1; case 3: f(); case 4: if ($y == -1) { say "d"; } say "after"; }',
        'switch ($x) { case 1: say "a"; case 2: $y = -1; break; case 3: f(); }',
        'switch ($x) { case 1: if ($y == -1) { say "d"; } say "after"; case 2: while ($w < -2) { $w++; } }',
    ],
    'execute': [
        'execute as @a run $x = -5;',
        'execute if ($x > -1) run $y += -2;',
        'execute as @a at @s run obj:@s = -7;',
        'execute as @a at @s positioned ~ ~1 ~ run $x += 1;',
        'execute as @a run f();',
        'execute if (entity @s[tag=a]) run return 1;',
        'execute unless ($x == 1 && $y == 2) run { say "n"; }',
        'execute as @a run ::a = 1;',
        'execute as @a expand { say "x"; say "y"; }',
        'execute run $x = $y;',
        'execute if ($x matches -1..1) run say "d";',
        'execute store result score $z __variable__ run data get storage a:b c;',
        'execute as @a run { say "x"; tp @s ~ ~1 ~; }',
        'execute as @e[type=pig,nbt={A:-1b}] run $x := $y * -2;',
        'execute if score @s o matches -1.. run say "v";',
        'execute as @a run execute at @s run $x++;',
        'execute as @a run $x = obj:@s;',
        'execute as @a run Text.tellraw(@s, "hi");',
        'execute positioned -1 -2 -3 run say "p";',
        'execute if ($x == -1 || $y == -2) run say "or";',
        'execute as @a run $x ?= kill @s;',
        'execute as @a run @s::Health = -1;',
        'execute as @a run obj:@s.reset();',
        'execute as @a run $x.get();',
        'execute as @a run return run $x = -1;',
    ],
    'nbt': [
        '::a = -5;',
        '::a.b = -1.5f;',
        '@s::Health = -2;',
        '::a * -2;',
        '::a = (int) $x;',
        '::a = 2 * $x;',
        '::l << -4;',
        '::l >> -1;',
        '::a.b[0].c = 1;',
        '::a[{x:1}].y = "s";',
        '@s::Inventory[0].id = "minecraft:stone";',
        'ns:name::p.q = 2b;',
        '[~,~1,~]::Items = [];',
        '::a = ::b.c[2:5];',
        '::a = ::b[-1];',
        '::a = ::b[-3:-1];',
        '::a = ::b[:-1];',
        '::a.del();',
        '::a = $x;',
        '::a = {k: [1, 2, {z: "w"}], s: \'q\'};',
        '::m ?= $x;',
        '::a = true;',
        '::a = (float) $x;',
        '::a = (byte) obj:@s;',
        '::a = 1.5d;',
        '::a = [I; 1, -2];',
        '::a = [B; 1b];',
        '::a >> "s";',
        '::a << {a: -1};',
        '::t = ::u;',
        '::a;',
        '@s::Pos[0];',
        '::a = "str";',
        '::a += 1;',
        '::a = f();',
        '::a = data get entity @s Pos;',
        '::a ?= kill @s;',
        '::a = {};',
        '::a = [];',
        '::a.b.c.d = {x: {y: {z: -1}}};',
        '::a."quoted key" = 1;',
        '::a = @s::Health;',
        '@s::Health = ::a;',
        '::a << ::b[0];',
    ],
    'call': [
        'f();',
        ('g() with ::path;', PRE_G),
        ('g() with {a: 1, b: -2};', PRE_G),
        ('g() with ns:x::path.q;', PRE_G),
        ('g() with @s::data;', PRE_G),
        ('g() with [~,~,~]::Items[0];', PRE_G),
        ('execute as @a run g() with ::p;', PRE_G),
        ('$x = g() with ::p;', PRE_G),
        ('g(a="s");', PRE_G),
        ('g({a: 1});', PRE_G),
        ('g({a: -1, b: "s"});', PRE_G),
        # triage round 5: vanilla `function` commands with paths of every depth (one to five segments, glued and spaced),
        # plain / with arguments / `with` a source; deep dotted JMC paths
        'function a:b;',
        'function a:b/c;',
        'function a:b/c/d;',
        'function a:b/c/d/e;',
        'function a:b/c/d/e/g;',
        'function a:b / c / d / e / g;',
        'function a:b/c/d/e/g with storage a:b p;',
        'function a:b/c with entity @s p.q;',
        'function #a:b/c;',
        'execute as @a run function a:b/c/d/e/g;',
        'schedule function a:b/c/d/e/g 1t;',
        ('a.b.c.d.e();', 'function a.b.c.d.e() { say "deep"; }'),
        ('function TEST:a/b/c/d/e;', 'function a.b.c.d.e() { say "deep"; }'),
    ],
    'return': [
        'return 1;',
        'return -1;',
        'return run f();',
        'return run { say "r"; }',
        'return fail;',
        'return $x;',
        'return run $x = -1;',
        'return run execute if ($x == 1) run return -5;',
        'return;',
        'return obj:@s;',
        'return run ::a = -1;',
    ],
    'schedule': [
        'schedule function f 1t;',
        'schedule f() 2s replace;',
        'schedule function f 1d append;',
        'schedule clear f;',
        'async while ($i < 2) { $i++; } 1t;',
        'async for ($k = -1; $k < 2; $k++) { say "k"; } 2s;',
        'schedule 5t { say "later"; }',
        'schedule 1s replace { say "l"; }',
        'schedule function ns:other 10;',
    ],
    'vanilla': [
        'tp @s -5 64 -5;',
        'tp @s ~ ~-1 ~;',
        'tp @s ^ ^ ^-1.5;',
        'scoreboard players set @s obj -3;',
        'effect give @s speed 1 -1;',
        'give @s diamond_sword[damage=-1,custom_name=\'"x"\'] 1;',
        'summon pig ~ ~ ~ {NoAI:1b,Motion:[-1.0d,0.0d,1.0d]};',
        'setblock ~ ~ ~ chest[facing=north]{Items:[]};',
        'tellraw @a ["a",{"score":{"name":"@s","objective":"o"}}];',
        'data merge entity @s {Tags:["a"]};',
        'scoreboard players operation @s o -= @p o;',
        'tag @e[type=!player,distance=..-1] add t;',
        'say "a\\tb\\\\c\\"d";',
        "say 's\\'t';",
        'tellraw @a {"text":"-1","color":"red","extra":[{"text":"x;y"}]};',
        'say "u\\u00e9 \\x41 \\N{DIGIT ONE}";',
        'say "long \\\ncontinued";',
        'tellraw @a $x.toString(color=red, bold=true);',
        'tellraw @a obj:@s.toString();',
        'title @a title $x.toString();',
        'kill @e[type=pig,scores={o=-5..-1},nbt={A:[{b:-1}]}];',
        'data modify storage a:b c set value [{x:-1},{y:[1,-2]}];',
        'function ns:other;',
        'me "x";',
        'particle dust{color:[1.0,0.0,0.0],scale:1} ~ ~ ~ 0 0 0 0 1;',
        'item replace entity @s weapon.mainhand with stick;',
        'tellraw @a {"text":"a//b"};',
        '$tp @s $(a) ~ ~-1;',
        '$x = (const) $(a);',
        '$y = (var) $(b);',
        '$$(cmd) arg;',
        'tp @s @e[type=pig,limit=1,sort=nearest];',
    ],
    'builtin': [
        'Text.tellraw(@a, "&<red, bold>hi &<$x> &<obj:@s>");',
        'Particle.circle("dust 1 0 0 1", radius=2.5, spread=10, speed=0, count=1, mode=force);',
        'Timer.set(t, @s, 5);',
        'Timer.set(t, @s, $x);',
        'Hardcode.repeat((i) => { say "i"; }, start=3, stop=-1, step=-1);',
        'Hardcode.switch($x, (i) => { say "i"; }, count=3, begin_at=-1);',
        'Hardcode.switch($x, (i) => { say "i"; }, count=3);',
        'printf("&<$x> -1");',
        'Text.title(@a, "&<gold>T");',
        'Text.actionbar(@a, "x");',
        'Tag.update(@s, t, @s[scores={o=-1..}]);',
        'JMC.put("say raw -1");',
        'JMC.python(`\nfor i in range(-1, 2):\n    emit(f"say {i}")\n`);',
        'Entity.launch(1.5);',
        'Entity.launch(power=-1);',
        'Array.forEach(::arr, (e) => { say "e"; });',
        'Raycast.simple(onHit=() => { say "h"; }, onStep=() => { particle flame; }, interval=0.5, maxIter=10, boxSize=0.1, target=@e[type=!player], startAtEye=true, stopAtBlock=true);',
        'Hardcode.repeatList((x, n) => { say "x n"; }, strings=["a", "b"]);',
        'Hardcode.repeatLists((a, b, c) => { say "a b c"; }, stringLists=[["1", "2"], ["3", "4"]]);',
        'Particle.line("flame", distance=5, spread=2);',
        'Particle.spiral("flame", radius=1, height=2, spread=10);',
        'Particle.circle("flame", 1, 10);',
        'Particle.sphere("flame", radius=1.5, spread=8);',
        'Particle.square("flame", length=2, spread=4, align=corner);',
        'Particle.cube("flame", 2, 4);',
        'Particle.cube("flame", length=2, spread=4, align=center);',
        'Particle.square("flame", length=2, spread=4, align=center, mode=force);',
        'Particle.cylinder("flame", 1, 2, 8, 2);',
        'Text.tellraw(@a, "&<red>a&<reset> &<$x, blue>");',
        'Text.tellraw(@a, "&<::a.b> &<@s::Health, red> &<obj:@s[tag=a], bold>");',
    ],
    'top:load': [
        '$g = -3;',
        'obj:@a = -1;',
        '::cfg = {v: -1};',
        'say "load";',
        'if ($g == -3) { say "three"; }',
        'for ($i = -1; $i < 1; $i++) { say "l"; }',
        'Timer.add(t, runOnce, @a, () => { say "o"; });',
        'Player.onEvent(jump, () => { $j++; });',
        'Player.firstJoin(() => { say "hi"; });',
        'Team.add(blue, "Blue");',
        'Scoreboard.add(o);',
        'Scoreboard.add(o, dummy, "Disp");',
        'Recipe.table({"type": "minecraft:crafting_shapeless", "ingredients": [{"item": "minecraft:oak_planks"}], "result": {"item": "minecraft:diamond", "count": 1}}, baseItem=barrier, onCraft=() => { say "w"; });',
        'Advancement.grant(@a, everything);',
        'GUI.template(g, ["XXXXXXXXX"], mode=entity);',
        '$x = -1; $y = $x;',
        'execute as @a run $x = -1;',
        'switch ($g) { case 1: say "a"; }',
        'while ($g < -1) { $g++; }',
        'tp @a -1 -2 -3;',
        'Timer.add(t, runTick, @a, () => { $t--; });',
        'Timer.add(t, none, @a);',
        'function f() { say "f"; }\nTrigger.setup(help, {1: () => { say "one"; }, 2: f, 3: () => { $x = -1; }});',
        'function f() { say "f"; }\nPlayer.rejoin(f);',
        'function f() { say "f"; }\nPlayer.die(onDeath=() => { say "d"; }, onRespawn=f);',
        'Item.create(i2, stick, "N", [], {x: -1});',
        'Team.add(red);',
        'Team.add(blue, "Blue", {color: blue});',
        'Bossbar.add(b, "B");',
        'function f() { say "f"; }\nRightClick.setup(rc, {1: () => { say "1"; }, 2: f});',
        'Item.createSign(s, oak, "Sign", texts=["a", "b"], nbt={x: -1}, onClick=() => { say "s"; });',
        'function f() { say "f"; }\nPlayer.onEvent(custom:jump, f);',
        'Predicate.locations("pl", {"condition": "minecraft:location_check", "predicate": {"__loc__": 1}}, xMin=-1, yMin=-1, zMin=-1, xMax=1, yMax=1, zMax=1);',
        'TextProp.clickURL("u", "https://x");',
        'TextProp.hoverText("h", "&<red>hover");',
        'Item.create(myItem, stick, "N");\nfunction f() { Item.give(myItem, @s, 2); Item.clear(myItem, @s, -1); Item.summon(myItem, "~ ~ ~", count=2); Item.replaceEntity(myItem, @s, "weapon.mainhand"); execute as @a run Item.give(myItem); }',
    ],
    'top:def': [
        'function f() { say "a"; }',
        'function a.b.c() { a.b.c(); }',
        'class z { function y() { z.y(); } }',
        'class a.b { function f() { say "x"; } new loot_tables(l) { "pools": [] } class c { new item_modifiers(m) { "function": "set_count", "count": -1 } } }',
        'new advancements(base) { "criteria": { "t": { "trigger": "minecraft:tick" } } }',
        '@add(__load__) function a() { say "a"; }',
        '@add(from=__tick__) function b() { say "b"; }',
        '@private function c() { say "c"; }',
        '@root function d() { say "d"; }',
        '@if(value=1) function e() { say "e"; }',
        '@lazy function m() { say "m"; }\nfunction u() { m(); }',
        'class k { @add(__tick__) function t() { say "t"; } @lazy function z(q) { say "$q"; } function u() { k.z(-1); } }',
        'function f() { say "a"; } function __tick__() { f(); }',
        'new tags.functions(q) { "values": [] , "x": -1}',
        'new dimension(d) { "type": "x" }',
        'new predicates(p) [ {"condition": "minecraft:random_chance", "chance": -0.5} ];',
        'new advancements(base) { "criteria": {} }\nnew advancements(child) extends (base) { "display": {} }',
        '@lazy function l(a, b) { say "$a $b"; $x = $a; }\nfunction u() { l(-1, 2); l(a=1, b=-2); l(3, b=4); }',
        '@lazy function l(a) { $x = $a; $a; }\nfunction u() { l($y); l(a=say "q"); }',
    ],
    'macro': [
        '$tp @s $(a) ~ ~-1;',
        '$x = (const) $(a);',
        '$y = (var) $(b);',
        '$say "$(a) $(b)";',
        '$x = (command) $(c);',
        '$x ?= (command) $(c);',
        '$x = (const) "$(a)$(b)";',
        '$x += (const) $(a);',
        '$give @s $(item)[damage=$(d)] -1;',
        '$execute as $(sel) run say "m";',
        '$::a = $(v);',
        'execute run { $tp @s $(k) ~ ~; } with {k: -1};',
        'execute as @a run { $tp @s $(k) ~ ~; } with ::path;',
        '$scoreboard players set @s o $(n);',
        '$$(cmd) arg;',
    ],
    # strengthening round 4: vanilla macro tokens `$(name)` in CONDITIONS (every construct that takes one), selectors, scores,
    # NBT paths, call arguments and `$`-prefixed statements; bare, with a connected suffix / prefix, two in a row
    'macro_cond': [
        'if (score $(p) obj matches 1..) { say "a"; }',
        '$if (score $(p) $(o) matches 1..) { say "a"; }',
        'while (score $(p)_x obj matches 1..) { say "a"; }',
        'do { say "a"; } while (score $(p)_x obj matches 1..);',
        'for ($i = 0; score $(p)_x obj matches 1..; $i++) { say "a"; }',
        'if (entity @a[tag=$(t)]) { say "a"; }',
        'if ($(p)) { say "a"; }',
        'if ($x == $(p)) { say "a"; }',
        'if ($(c) && $x == 1 || $(d)) { say "a"; }',
        'if (data storage $(ns) $(path)) { say "a"; }',
        'if (score $(a) $(b) = $(c) $(d)) { say "a"; }',
        'if (predicate $(ns):$(p)) { say "a"; }',
        'if (score $(a)$(b) obj matches 1..) { say "a"; }',
        'if (entity @s[scores={$(o)=1..}]) { say "a"; }',
        'if (($(p)) && !($(q) || $x > 1)) { say "a"; }',
        'execute unless (entity $(s) && score $(p)_x o matches 1) run say "x";',
        '$execute as $(sel) at @s if entity @e[tag=$(t),distance=..$(d)] run tp @s $(x) $(y) $(z);',
        '$execute if ($x == 1 && score $(p) o matches 1) run say "x";',
        '$tp @s $(x) $(y)_z a$(z);',
        '$::a.$(k) = 1;',
        '$function $(ns):$(f);',
        ('g() with {k: "$(x)"};', PRE_G),
        'switch ($x) { case 1: $say "$(a)"; case 2: $tp @s $(b) ~ ~; }',
        '$execute store result score $(p) $(o) run data get storage $(ns) $(path) $(scale);',
    ],
}

# (function-level statement, header text): one header directive (or a few cooperating ones) each
HEADER_LINES = [
    ('say "A";', '#define A 1'),
    ('$x = A;', '#define A -1'),
    ('$y := F(1, 2);', '#define F(x, y) x + y'),
    ('tp @s H(-1);', '#define H(v) ~v ~ ~'),
    ('$z = NEG;', '#define NEG -5'),
    ('say "x";', '#define EMPTY'),
    ('say "x";', '#define E2(x, y)'),
    ('$x = T(3);', '#bind EVAL\n#deepdefine T(x) EVAL(x * -2 + 1)'),
    ('give @s I(tg);', '#deepdefine I(x) stick[tag=x]'),
    ('$y = EVAL(2 * -3);', '#bind EVAL'),
    ('say "NS";', '#bind __namespace__ NS'),
    ('say "U";', '#bind __UUID__ U'),
    ('say "x";', '#credit "by me"'),
    ('mycmd 1 -2;', '#command mycmd'),
    ('as @p;', '#command as'),
    ('say "x";', '#override minecraft'),
    ('say "x";', '#nometa'),
    ('$e = E.B;', '#enum E A B C'),
    ('$e = G.X;', '#enum G -1 X Y'),
    ('say "x";', '#del give'),
    ('switch ($x) { case 1: say "a"; case 2: say "b"; }', '#forcebst'),
    ('say "x";', '#show_private_command'),
    ('say "x";', '#env DEV'),
    ('say "x";', '// comment\n#define A -1 // trailing'),
    ('say C;', '#define C "str;ing"'),
    ('say "x";', '#define A 1\n#define B A\n#define C(x) B x'),
    ('$x = P(1, (2, 3));', '#define P(a, b) a'),
    ('$x = S(-1);', '#define S(x) x'),
    ('G;', '#define G say "g"'),
    ('say "x";', '#link x'),
    ('say "x";', '#resource x'),
    ('$x = D(1);', '#deepdefine D(x) -x'),
    ('function uninstall() { say "u"; }', '#uninstall'),
    ('say "x";', '#define A(x, y, z) x y z\n#define Z A(1, 2, 3)'),
    ('say Q(a, "b, c", (d, e));', '#define Q(x, y, z) "x"'),
]


# (statement(s) with SEVERAL uses of the macros, header text): use sites of every kind of macro (triage round 5).  Each of
# these and of HEADER_LINES is ALSO compiled with the definitions pushed to late header lines (HEADER_PAD in front) and the
# whole source on ONE line: a token made by `#deepdefine` carries the line number of the HEADER, so every diagnostic that
# cites it indexes the (shorter) source with a line number beyond its end.
HEADER_USES = [
    ('SAY("a"); SAY("b");', '#deepdefine SAY(x) say x'),
    ('SAY("a"); SAY("b");', '#define SAY(x) say x'),
    ('GREET; GREET;', '#define GREET say "hi"'),
    ('GREET(x); GREET(y);', '#deepdefine GREET(n) say "hi"'),
    ('$x = TWICE(3); $y = TWICE(4);', '#bind EVAL\n#deepdefine TWICE(x) EVAL(x * 2)'),
    ('$x = SIX; $y = SIX;', '#bind EVAL\n#define SIX EVAL(2 * 3)'),
    ('$e = Color.RED; $f = Color.BLUE;', '#enum Color RED GREEN BLUE'),
    ('say "NS"; tellraw @a "NS";', '#bind __namespace__ NS'),
    ('give @s ITEM(a); give @s ITEM(b);', '#deepdefine ITEM(x) stick[tag=x]'),
    ('if (ISONE($x)) { say "1"; } if (ISONE($y)) { say "2"; }', '#deepdefine ISONE(v) v == 1'),
    ('$y := ADD(1, 2); $z := ADD($y, 3);', '#define ADD(a, b) a + b'),
    ('$y := ADD(1, 2); $z := ADD($y, 3);', '#deepdefine ADD(a, b) (a + b)'),
    ('execute as @a run SAY("x"); execute at @s run SAY("y");', '#deepdefine SAY(x) say x'),
    ('SET(a, 1); SET(b, -2);', '#deepdefine SET(n, v) $n = v'),
    ('TP(1, 2, 3); TP(~, ~1, ~);', '#deepdefine TP(x, y, z) tp @s x y z'),
    ('say "x" NOTHING; NOTHING say "y";', '#define NOTHING'),
    ('$r = Math.random(LO, HI); $s = Math.random(min=LO, max=HI);', '#define LO 1\n#define HI 6'),
    ('Text.tellraw(@a, MSG(hi)); Text.tellraw(@s, MSG(yo));', '#deepdefine MSG(t) "&<red>t"'),
    ('$a = N; $b = NOT(N); $c = NOT(0);', '#bind NOT\n#define N 5'),
    ('switch ($x) { case A: say "a"; case B: say "b"; }', '#define A 1\n#define B 2'),
    ('PAIR(1, 2); PAIR((3), (4, 5));', '#deepdefine PAIR(a, b) say "a b"'),
    # JSON / NBT / list arguments that come out of a macro (load-level statements: the third field)
    ('Predicate.locations("p", PRED(0.5), 0, 1, 0, 1, 0, 1); Predicate.locations("q", PRED(1), 0, 1, 0, 1, 0, 1);',
     '#deepdefine PRED(x) {"condition": "minecraft:random_chance", "chance": x}', "top"),
    ('JMC.packMeta(META(1));', '#deepdefine META(x) {"pack": {"x": x}}', "top"),
    ('::cfg = CFG(1); ::cfg2 = CFG("s");', '#deepdefine CFG(v) {a: v, b: [v, v]}'),
    ('Item.create(it, stone, "N", LORE(a)); Item.create(it2, stone, "N", LORE(b));', '#deepdefine LORE(x) ["x", "y"]', "top"),
    ('tellraw @a TXT(hi); tellraw @s TXT(yo);', '#deepdefine TXT(t) {"text": "t", "color": "red"}'),
]
HEADER_PAD = ("// generated header\n\n// the definitions below sit on late lines\n#define PAD_A 0\n\n"
              "// more padding\n#define PAD_B PAD_A\n//\n")
_MACRO_NAME = re.compile(r"#\s*(?:deep)?define\s+([A-Za-z_][A-Za-z0-9_.]*)|#\s*bind\s+(\w+)(?:[ \t]+(\w+))?|#\s*enum\s+(\w+)")


def macro_names(header: str | None) -> list[str]:
    """names a header defines (the tokens whose expansion is nothing / needs arguments when they END a source)"""
    out = []
    for m in _MACRO_NAME.finditer(header or ""):
        n = m.group(1) or m.group(3) or m.group(2) or m.group(4)
        if n and n not in out:
            out.append(n)
    return out


def statements() -> list[dict]:
    """One program per statement of STATEMENTS / HEADER_LINES (strengthening round 1): every operand position of every
    statement kind (negative literals, obj:selector targets, := expressions, for-headers, execute-run wrappers, switch
    labels, NBT paths, matches ranges, keyword arguments, vanilla macros, header directives) as a small program whose
    mutants are taken only inside `span` (character offsets of the statement; the wrapper and prelude stay intact)."""
    out = []
    for kind, lst in STATEMENTS.items():
        for n, item in enumerate(lst):
            stmt, pre = item if isinstance(item, tuple) else (item, "")
            if kind.startswith("top:"):
                src, span = stmt, (0, len(stmt))
            else:
                head = "function f() { "
                src = head + stmt + ' say "z"; }' + ("\n" + pre if pre else "")
                span = (len(head), len(head) + len(stmt))
            out.append(dict(name=f"stmt.{kind}.{n}", src=src, header=None, pack_format=None, origin="statements",
                            kind=kind, span=span, header_span=None))
    for n, (stmt, hdr) in enumerate(HEADER_LINES):
        src = "function f() { " + stmt + " }"
        out.append(dict(name=f"stmt.header.{n}", src=src, header=hdr, pack_format=None, origin="statements",
                        kind="header", span=(15, 15 + len(stmt)), header_span=(0, len(hdr))))
    # triage round 5: use sites of macros; definitions on late header lines over a one-line source; load-level sources
    for n, item in enumerate(HEADER_LINES + HEADER_USES):
        stmt, hdr = item[0], item[1]
        top_only = len(item) > 2
        uses = n >= len(HEADER_LINES)
        top_ok = not stmt.startswith("function ")
        variants = []
        if uses and not top_only:
            variants.append(("fn", "function f() { " + stmt + " }", 15, hdr, 0))
        if not top_only:
            variants.append(("fn-late", "function f() { " + stmt + " }", 15, HEADER_PAD + hdr, len(HEADER_PAD)))
        if uses and top_ok:
            variants.append(("top", stmt, 0, hdr, 0))
            variants.append(("top-late", stmt, 0, HEADER_PAD + hdr, len(HEADER_PAD)))
            if "#deepdefine" in hdr:
                # the definition on header line 2, 3, 4 over a one-line source: cited line = last line + 0 / 1 / 2
                for k in (1, 2, 3):
                    variants.append((f"top-pad{k}", stmt, 0, "// pad\n" * k + hdr, 7 * k))
        for vn, (tag, src, off, header, hoff) in enumerate(variants):
            out.append(dict(name=f"stmt.header5.{n}.{tag}", src=src, header=header, pack_format=None, origin="statements",
                            kind="header-uses" if uses else "header-late", span=(off, off + len(stmt)),
                            header_span=(hoff, len(header)), header_lines=True,
                            # the variants differ only in the padding in front of the same directives: the quick tier edits
                            # the header TOKENS of one variant per entry (the first padded one); every variant keeps the edits
                            # of its source and of its header LINES (from the last padding line on)
                            header_first_line=max(0, header[:hoff].count("\n") - 1),
                            quick_skip_header_tokens=tag != ("fn-late" if not top_only else "top-late")))
    return out


def generated() -> list[dict]:
    return [dict(name=f"gen.{n}", src=s, header=None, pack_format=None, origin="generated") for n, s in GENERATED]


def corpus(repo: Path) -> list[dict]:
    return from_tests(repo) + from_readme(repo) + generated()


def corpus_c13(repo: Path) -> list[dict]:
    """corpus() + the per-statement programs (their mutants are restricted to the statement's span)"""
    return corpus(repo) + statements()
