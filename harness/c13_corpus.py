"""Corpus of valid JMC programs shared by the C13 and C14 checks.

Sources (all read from lib.REPO at run time, so the corpus follows the tree under test):
  * every `JMCTestPack().set_jmc_file(<literal>)[.set_header_file(<literal>)]` chain of the pinned
    test-suite (src/tests/**/*.py), extracted with Python `ast` (no test code is executed);
  * the ```js example of README.md;
  * a fixed list of small hand-written programs covering every header-of-statement parser
    (if / else / while / do / for / switch / async / function / class / new / @decorator / arrow
    functions / variable operations / nbt operations), see GENERATED below.
Each entry: {"name", "src", "header" (or None), "origin"}.
"""
from __future__ import annotations

import ast
import re
from pathlib import Path

FULL_CERT = "LOAD=__load__\nTICK=__tick__\nPRIVATE=__private__\nVAR=__variable__\nINT=__int__\nSTORAGE=__storage__"


def _chain_calls(node):
    """Yield (method name, call node) for a chain a().b().c() from outermost to innermost."""
    while isinstance(node, ast.Call) and isinstance(node.func, ast.Attribute):
        yield node.func.attr, node
        node = node.func.value


def _const_str(call):
    if len(call.args) == 1 and isinstance(call.args[0], ast.Constant) and isinstance(call.args[0].value, str):
        return call.args[0].value
    return None


def from_tests(repo: Path) -> list[dict]:
    out = []
    seen = set()
    for py in sorted((repo / "src" / "tests").rglob("*.py")):
        try:
            tree = ast.parse(py.read_text(encoding="utf-8"))
        except SyntaxError:
            continue
        for fn in ast.walk(tree):
            if not isinstance(fn, (ast.FunctionDef, ast.AsyncFunctionDef)):
                continue
            k = 0
            for node in ast.walk(fn):
                if not (isinstance(node, ast.Call) and isinstance(node.func, ast.Attribute)
                        and node.func.attr == "build"):
                    continue
                src = header = None
                fmt = None
                for name, call in _chain_calls(node):
                    if name == "set_jmc_file":
                        src = _const_str(call)
                    elif name == "set_header_file":
                        header = _const_str(call)
                    elif name == "set_pack_format" and call.args and isinstance(call.args[0], ast.Constant):
                        fmt = call.args[0].value
                if src is None:
                    continue
                key = (src, header, fmt)
                if key in seen:
                    continue
                seen.add(key)
                out.append(dict(name=f"{py.stem}.{fn.name}.{k}", src=src, header=header, pack_format=fmt,
                                origin="tests"))
                k += 1
    return out


def from_readme(repo: Path) -> list[dict]:
    p = repo / "README.md"
    if not p.exists():
        return []
    out = []
    for i, m in enumerate(re.finditer(r"```js\n(.*?)```", p.read_text(encoding="utf-8"), re.S)):
        out.append(dict(name=f"README.{i}", src=m.group(1), header=None, pack_format=None, origin="readme"))
    return out


GENERATED = [
    ("fn_basic", 'function f() { say "a"; $x = 1; }\nfunction g.h() { f(); }'),
    ("class_nested", 'class a { function f() { say "x"; } class b { function g() { say "y"; } new advancements(z) { "k": 1 } } }'),
    ("if_else_chain", 'function f() { if ($x == 1) { say "1"; } else if ($x > 2 && $y <= 3) { say "2"; } else { say "3"; } }'),
    ("while_do_for", 'function f() { while ($i < 3) { $i++; } do { $i--; } while ($i > 0); for ($j = 0; $j < 4; $j++) { say "j"; } }'),
    ("switch_case", 'function f() { switch ($x) { case 1: say "a"; break; case 2: say "b"; say "c"; case 3: say "d"; } }'),
    ("switch_blocks", 'function f() { switch ($x) { case 1: if ($y == 1) { say "d"; } case 2: while ($w < 2) { $w++; } say "after"; case 3: say "e"; } }'),
    ("paren_exprs", 'function f() { $s := ($a + 2) * ($b - 1); if (($x == 1) && ($y == 2 || $z == 3)) { say "p"; } }'),
    ("arrow_args", 'Timer.add(t, runOnce, @a, () => { say "done"; });\nfunction f() { Hardcode.repeat((i) => { say "i"; }, start=1, stop=3); }'),
    ("execute_run", 'function f() { execute as @a at @s run { say "x"; tp @s ~ ~1 ~; } execute if ($x matches 1..2) run say "y"; }'),
    ("varops", 'function f() { $a = 1; $a += $b; $a *= 3; $a ??= 2; $a >< $b; $a = obj:@s; obj:@s -= 4; $a = @s::Health; @s::Health = 2; $s := $a + 2 * $b; }'),
    ("nbt_ops", 'function f() { ::a = 1; ::a.b = "s"; @s::tag.x = {a: 1b}; ::l << 3; ::m = ::n; ::m ?= $x; ::a.del(); }'),
    ("new_json", 'new advancements(a.b) { "criteria": { "t": { "trigger": "minecraft:tick" } } }\nnew tags.functions(q) { "values": [] , "x": 1}'),
    ("decorators", '@add(__tick__) function t() { say "t"; }\n@lazy function l(a, b) { say "$a $b"; }\nfunction u() { l(1, 2); }'),
    ("async_schedule", 'function f() { schedule function f 1t; async while ($i < 2) { $i++; } 1t; async for ($k = 0; $k < 2; $k++) { say "k"; } 2s; }'),
    ("load_stmts", '$g = 3;\nsay "load";\nif ($g == 3) { say "three"; }\nfunction f() { return run { say "r"; } }'),
    ("strings_comments", "function f() { // line comment\n  say 'single \\' quote'; # not a comment here\n  say \"esc \\\" \\\\ \\t\"; tellraw @a {\"text\":\"a//b\"}; JMC.python(`\nemit('say 1')\n`); }"),
    ("brackets_mix", 'function f() { tp @e[type=pig, limit=1, nbt={A:[I;1,2], B:{c:"}"}}] ~ ~ ~; data modify storage a:b c set value [{x:1},{y:[1,2]}]; }'),
    ("builtin_calls", 'Player.onEvent(jump, () => { say "j"; });\nfunction f() { Text.tellraw(@a, "&<red>hi"); $r = Math.random(1, 5); $r = Math.sqrt($r); printf("x"); }'),
    ("return_with", 'function f() { g() with storage::path; return 1; return run f(); if ($x) return 1; }\nfunction g() { $say "$(k)"; }'),
]


def generated() -> list[dict]:
    return [dict(name=f"gen.{n}", src=s, header=None, pack_format=None, origin="generated") for n, s in GENERATED]


def corpus(repo: Path) -> list[dict]:
    return from_tests(repo) + from_readme(repo) + generated()
