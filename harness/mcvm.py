"""mcvm — a plain Python interpreter of the Minecraft command subset JMC emits.

UNTRUSTED: used only by the *search* for failing inputs (DESIGN.md 2.3) and to
confirm known findings on the real emitted text.  It mirrors coq/MC/Sem.v.
"""
from __future__ import annotations

import re

INT_MIN, INT_MAX = -(2**31), 2**31 - 1


def wrap(x: int) -> int:
    x &= 0xFFFFFFFF
    return x - (1 << 32) if x >= (1 << 31) else x


def floordiv(a, b):
    return a // b


class Invalid(Exception):
    """The command text is not a valid Minecraft command (function would not load)."""


class OutOfFuel(Exception):
    pass


class VM:
    def __init__(self, funcs: dict[str, str], ns: str = "TEST", max_steps: int = 200000, max_depth: int = 400):
        """funcs: {"ns:path": text} or {"path": text} (namespace-less keys are looked up after stripping 'ns:')."""
        self.funcs = funcs
        self.ns = ns
        self.s: dict[tuple[str, str], int] = {}
        self.storage: dict[str, int] = {}
        self.trace: list[str] = []
        self.steps = 0
        self.depth = 0
        self.max_steps, self.max_depth = max_steps, max_depth

    # -- scores
    def get(self, h, o):
        return self.s.get((h, o))

    def rd(self, h, o):
        v = self.s.get((h, o))
        if v is None:
            self.s[(h, o)] = 0
            return 0
        return v

    @staticmethod
    def _int(txt, lo=INT_MIN, hi=INT_MAX):
        if not re.fullmatch(r"-?\d+", txt):
            raise Invalid(f"not an integer: {txt!r}")
        n = int(txt)
        if not lo <= n <= hi:
            raise Invalid(f"integer out of range: {txt}")
        return n

    def match(self, v, r):
        if ".." in r:
            a, b = r.split("..", 1)
            lo = self._int(a) if a else INT_MIN
            hi = self._int(b) if b else INT_MAX
            if a and b and lo > hi:
                raise Invalid(f"range min > max: {r}")
            ok = v is not None and lo <= v <= hi
        else:
            n = self._int(r)
            ok = v is not None and v == n
        return ok

    # -- functions
    def lookup(self, name):
        if name in self.funcs:
            return self.funcs[name]
        if ":" in name:
            ns, path = name.split(":", 1)
            if ns.lower() == self.ns.lower() and path in self.funcs:
                return self.funcs[path]
        return None

    def run_func(self, name, margs=None):
        body = self.lookup(name)
        if body is None:
            return False
        self.depth += 1
        if self.depth > self.max_depth:
            raise OutOfFuel("depth")
        for line in body.split("\n"):
            if line == "":
                continue
            if line.startswith("$"):
                if margs is None:
                    raise Invalid("macro line in function called without arguments")
                line = re.sub(r"\$\((\w+)\)", lambda m: str(margs[m.group(1)]), line[1:])
            self.cmd(line)
        self.depth -= 1
        return True

    def run_lines(self, text):
        for line in text.split("\n"):
            if line:
                self.cmd(line)

    # -- commands; returns (success: bool, result: int)
    def cmd(self, line):
        self.steps += 1
        if self.steps > self.max_steps:
            raise OutOfFuel("steps")
        t = line.split(" ")
        if t[0] == "say":
            self.trace.append(line[4:])
            return True, 1
        if t[0] == "function":
            name = t[1]
            margs = None
            if len(t) > 2:
                if t[2:4] != ["with", "storage"] or len(t) < 5:
                    raise Invalid(line)
                stor = t[4]
                margs = {k.split(" ", 1)[1]: v for k, v in self.storage.items() if k.startswith(stor + " ")}
            ok = self.run_func(name, margs)
            return ok, 0
        if t[0] == "scoreboard" and len(t) > 1 and t[1] == "objectives":
            return True, 1
        if t[0] == "scoreboard" and t[1] == "players":
            sub = t[2]
            if sub in ("set", "add", "remove"):
                if len(t) != 6:
                    raise Invalid(line)
                h, o = t[3], t[4]
                if sub == "set":
                    n = self._int(t[5])
                    self.s[(h, o)] = n
                    return True, n
                n = self._int(t[5], 0, INT_MAX)
                r = wrap(self.rd(h, o) + (n if sub == "add" else -n))
                self.s[(h, o)] = r
                return True, r
            if sub == "get":
                v = self.get(t[3], t[4])
                return (True, v) if v is not None else (False, 0)
            if sub == "reset":
                self.s.pop((t[3], t[4]), None)
                return True, 1
            if sub == "operation":
                if len(t) != 8:
                    raise Invalid(line)
                h, o, op, h2, o2 = t[3:8]
                a = self.rd(h, o)
                b = self.rd(h2, o2)
                if op == "=":
                    r = b
                elif op == "+=":
                    r = wrap(a + b)
                elif op == "-=":
                    r = wrap(a - b)
                elif op == "*=":
                    r = wrap(a * b)
                elif op == "/=":
                    if b == 0:
                        return False, 0
                    r = wrap(a // b)
                elif op == "%=":
                    if b == 0:
                        return False, 0
                    r = wrap(a % b)
                elif op == "<":
                    r = min(a, b)
                elif op == ">":
                    r = max(a, b)
                elif op == "><":
                    self.s[(h, o)] = b
                    self.s[(h2, o2)] = a
                    return True, b
                else:
                    raise Invalid(line)
                self.s[(h, o)] = r
                return True, r
            raise Invalid(line)
        if t[0] == "execute":
            i = 1
            stores = []

            def fail():
                for kind, dest in stores:
                    self._store(dest, 0)
                return False, 0
            while i < len(t):
                w = t[i]
                if w in ("if", "unless"):
                    neg = w == "unless"
                    if t[i + 1] != "score":
                        raise Invalid("unsupported execute condition: " + line)
                    h, o = t[i + 2], t[i + 3]
                    if t[i + 4] == "matches":
                        ok = self.match(self.get(h, o), t[i + 5])
                        i += 6
                    else:
                        op, h2, o2 = t[i + 4], t[i + 5], t[i + 6]
                        i += 7
                        a, b = self.get(h, o), self.get(h2, o2)
                        if op not in ("=", "<", "<=", ">", ">="):
                            raise Invalid(line)
                        if a is None or b is None:
                            ok = False
                        else:
                            ok = {"=": a == b, "<": a < b, "<=": a <= b, ">": a > b, ">=": a >= b}[op]
                    if ok == neg:
                        return fail()
                elif w == "store":
                    kind = t[i + 1]
                    if kind not in ("result", "success"):
                        raise Invalid(line)
                    if t[i + 2] == "score":
                        stores.append((kind, ("score", t[i + 3], t[i + 4])))
                        i += 5
                    elif t[i + 2] == "storage":
                        # storage <id> <path> <type> <scale>
                        stores.append((kind, ("storage", t[i + 3] + " " + t[i + 4])))
                        i += 7
                    else:
                        raise Invalid("unsupported store: " + line)
                elif w == "run":
                    ok, r = self.cmd(" ".join(t[i + 1:]))
                    for kind, dest in stores:
                        self._store(dest, r if kind == "result" else (1 if ok else 0))
                    return ok, r
                else:
                    raise Invalid("unsupported execute clause: " + line)
            return True, 1
        if t[0] == "schedule":
            self.trace.append("<schedule> " + line)
            return True, 1
        # any other command: no effect on scores; recorded
        self.trace.append("<other> " + line)
        return True, 1

    def _store(self, dest, v):
        if dest[0] == "score":
            self.s[(dest[1], dest[2])] = v
        else:
            self.storage[dest[1]] = v
