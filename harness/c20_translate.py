"""C20 helper — fail-closed translator: text of an .mcfunction file -> Coq terms of MC.Syntax.cmd.

Only the command forms that Math.sqrt / Math.random emit are recognised; anything else raises
Untranslatable (the caller turns that into a correspondence failure, never into a skip).
The translator is *not trusted*: coq/Run/C20.v checks that the produced terms print back
(MC.Print.pr_cmds) to exactly the text they were made from.
"""
from __future__ import annotations

import re

from lib import coq_str, coq_z


class Untranslatable(Exception):
    pass


_INT = re.compile(r"-?\d+\Z")
_SOPS = {"=": "OAssign", "+=": "OAdd", "-=": "OSub", "*=": "OMul", "/=": "ODiv", "%=": "OMod",
         "<": "OMin", ">": "OMax", "><": "OSwap"}
_CMPS = {"<": "CLt", "<=": "CLe", "=": "CEq", ">=": "CGe", ">": "CGt"}
# commands without effect on scores that setup.mcfunction contains (MC.Syntax.COther)
_OTHER_PREFIXES = ("summon ", "kill ", "data get ")


def _int(tok: str, line: str) -> int:
    # canonical decimal only: "-0", "+5", "007" would not print back identically
    if not _INT.match(tok) or (tok != str(int(tok))):
        raise Untranslatable(f"not a canonical integer {tok!r} in: {line}")
    return int(tok)


def _score(holder: str, obj: str, line: str) -> str:
    if not holder or not obj:
        raise Untranslatable(f"empty score component in: {line}")
    return f"({coq_str(holder)}, {coq_str(obj)})"


def _range(tok: str, line: str) -> str:
    if ".." in tok:
        a, b = tok.split("..", 1)
        if a and b:
            return f"(Between {coq_z(_int(a, line))} {coq_z(_int(b, line))})"
        if a:
            return f"(From {coq_z(_int(a, line))})"
        if b:
            return f"(To {coq_z(_int(b, line))})"
        raise Untranslatable(f"empty range in: {line}")
    return f"(Exact {coq_z(_int(tok, line))})"


def parse_tokens(t: list[str], line: str) -> str:
    if len(t) >= 2 and t[0] == "scoreboard" and t[1] == "players":
        if len(t) == 6 and t[2] in ("set", "add", "remove"):
            ctor = {"set": "CSet", "add": "CAdd", "remove": "CRemove"}[t[2]]
            return f"({ctor} {_score(t[3], t[4], line)} {coq_z(_int(t[5], line))})"
        if len(t) == 8 and t[2] == "operation" and t[5] in _SOPS:
            return f"(COp {_score(t[3], t[4], line)} {_SOPS[t[5]]} {_score(t[6], t[7], line)})"
        raise Untranslatable(f"unrecognised scoreboard command: {line}")
    if t[0] == "function":
        if len(t) != 2 or not t[1]:
            raise Untranslatable(f"unrecognised function call: {line}")
        return f"(CCall {coq_str(t[1])})"
    if t[0] == "execute":
        mods = []
        i = 1
        while True:
            if i >= len(t):
                raise Untranslatable(f"execute without run: {line}")
            w = t[i]
            if w == "run":
                if i + 1 >= len(t):
                    raise Untranslatable(f"empty run clause: {line}")
                body_tokens = t[i + 1:]
                body_text = " ".join(body_tokens)
                if body_text.startswith(_OTHER_PREFIXES):
                    body = f"(COther {coq_str(body_text)})"
                else:
                    body = parse_tokens(body_tokens, line)
                return f"(CExecute [{'; '.join(mods)}] {body})"
            if w in ("if", "unless"):
                pos = "true" if w == "if" else "false"
                if i + 5 < len(t) and t[i + 1] == "score" and t[i + 4] == "matches":
                    mods.append(f"MIf {pos} (Matches {_score(t[i + 2], t[i + 3], line)} {_range(t[i + 5], line)})")
                    i += 6
                    continue
                if i + 6 < len(t) and t[i + 1] == "score" and t[i + 4] in _CMPS:
                    mods.append(f"MIf {pos} (Cmp {_score(t[i + 2], t[i + 3], line)} {_CMPS[t[i + 4]]} "
                                f"{_score(t[i + 5], t[i + 6], line)})")
                    i += 7
                    continue
                raise Untranslatable(f"unrecognised execute condition: {line}")
            if w == "store":
                if i + 4 < len(t) and t[i + 1] in ("result", "success") and t[i + 2] == "score":
                    kind = "SResult" if t[i + 1] == "result" else "SSuccess"
                    mods.append(f"MStore {kind} (DScore {_score(t[i + 3], t[i + 4], line)})")
                    i += 5
                    continue
                raise Untranslatable(f"unrecognised execute store: {line}")
            raise Untranslatable(f"unrecognised execute clause {w!r}: {line}")
    raise Untranslatable(f"unrecognised command: {line}")


def parse_line(line: str) -> str:
    if line == "" or line != line.strip() or "  " in line:
        raise Untranslatable(f"blank line or irregular spacing: {line!r}")
    if line.startswith(_OTHER_PREFIXES):
        return f"(COther {coq_str(line)})"
    return parse_tokens(line.split(" "), line)


def parse_function(text: str) -> list[str]:
    """Coq terms for every line of a function file (no line is skipped)."""
    if text == "":
        return []
    return [parse_line(ln) for ln in text.split("\n")]
