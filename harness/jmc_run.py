"""Runs the real JMC compiler (from $JMC_REPO, default /repo) on a batch of jobs.

Executed with /venv/bin/python and PYTHONPATH=<repo>/src by harness/lib.py.
stdin : JSON list of jobs {src, header?, cert?, pack_format?, envs?, namespace?}
stdout: JSON list of results
   {"ok": true, "files": {path: content}}
   {"ok": false, "exc": <exception class name>, "jmc": <bool: one of JMC's own diagnostics>,
    "msg": <str(exception)>, "frame": [file, function, lineno] of innermost jmc frame}
Every job runs under signal.alarm(job.get("timeout", 10)) -> exc "Timeout".
"""
import json
import os
import signal
import sys
import traceback


class _Timeout(BaseException):
    pass


def _alarm(signum, frame):
    raise _Timeout()


def jmc_exception_classes():
    from jmc.compile import exception as E
    out = []
    for name in dir(E):
        obj = getattr(E, name)
        if isinstance(obj, type) and issubclass(obj, Exception) and obj.__module__ == E.__name__:
            out.append(obj)
    return tuple(out)


def innermost_jmc_frame(tb):
    frames = traceback.extract_tb(tb)
    for fr in reversed(frames):
        if "/jmc/" in fr.filename:
            return [os.path.basename(fr.filename), fr.name, fr.lineno]
    return None


def run_job(job, JMCTestPack, jmc_excs):
    signal.alarm(int(job.get("timeout", 10)))
    try:
        p = JMCTestPack(namespace=job.get("namespace", "TEST"))
        p.set_jmc_file(job["src"])
        if job.get("header") is not None:
            p.set_header_file(job["header"])
        if job.get("cert") is not None:
            p.set_cert(job["cert"])
        if job.get("pack_format") is not None:
            p.set_pack_format(job["pack_format"])
        if job.get("envs"):
            p.set_envs(job["envs"])
        built = p.build().built
        return {"ok": True, "files": built}
    except _Timeout:
        return {"ok": False, "exc": "Timeout", "jmc": False, "msg": "", "frame": None}
    except BaseException as e:  # noqa
        signal.alarm(0)
        return {
            "ok": False,
            "exc": type(e).__name__,
            "jmc": isinstance(e, jmc_excs),
            "msg": str(e)[:2000],
            "frame": innermost_jmc_frame(e.__traceback__),
        }
    finally:
        signal.alarm(0)


def main():
    import logging
    logging.disable(logging.CRITICAL)
    from jmc.compile.test_compile import JMCTestPack
    jmc_excs = jmc_exception_classes()
    signal.signal(signal.SIGALRM, _alarm)
    jobs = json.load(sys.stdin)
    # keep stdout clean: the compiler may print
    real_stdout = sys.stdout
    sys.stdout = open(os.devnull, "w")
    out = [run_job(j, JMCTestPack, jmc_excs) for j in jobs]
    sys.stdout = real_stdout
    json.dump(out, sys.stdout)


if __name__ == "__main__":
    main()
