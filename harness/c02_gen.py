"""C02 helpers: expression trees, their rendering (mirror of coq/Model/ExprSpec.v `render`), Coq terms,
generators, and the source-level oracle (standard precedence / wrap / floor division)."""
from __future__ import annotations

import ast
import itertools

from lib import INT_MAX, INT_MIN, coq_str, coq_z
from mcvm import wrap

# expression trees:  ("v", text) | ("c", z) | ("neg", e) | ("par", e) | ("bin", op, l, r)
OPS = ["+", "-", "*", "/", "%", "**"]
OPC = {"": "PEmpty", "+": "PAdd", "-": "PSub", "*": "PMul", "/": "PDiv", "%": "PMod", "**": "PPow"}
BIN = {"+": "BAdd", "-": "BSub", "*": "BMul", "/": "BDiv", "%": "BMod", "**": "BPow"}
FORMS = ["", "+", "-", "*", "/", "%"]


# ------------------------------------------------------------------ selector spellings
def clean_sel(s: str) -> str:
    """mirror of ExprSpec.clean_sel (= clean_up_paren_token on the spellings generated here): blanks, tabs and
    line breaks outside double-quoted strings are dropped, double-quoted strings are kept verbatim.
    Cross-checked against Coq's clean_sel on every run (c02.eval_check)."""
    out, in_string = [], False
    for ch in s:
        if in_string or ch not in " \t\n":
            out.append(ch)
        if ch == '"':
            in_string = not in_string
    return "".join(out)


def canon_var(text: str) -> str:
    """variable text with its selector cleaned (`$x` unchanged)"""
    if text.startswith("$"):
        return text
    obj, sel = text.split(":", 1)
    return obj + ":" + clean_sel(sel)


# spellings of ONE score holder each (the first is the compact one = what JMC emits)
SPELL_X = ["@e[tag=x,limit=1]",             # compact
           "@e[tag=x, limit=1]",            # blank after the comma
           "@e[tag = x,limit = 1]",         # blanks around `=`
           "@e[ tag=x,limit=1 ]",           # blank after `[` / before `]`
           "@e[tag=x,\n      limit=1]",     # line break inside the bracket
           "@e[tag=x,\tlimit=1]",           # tab
           "@e [tag=x,limit=1]",            # blank between selector and bracket
           "@e[\n  tag = x ,\n  limit=1\n]"]
SPELL_Q = ['@e[name="a b",limit=1]',        # a double-quoted value containing a blank
           '@e[name="a b", limit=1]',
           '@e[ name = "a b" ,\n limit=1]']
# a DIFFERENT argument order is a DIFFERENT holder text: another score for JMC and for the oracle
SPELL_X_SWAPPED = ["@e[limit=1,tag=x]", "@e[limit=1, tag=x]", "@e[ limit = 1,\ttag=x ]"]
SPELL_Q_SWAPPED = ['@e[limit=1,name="a b"]', '@e[limit=1, name="a b" ]',
                   '@e[name="ab",limit=1]', '@e[name="ab", limit=1]']        # differs by the blank INSIDE the string
SPELL_FAMILIES = [(SPELL_X, SPELL_X_SWAPPED), (SPELL_Q, SPELL_Q_SWAPPED)]


def is_bracketed(text: str) -> bool:
    return "[" in text


def spelled_pool(rng, obj="obj"):
    """-> (target, same-holder spellings, other-holder variables) for the random streams"""
    same, swapped = rng.choice([SPELL_FAMILIES[0], SPELL_FAMILIES[0], SPELL_FAMILIES[1]])
    target = f"{obj}:{rng.choice(same)}"
    others = [f"{obj}:{rng.choice(same)}" for _ in range(2)]
    diff = [f"{obj}:{rng.choice(swapped)}", f"{obj}2:{rng.choice(same)}"]
    return target, others, diff


def spelling_cases():
    """exhaustive-small stream: every (target spelling, operand spelling) pair of each family in thirteen shapes
    -> list of (expression, target, form, (target spelling, operand spelling))"""
    out = []
    a = ("v", "$a")
    for same, swapped in SPELL_FAMILIES:
        n = len(same)
        for i, ts in enumerate(same):
            for j, os_ in enumerate(same):
                T, T1 = f"obj:{ts}", ("v", f"obj:{os_}")
                T2 = ("v", f"obj:{same[(i + 2 * j + 1) % n]}")          # a third spelling of the same holder
                D = ("v", f"obj:{swapped[(i + j) % len(swapped)]}")      # the other holder
                O2 = ("v", f"obj2:{os_}")                                # other objective, same selector
                f1 = FORMS[(i + j) % 6]
                f2 = FORMS[1 + (i + 2 * j) % 5]
                shapes = [
                    (("bin", "+", ("bin", "*", a, ("c", 2)), T1), ""),            # T := $a * 2 + T'   (the seeded bug)
                    (("bin", "+", T1, a), ""),                                      # T := T' + $a
                    (("bin", "-", a, T1), ""),                                      # T := $a - T'
                    (("bin", "*", ("par", ("bin", "+", a, T1)), T2), ""),           # T := ($a + T') * T''
                    (("bin", "*", T1, ("c", 2)), f2),                               # T :+= T' * 2 ...
                    (("neg", T1), f1),                                              # T := -T'
                    (("bin", "+", ("bin", "**", T1, ("c", 2)), T2), ""),            # T := T' ** 2 + T''
                    (("bin", "+", ("bin", "*", a, ("c", 2)), D), ""),               # other holder: may be overwritten first
                    (("bin", "-", ("bin", "+", ("bin", "*", a, ("c", 2)), O2), D), f1),
                    (("bin", "-", ("bin", "/", a, T1), T2), f1),                    # T :<form>= $a / T' - T''
                    (("bin", "+", ("bin", "-", ("c", 0), ("bin", "*", a, D)), T1), ""),   # T := 0 - $a * D + T'
                    (T1, f2),                                                       # T :+= T'
                    (("bin", "-", ("bin", "*", D, ("c", 2)), a), ""),               # other holder LEFT-MOST: it is not the target
                ]
                for e, form in shapes:
                    out.append((e, T, form, (ts, os_)))
    return out


# ------------------------------------------------------------------ rendering (mirror of ExprSpec.render)
def lvl(e):
    k = e[0]
    if k in ("v", "par"):
        return 5
    if k == "c":
        return 3 if e[1] < 0 else 5
    if k == "neg":
        return 3
    op = e[1]
    return 4 if op == "**" else 2 if op in "*/%" else 1


NEED_L = {"+": 1, "-": 1, "*": 2, "/": 2, "%": 2, "**": 5}
NEED_R = {"+": 2, "-": 2, "*": 3, "/": 3, "%": 3, "**": 3}


def render(e):
    """-> list of tokens ("num", z) | ("var", text) | ("op", s) | ("paren", [tokens])"""
    def ctx(need, e1):
        r = render(e1)
        return [("paren", r)] if lvl(e1) < need else r
    k = e[0]
    if k == "v":
        return [("var", e[1])]
    if k == "c":
        return [("op", "-"), ("num", -e[1])] if e[1] < 0 else [("num", e[1])]
    if k == "neg":
        return [("op", "-")] + ctx(5, e[1])
    if k == "par":
        return [("paren", render(e[1]))]
    _, op, l, r = e
    return ctx(NEED_L[op], l) + [("op", op)] + ctx(NEED_R[op], r)


def show_toks(toks) -> str:
    """canonical text (single spaces) — must equal Coq's show_toks (render e)"""
    out = []
    for t in toks:
        if t[0] == "num":
            out.append(str(t[1]))
        elif t[0] in ("var", "op"):
            out.append(t[1])
        else:
            out.append("( " + show_toks(t[1]) + " )")
    return " ".join(out)


def layout(toks, rng, style: int) -> str:
    """source text of the tokens; style 0 = canonical single spaces; other styles vary the white space
    (never removing the space between two operator tokens or two keywords)."""
    def sep():
        if style == 0:
            return " "
        r = rng.random()
        if style == 2 and r < 0.15:
            return "\n      "
        return " " if r < 0.7 else "  "
    out = ""
    prev = None
    for t in toks:
        if t[0] == "paren":
            inner = layout(t[1], rng, style)
            pad = "" if (style and rng.random() < 0.5) else " "
            s = "(" + pad + inner + pad + ")"
        elif t[0] == "num":
            s = str(t[1])
        else:
            s = t[1]
        if prev is None:
            out = s
        else:
            glue_ok = style and prev[0] == "op" and prev[1] == "-" and t[0] != "op" and prev_unary
            if glue_ok and rng.random() < 0.6:
                out += s
            elif style and ((prev[0] in ("num", "var", "paren")) != (t[0] in ("num", "var", "paren"))) \
                    and not (prev[0] == "op" and t[0] == "op") and rng.random() < 0.3 \
                    and not (t[0] == "op" and t[1] == "-") and not (prev[0] == "op"):
                # keyword directly followed by a binary operator, e.g. `$a+`
                out += s
            else:
                out += sep() + s
        # is this token a unary minus?  (a '-' at the start or after an operator)
        prev_unary = t[0] == "op" and t[1] == "-" and (prev is None or prev[0] == "op")
        prev = t
    return out


# ------------------------------------------------------------------ Coq terms
def svar_term(text: str) -> str:
    if text.startswith("$"):
        return f"(SDollar {coq_str(text)})"
    obj, sel = text.split(":", 1)
    return f"(SObjSel {coq_str(obj)} {coq_str(sel)})"


def expr_term(e) -> str:
    k = e[0]
    if k == "v":
        return f"(EVar {svar_term(e[1])})"
    if k == "c":
        return f"(EConst {coq_z(e[1])})"
    if k == "neg":
        return f"(ENeg {expr_term(e[1])})"
    if k == "par":
        return f"(EPar {expr_term(e[1])})"
    return f"(EBin {BIN[e[1]]} {expr_term(e[2])} {expr_term(e[3])})"


# ------------------------------------------------------------------ meaning (oracle; mirrors ExprSpec.eval)
def binop_sem(op, a, b):
    if op == "+":
        return wrap(a + b)
    if op == "-":
        return wrap(a - b)
    if op == "*":
        return wrap(a * b)
    if op == "/":
        return None if b == 0 else wrap(a // b)
    if op == "%":
        return None if b == 0 else wrap(a % b)
    if op == "**":
        return None if b < 0 else wrap(pow(a, b, 1 << 32))
    raise ValueError(op)


def eval_expr(e, env):
    k = e[0]
    if k == "v":
        return env[e[1]]
    if k == "c":
        return e[1]
    if k == "neg":
        a = eval_expr(e[1], env)
        return None if a is None else wrap(-a)
    if k == "par":
        return eval_expr(e[1], env)
    a, b = eval_expr(e[2], env), eval_expr(e[3], env)
    if a is None or b is None:
        return None
    return binop_sem(e[1], a, b)


def max_exponent(e, env):
    """largest exponent a `**` node is evaluated with (None-safe); used to keep Coq's Z.pow small"""
    k = e[0]
    if k in ("v", "c"):
        return 0
    if k in ("neg", "par"):
        return max_exponent(e[1], env)
    m = max(max_exponent(e[2], env), max_exponent(e[3], env))
    if e[1] == "**":
        b = eval_expr(e[3], env)
        m = max(m, abs(b) if b is not None else 0)
    return m


def form_sem(form, old, v):
    if v is None:
        return None
    return v if form == "" else binop_sem(form, old, v)


def eval_text(text: str, env: dict):
    """Independent evaluation of the rendered text with PYTHON's grammar (precedence, associativity,
    unary minus) and the same arithmetic — cross-checks `render`."""
    names = {}
    src = text
    for i, v in enumerate(sorted(env, key=len, reverse=True)):
        names[f"V{i}_"] = env[v]
        src = src.replace(v, f"V{i}_")
    node = ast.parse(src.replace("\n", " ").strip(), mode="eval").body
    opmap = {ast.Add: "+", ast.Sub: "-", ast.Mult: "*", ast.Div: "/", ast.Mod: "%", ast.Pow: "**"}

    def ev(n):
        if isinstance(n, ast.BinOp):
            a, b = ev(n.left), ev(n.right)
            if a is None or b is None:
                return None
            return binop_sem(opmap[type(n.op)], a, b)
        if isinstance(n, ast.UnaryOp) and isinstance(n.op, ast.USub):
            a = ev(n.operand)
            return None if a is None else wrap(-a)
        if isinstance(n, ast.Name):
            return names[n.id]
        if isinstance(n, ast.Constant):
            return n.value
        raise ValueError(ast.dump(n))
    return ev(node)


def size(e):
    k = e[0]
    if k in ("v", "c"):
        return 1
    if k in ("neg", "par"):
        return 1 + size(e[1])
    return 1 + size(e[2]) + size(e[3])


def depth(e):
    k = e[0]
    if k in ("v", "c"):
        return 0
    if k in ("neg", "par"):
        return depth(e[1])
    return 1 + max(depth(e[2]), depth(e[3]))


def vars_of(e, acc=None):
    acc = set() if acc is None else acc
    if e[0] == "v":
        acc.add(e[1])
    elif e[0] in ("neg", "par"):
        vars_of(e[1], acc)
    elif e[0] == "bin":
        vars_of(e[2], acc)
        vars_of(e[3], acc)
    return acc


# ------------------------------------------------------------------ generators
def leaves(target):
    return [("v", "$a"), ("v", "$b"), ("v", target), ("v", "obj:@s"), ("c", 0), ("c", 1), ("c", 2), ("c", -3), ("c", 7)]


def exhaustive_depth1(target):
    L = leaves(target)
    out = list(L)
    for op in OPS:
        for l, r in itertools.product(L, L):
            out.append(("bin", op, l, r))
    return out


def random_expr(rng, target, d, const_pool, var_pool, p_leaf=0.25):
    if d == 0 or rng.random() < p_leaf:
        if rng.random() < 0.55:
            return ("v", rng.choice(var_pool))
        return ("c", rng.choice(const_pool))
    r = rng.random()
    if r < 0.07:
        return ("neg", random_expr(rng, target, d - 1, const_pool, var_pool, p_leaf))
    if r < 0.12:
        return ("par", random_expr(rng, target, d - 1, const_pool, var_pool, p_leaf))
    op = rng.choice(["+", "-", "*", "/", "%", "+", "-", "*", "+", "-", "**"])
    l = random_expr(rng, target, d - 1, const_pool, var_pool, p_leaf)
    if op == "**":
        # the exponent is a literal (the compiler folds constant powers with Python ints: keep them small),
        # rarely something the compiler must reject
        rr = ("c", rng.choice([0, 1, 2, 2, 3, 3, 4, 5, 6, 7])) if rng.random() < 0.9 else \
            rng.choice([("v", rng.choice(var_pool)), ("c", -1), ("neg", ("v", rng.choice(var_pool))), ("par", ("c", 2))])
    else:
        rr = random_expr(rng, target, d - 1, const_pool, var_pool, p_leaf)
    return ("bin", op, l, rr)


def random_arith(rng, d, var_pool, p_leaf=0.2, p_par=0.08):
    """trees of + - * / % over variables only (the fragment of C02_partial), redundant parentheses now and then"""
    if d == 0 or rng.random() < p_leaf:
        return ("v", rng.choice(var_pool))
    if rng.random() < p_par:
        return ("par", random_arith(rng, d - 1, var_pool, p_leaf, p_par))
    op = rng.choice(["+", "-", "*", "/", "%", "+", "-", "*"])
    return ("bin", op, random_arith(rng, d - 1, var_pool, p_leaf, p_par), random_arith(rng, d - 1, var_pool, p_leaf, p_par))


def chain_expr(rng, target, const_pool, var_pool):
    """flat chains `o1 op o2 op o3 ...` (2-6 operators, no parentheses): the shape that stresses the
    shunting-yard and optimize_const's grouping."""
    n = rng.randint(2, 6)
    fam = rng.choice([["+", "-"], ["*"], ["*", "/"], ["+", "-", "*"], ["/"], ["%"], OPS[:5], OPS])

    def operand():
        if rng.random() < 0.5:
            return ("v", rng.choice(var_pool))
        return ("c", rng.choice(const_pool))
    ops = [rng.choice(fam) for _ in range(n)]
    operands = [operand() for _ in range(n + 1)]
    for i, o in enumerate(ops):
        if o == "**":
            if i >= 2 and ops[i - 1] == "**" and ops[i - 2] == "**":
                ops[i] = o = "*"            # no power towers of height > 2 (constant folding would not terminate)
            else:
                operands[i + 1] = ("c", rng.choice([0, 1, 2, 3]))
    # build the tree by standard precedence: parse the flat list (precedence climbing)
    prec = {"+": 1, "-": 1, "*": 2, "/": 2, "%": 2, "**": 4}

    def parse(lo, i):
        lhs = operands[i]
        while i < n and prec[ops[i]] >= lo:
            o = ops[i]
            if o == "**":
                rhs, j = parse(prec[o], i + 1)          # right associative
            else:
                rhs, j = parse(prec[o] + 1, i + 1)
            lhs = ("bin", o, lhs, rhs)
            i = j
        return lhs, i
    e, _ = parse(1, 0)
    return e
