"""Copy staged seeded changes (/root/seeded_stage/<id>/) into /verif/seeded/<id>/ and (re)write meta verdict fields + SUMMARY.md.

  assemble_seeded.py add <round> <first-run-log> <suffixes>   add staged seeds with these suffixes (e.g. g,h); first verdict from the log
  assemble_seeded.py final <run-log> [suffixes]                set final_verdict_of_check from a later run log
  assemble_seeded.py summary                                   rewrite seeded/SUMMARY.md from the meta files
A run log is the output of /root/seeded_stage/runseeds.py run (one line `<id> {json}` per seed).  Not part of any registered check.
"""
import json
import os
import shutil
import sys

VERIF = os.path.dirname(os.path.dirname(os.path.abspath(__file__)))
STAGE = "/root/seeded_stage"
SEEDED = os.path.join(VERIF, "seeded")


def read_log(p):
    out = {}
    for line in open(p):
        if not line.startswith("C") or " " not in line:
            continue
        sid, js = line.split(" ", 1)
        try:
            out[sid] = json.loads(js)
        except ValueError:
            pass
    return out


def verdict(r):
    if r is None:
        return None
    if r.get("apply") not in (None, 0):
        return "n/a (stale)"
    if r.get("rc") == 1 and r.get("n"):
        return "detected (no-failing-input-found)" if "no-failing-input-found" in r.get("first", "") else "detected (concrete failing input)"
    if r.get("rc") == 0:
        return "missed"
    return "check error: " + json.dumps(r)[:120]


def add(rnd, log, sufs):
    res = read_log(log)
    for sid in sorted(os.listdir(STAGE)):
        if not (sid[0] == "C" and "-" in sid and sid.split("-")[1] in sufs and os.path.isdir(os.path.join(STAGE, sid))):
            continue
        dst = os.path.join(SEEDED, sid)
        os.makedirs(dst, exist_ok=True)
        for f in ("patch.diff", "demo.py", "notes.md"):
            s = os.path.join(STAGE, sid, f)
            if os.path.exists(s):
                shutil.copy(s, os.path.join(dst, f))
        st = json.load(open(os.path.join(STAGE, sid, "meta.json")))
        prop = sid.split("-")[0]
        meta = {
            "id": sid, "property": prop, "round": int(rnd),
            "origin": "fresh sub-agent given only the property text (and, from round 2, a list of earlier changes to avoid) and its own scratch worktree; nothing from /verif",
            "breaks": f"{prop}: see notes.md", "needs_to_manifest": "see notes.md",
            "base_commit": st.get("base_commit"),
            "what_i_ran": [
                "harness/seedtool.py confirm <dir>: fresh worktree of /repo; demo.py passes on the clean tree; git apply patch.diff; pinned suite (pytest, compared with BASELINE stable_pass) still passes; demo.py fails",
                f"harness/seedtool.py run {prop} <dir> quick: ./check {prop} with JMC_REPO=<worktree with the patch> (equivalent to applying it to /repo: every check reads the tree only through JMC_REPO)"],
            "confirmed": st.get("confirmed"),
            "first_verdict_of_check": verdict(res.get(sid)), "final_verdict_of_check": verdict(res.get(sid)),
            "status": "valid on HEAD"}
        old = os.path.join(dst, "meta.json")
        if os.path.exists(old):
            o = json.load(open(old))
            for k in ("breaks", "needs_to_manifest"):
                if o.get(k) and "see notes.md" not in o[k]:
                    meta[k] = o[k]
        json.dump(meta, open(old, "w"), indent=1, ensure_ascii=False)
        print("added", sid, meta["first_verdict_of_check"])


def final(log, sufs):
    res = read_log(log)
    for sid, r in sorted(res.items()):
        if sufs and sid.split("-")[1] not in sufs:
            continue
        p = os.path.join(SEEDED, sid, "meta.json")
        if not os.path.exists(p):
            continue
        m = json.load(open(p))
        v = verdict(r)
        if m.get("status", "").startswith(("stale", "neutralised")):
            continue
        if m.get("final_verdict_of_check") != v:
            print(sid, m.get("final_verdict_of_check"), "->", v)
        m["final_verdict_of_check"] = v
        json.dump(m, open(p, "w"), indent=1, ensure_ascii=False)


def summary():
    rows = []
    for sid in sorted(os.listdir(SEEDED)):
        p = os.path.join(SEEDED, sid, "meta.json")
        if os.path.exists(p):
            m = json.load(open(p))
            rows.append((sid, m.get("round"), m.get("first_verdict_of_check"), m.get("final_verdict_of_check")))
    with open(os.path.join(SEEDED, "SUMMARY.md"), "w") as f:
        f.write("# Seeded changes: first and final verdict of the property's own check\n\n| id | round | first verdict | final verdict |\n|---|---|---|---|\n")
        for r in rows:
            f.write("| %s | %s | %s | %s |\n" % r)
        f.write("\n")
        for rnd in sorted({r[1] for r in rows}):
            rr = [r for r in rows if r[1] == rnd]
            cnt = lambda i, pre: sum(1 for r in rr if (r[i] or "").startswith(pre))
            f.write(f"Round {rnd}: {len(rr)} changes; first verdict: {cnt(2,'detected (concrete')} concrete, {cnt(2,'detected (no-')} no-failing-input-found, {cnt(2,'missed')} missed; "
                    f"final verdict: {cnt(3,'detected (concrete')} concrete, {cnt(3,'detected (no-')} no-failing-input-found, {cnt(3,'missed')} missed, {cnt(3,'n/a')} n/a (stale or neutralised by a fix: commit).\n\n")
    print(len(rows), "seeds")


if __name__ == "__main__":
    a = sys.argv
    if a[1] == "add":
        add(a[2], a[3], a[4].split(","))
    elif a[1] == "final":
        final(a[2], a[3].split(",") if len(a) > 3 else None)
    elif a[1] == "summary":
        summary()
