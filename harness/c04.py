"""C04 — if / else-if / else chains run exactly one branch, once.

Proof step (Props/C04.v) + correspondence (the text of the caller and of every generated
private function, real compiler vs Model.IfElse/Model.Loop, compared in Coq) + search (the
really emitted functions run in mcvm from every truth assignment, against the JavaScript
meaning of the source)."""
from __future__ import annotations

import itertools

from lib import Check, COMMON_TRUSTED
import c04_gen as G

PROP = "C04"


def braceless(prog, mask=None):
    """source text in which one-command bodies are written without braces
    (`if (c) say "x"; else if (d) say "y"; else say "z";`) — same lowering expected.
    mask = set of branch positions written brace-less (the else is position n); None = all of them."""
    def stmt(s, ind):
        pad = "    " * ind
        if s[0] != "if":
            return G.stmt_src(s, ind)
        out = []
        n = len(s[1])
        for i, (c, body) in enumerate(s[1]):
            kw = "if" if i == 0 else "else if"
            if len(body) == 1 and body[0][0] in ("say", "set", "add", "sub", "ret") and (mask is None or i in mask):
                out.append(f"{pad}{kw} ({G.cond_src(c)}) {G.stmt_src(body[0], 0)}")
            else:
                out.append(f"{pad}{kw} ({G.cond_src(c)}) {{\n" + "\n".join(stmt(x, ind + 1) for x in body) + f"\n{pad}}}")
        if s[2] is not None:
            e = s[2]
            if len(e) == 1 and e[0][0] in ("say", "set", "add", "sub", "ret") and (mask is None or n in mask):
                out.append(f"{pad}else {G.stmt_src(e[0], 0)}")
            else:
                out.append(f"{pad}else {{\n" + "\n".join(stmt(x, ind + 1) for x in e) + f"\n{pad}}}")
        return "\n".join(out)
    return "function f() {\n" + "\n".join(stmt(s, 1) for s in prog) + "\n}\n"


# ---- strengthening round 2 -------------------------------------------------------------------------------

MOD_KINDS = ["one", "self0", "selfsub", "other1", "toggle"]        # bodies of a branch (most modify tested variables)
MOD_ELSE = [None, "one", "prev1", "all1"]


def mod_body(kind, i, used, nm):
    """body of branch i (i = len(used): the else) that changes the variables the chain tests.
    used[j] = variables tested by condition j (each condition is true iff one of them is 1)."""
    mine = used[i] if i < len(used) else []
    others = [v for j, u in enumerate(used) if j != i for v in u if v not in mine]
    if kind == "one":
        return [nm.say(f"M{i}_")]
    if kind == "self0":                    # falsifies the first disjunct of the own test: the chain must not re-test it
        return [("set", mine[0], 0)]
    if kind == "selfsub":
        return [("sub", mine[0], 1)]
    if kind == "other1":                   # makes another branch's test true
        return [("set", (others or mine)[0], 1)]
    if kind == "toggle":                   # own test false, every other test true
        return [("set", v, 0) for v in mine] + [("set", v, 1) for v in others] + [nm.say(f"M{i}_")]
    if kind == "prev1":                    # else body: makes the first test true
        return [("set", used[0][0], 1)]
    if kind == "all1":
        return [("set", v, 1) for u in used for v in u] + [nm.say(f"M{i}_")]
    raise ValueError(kind)


def modifying_items(rng, quick):
    """(a) every chain of <= 2 branches whose bodies CHANGE the tested variables, with every brace style:
    the single-statement forms are where a compiler may be tempted to skip the __if_else__ flag."""
    items = []
    for n in (1, 2):
        for cks in itertools.product("ao", repeat=n):
            used, conds = [], []
            for i, k in enumerate(cks):
                v, w = G.CVARS[2 * i], G.CVARS[2 * i + 1]
                used.append([v] if k == "a" else [v, w])
                conds.append(G.atomic_cond(v) if k == "a" else G.or_cond(v, w))
            kinds = MOD_KINDS if n == 1 else ["one", "self0", "other1", "toggle"]
            for bks in itertools.product(kinds, repeat=n):
                for ek in MOD_ELSE:
                    if n == 1 and ek is None and bks[0] in ("one",):
                        continue
                    nm = G.Names()
                    brs = [(conds[i], mod_body(bks[i], i, used, nm)) for i in range(n)]
                    els = None if ek is None else mod_body(ek, n, used, nm)
                    p = [("if", brs, els), nm.say("after")]
                    single = [i for i in range(n) if len(brs[i][1]) == 1] + ([n] if els is not None and len(els) == 1 else [])
                    items.append(dict(prog=p, cert=0, stream="modifying-bodies"))
                    if single:
                        items.append(dict(prog=p, cert=0, stream="modifying-bodies-braceless", src=braceless(p)))
                    if len(single) > 1:
                        for pos_ in single:
                            items.append(dict(prog=p, cert=0, stream="modifying-bodies-braceless",
                                              src=braceless(p, mask={pos_})))
    # three-branch chains: the modifying body in every position
    for pos_ in range(4):
        for k in ("self0", "other1", "toggle"):
            for has_else in (True, False):
                if pos_ == 3 and not has_else:
                    continue
                used = [["$a"], ["$b", "$c"], ["$d"]]
                conds = [G.atomic_cond("$a"), G.or_cond("$b", "$c"), G.atomic_cond("$d")]
                nm = G.Names()
                kk = [("one" if j != pos_ else k) for j in range(3)]
                brs = [(conds[j], mod_body(kk[j], j, used, nm)) for j in range(3)]
                els = mod_body(("prev1" if k == "self0" else "all1") if pos_ == 3 else "one", 3, used, nm) if has_else else None
                p = [("if", brs, els), nm.say("after")]
                items.append(dict(prog=p, cert=1, stream="modifying-bodies"))
                items.append(dict(prog=p, cert=1, stream="modifying-bodies-braceless", src=braceless(p)))
    return items


def shared_or_items(rng, quick):
    """(b) chains (and sequences / nests) in which two NON-adjacent conditions contain an identically written
    `||` part and a different `||` part stands between them: every condition numbers its helpers from
    __logic__0 again, so nothing computed for one condition may be reused for another."""
    a, b, c, d = (G.pos(v, i) for i, v in enumerate(["$a", "$b", "$c", "$d"]))
    subs = {"A": G.OR(a, b), "B": G.OR(c, d), "C": G.OR(b, G.AND(d, a)), "N": G.NOT(G.AND(a, c)),
            "R": G.OR(a, G.AND(b, G.OR(c, d)))}
    patterns = ["ABA", "ABAB", "ABBA", "AABA", "ABCA", "ANA", "NAN", "ABAC", "RBR", "ARA"]
    items = []
    for pi, pat in enumerate(patterns):
        for guard_first in (False, True):
            seen = {}
            conds = []
            for ch in pat:
                occ = seen.get(ch, 0)
                seen[ch] = occ + 1
                if pat.count(ch) > 1:
                    g = G.A("$m", "==", occ) if occ < 2 else G.A("$m", ">=", 2)
                    f = G.AND(g, subs[ch]) if guard_first else G.AND(subs[ch], g)
                else:
                    f = subs[ch]
                conds.append([("f", f)])
            for has_else in (True, False):
                nm = G.Names()
                brs = [(cd, [nm.say(f"S{j}_")] if j % 2 else [nm.say(f"S{j}_"), nm.say(f"S{j}_")]) for j, cd in enumerate(conds)]
                p = [("if", brs, [nm.say("E")] if has_else else None), nm.say("after")]
                items.append(dict(prog=p, cert=pi % 2, stream="shared-or-chain", cap=64, values={"$m": (0, 1, 2)}))
            if guard_first:
                continue
            # the same conditions as separate statements (also with bodies that change the tested variables, so
            # that an identically written condition has to be evaluated again), and nested in the first branch's body
            nm = G.Names()
            p = [("if", [(cd, [nm.say(f"Q{j}_")])], None) for j, cd in enumerate(conds)] + [nm.say("after")]
            items.append(dict(prog=p, cert=0, stream="shared-or-sequence", cap=64, values={"$m": (0, 1, 2)}))
            for variant in (0, 1):
                nm = G.Names()
                p = []
                for j, cd in enumerate([[("f", subs[ch])] for ch in pat]):      # no $m guards here
                    vs = G.f_vars(G.cond_formula(cd))
                    body = [("set", v, variant) for v in vs] + ([nm.say(f"Q{j}_")] if (j + variant) % 2 else [])
                    p.append(("if", [(cd, body)], None))
                items.append(dict(prog=p + [nm.say("after")], cert=0, stream="shared-or-sequence-modifying", cap=64,
                                  values={"$m": (0, 1, 2)}))
            nm = G.Names()
            inner = [("if", [(cd, [nm.say(f"I{j}_")])], None) for j, cd in enumerate(conds[1:-1])]
            p = [("if", [(conds[0], inner + [("set", "$m", 1)]), (conds[-1], [nm.say("L")])], [nm.say("E")]), nm.say("after")]
            items.append(dict(prog=p, cert=0, stream="shared-or-nested", cap=64, values={"$m": (0, 1, 2)}))
            # a loop whose condition shares its || part with a chain in its body
            nm = G.Names()
            lv = nm.loopvar()
            body = [("if", [(conds[1], [nm.say("W1_")]), (conds[-1], [nm.say("W2_")])], None), ("add", lv, 1)]
            p = [("set", lv, 0), ("while", [("atom", (lv, "<", 2))] + conds[0], body), nm.say("after")]
            items.append(dict(prog=p, cert=0, stream="shared-or-loop", cap=64, values={"$m": (0, 1, 2)}))
    return items


def nested_braceless_items(rng, quick):
    """a brace-less body that is itself an `if` or a loop.  JMC attaches an `else` that follows
    `if (a) if (b) x;` to the OUTER if (the statement after `if (a)` is the body, the next statement
    starting with `else` continues the pending chain) — unlike JavaScript, where it belongs to the nearest
    if.  The trees below follow JMC's reading; the chain as JMC delimits it must then run exactly one branch."""
    items = []
    cs = G.cond_src
    for ci, (A, B, C) in enumerate([(G.atomic_cond("$a"), G.atomic_cond("$b"), G.atomic_cond("$c")),
                                    (G.or_cond("$a", "$d"), G.or_cond("$b", "$d"), G.atomic_cond("$c")),
                                    ([("f", G.rich("or_notand", ["$a", "$b", "$c", "$d"]))], G.atomic_cond("$b"),
                                     [("f", G.rich("or_and_or", ["$c", "$a", "$b", "$d"], 1))])]):
        for xi, (X, Xs) in enumerate([(("say", "x"), 'say "x";'), (("set", "$b", 0), "$b = 0;"), (("set", "$a", 0), "$a = 0;")]):
            Y, Z = ("say", "y"), ("say", "z")
            lv = "$L1"
            loop_for = ("for", [("set", lv, 0)], [("atom", (lv, "<", 2))], [("add", lv, 1)], [X])
            loop_wh = ("while", [("atom", (lv, "<", 2))], [("add", lv, 1), X])
            shapes = [
                (f'if ({cs(A)}) if ({cs(B)}) {Xs} else say "y";',
                 [("if", [(A, [("if", [(B, [X])], None)])], [Y])]),
                (f'if ({cs(A)}) if ({cs(B)}) if ({cs(C)}) {Xs}',
                 [("if", [(A, [("if", [(B, [("if", [(C, [X])], None)])], None)])], None)]),
                (f'if ({cs(A)}) say "y"; else if ({cs(B)}) if ({cs(C)}) {Xs} else say "z";',
                 [("if", [(A, [Y]), (B, [("if", [(C, [X])], None)])], [Z])]),
                (f'if ({cs(A)}) for ({lv} = 0; {lv} < 2; {lv} += 1) {{ {Xs} }} else say "y";',
                 [("if", [(A, [loop_for])], [Y])]),
                (f'{lv} = 0; if ({cs(A)}) say "y"; else while ({lv} < 2) {{ {lv} += 1; {Xs} }}',
                 [("set", lv, 0), ("if", [(A, [Y])], [loop_wh])]),
                (f'{lv} = 0; if ({cs(A)}) say "y"; else if ({cs(B)}) while ({lv} < 2) {{ {lv} += 1; {Xs} }}',
                 [("set", lv, 0), ("if", [(A, [Y]), (B, [loop_wh])], None)]),
                (f'if ({cs(A)}) {{ {Xs} }} else if ({cs(B)}) say "y"; else {{ say "z"; say "z"; }}',
                 [("if", [(A, [X]), (B, [Y])], [Z, Z])]),
            ]
            for si, (src, tree) in enumerate(shapes):
                items.append(dict(prog=tree + [("say", "after")], cert=(ci + xi) % 2, stream="nested-braceless",
                                  src=f'function f() {{\n    {src}\n    say "after";\n}}\n', dangling_else=si in (0, 2)))
    return items


def multi_function_items(rng, quick):
    """packs of several user functions that call each other: the private-function numbering (if_else/k, while_loop/k,
    for_loop/k) and the scratch scores are shared by the whole pack, and a called function runs its own chains
    while the caller's chain is still open"""
    items = []
    o = lambda v, w: G.or_cond(v, w)
    for order in (["f", "g"], ["g", "f"]):
        for pos in range(3):
            for gk in ("chain", "chain_noelse", "flip_chain"):
                nm = G.Names()
                if gk == "chain":
                    g = [("if", [(o("$a", "$b"), [nm.say("g1"), nm.say("g1")]), (G.atomic_cond("$c"), [nm.say("g2")])], [nm.say("g3"), nm.say("g3")])]
                elif gk == "chain_noelse":
                    g = [("if", [(G.atomic_cond("$c"), [nm.say("g1"), nm.say("g1")]), (o("$a", "$b"), [nm.say("g2"), nm.say("g2")])], None)]
                else:       # g runs a chain of its own and changes what f's chain tests
                    g = [("if", [(G.atomic_cond("$a"), [("set", "$a", 0), ("set", "$b", 1), ("set", "$c", 1)]),
                                 (o("$b", "$c"), [("set", "$a", 1), nm.say("g2")])], [("set", "$a", 1), ("set", "$c", 1), nm.say("g3")])]
                bodies = [[nm.say("f1"), nm.say("f1")], [nm.say("f2"), nm.say("f2")], [nm.say("f3"), nm.say("f3")]]
                bodies[pos] = [nm.say("pre"), ("call", "g"), nm.say("post")]
                f = [("if", [(o("$a", "$c"), bodies[0]), (o("$b", "$a"), bodies[1])], bodies[2]), nm.say("after")]
                items.append(dict(prog=f, more={"g": g + [nm.say("gend")]}, order=order, cert=pos % 2, stream="multi-function"))
    for i in range(40 if quick else 400):
        it = G.random_pack(rng, depth=2, loops=rng.random() < 0.5, helpers=rng.choice([1, 1, 2]))
        items.append(dict(it, cert=i % 2, stream="multi-function-random"))
    return items


def rich_items(rng, quick):
    """rich conditions (G.RICH) in every condition position of a chain; expected lowering from the C03 model"""
    items = []
    V = ["$a", "$b", "$c", "$d"]
    for ki, kind in enumerate(G.RICH_KINDS):
        def rc(sp=0, kind=kind):
            return [("f", G.rich(kind, V, ki + sp))]
        e1, g1 = G.atomic_cond("$e"), G.atomic_cond("$g")
        nm = G.Names()
        s1, s2 = (lambda t: [nm.say(t)]), (lambda t: [nm.say(t), nm.say(t)])
        progs = [
            ("single-inline", [("if", [(rc(), s1("T"))], None)]),
            ("single-function", [("if", [(rc(1), s2("T"))], None)]),
            ("if-else", [("if", [(rc(2), s1("T"))], s2("E"))]),
            ("first-of-3", [("if", [(rc(), s2("T")), (e1, s1("U")), (g1, s1("V"))], s1("E"))]),
            ("middle-of-3", [("if", [(e1, s1("U")), (rc(3), s1("T")), (g1, s2("V"))], None)]),
            ("last-with-else", [("if", [(e1, s1("U")), (g1, s2("V")), (rc(4), s1("T"))], s1("E"))]),
            ("last-no-else", [("if", [(e1, s2("U")), (rc(5), s1("T"))], None)]),
            ("last-no-else-function", [("if", [(e1, s1("U")), (g1, s1("V")), (rc(6), s2("T"))], None)]),
            # the body of the rich branch changes the tested variables
            ("rich-then-toggle", [("if", [(rc(), [("set", v, 0) for v in V] + s1("T")), (rc(1), s1("U"))], s1("E"))]),
        ]
        for tag, p in progs:
            items.append(dict(prog=p + [nm.say("after")], cert=ki % 2, stream="rich-" + tag, cap=64))
        # every condition of the chain rich (different shapes over the same variables)
        for has_else in (True, False):
            nm2 = G.Names()
            ks = [G.RICH_KINDS[(ki + j * 5) % len(G.RICH_KINDS)] for j in range(3)]
            brs = [([("f", G.rich(k, V[j:] + V[:j], ki + j))], [nm2.say(f"R{j}_")] * (1 + j % 2)) for j, k in enumerate(ks)]
            p = [("if", brs, [nm2.say("E")] if has_else else None), nm2.say("after")]
            items.append(dict(prog=p, cert=ki % 2, stream="rich-all-conditions"))
    # random formulas (depth <= 4) in random chains
    for i in range(60 if quick else 600):
        nm = G.Names()
        n = rng.choice([1, 2, 2, 3, 3, 4])
        vs = V if i % 3 else V + ["$e"]
        brs = []
        for j in range(n):
            f = G.random_formula(rng, vs, rng.choice([2, 3, 3, 4]))
            body = [nm.say(f"X{j}_")] + ([("set", rng.choice(vs), rng.choice([0, 1]))] if rng.random() < 0.4 else [])
            if rng.random() < 0.3:
                body = body[-1:]
            brs.append(([("atom", f[1])] if f[0] == "A" else [("f", f)], body))
        els = [nm.say("E")] if rng.random() < 0.5 else None
        items.append(dict(prog=[("if", brs, els), nm.say("after")], cert=i % 2, stream="rich-random-chain"))
    return items


# ---- misc triage (item 1): `return` inside a branch ---------------------------------------------------------

RET_PACK_FORMATS = ["15", "18", "26", "41", "57", "61"]
RET_SHAPES = ["only", "say_ret", "say_ret_say", "cond_ret", "cond_ret_fn", "chain_then_ret", "nested_ret_chain",
              "say_return_word", "call_returning", "ret_run_call", "ret_run_say"]


def ret_body(shape, nm, form, tag):
    """-> (body, helper functions {name: body}) of a branch that (possibly) returns"""
    say = lambda: nm.say(tag)
    n1 = G.atomic_cond("$n")
    if shape == "only":
        return [("ret", form)], {}
    if shape == "say_ret":
        return [say(), ("ret", form)], {}
    if shape == "say_ret_say":                      # dead code after the return
        return [say(), ("ret", form), say()], {}
    if shape == "cond_ret":                         # `execute if … run return …` in the body's own lines
        return [("if", [(n1, [("ret", form)])], None), say()], {}
    if shape == "cond_ret_fn":                      # the inner body is a function of its own: its return leaves only that one
        return [("if", [(n1, [say(), ("ret", form)])], None), say()], {}
    if shape == "chain_then_ret":                   # a nested chain (re)sets the flag, THEN the body returns
        return [("if", [(n1, [say()])], [say()]), ("ret", form)], {}
    if shape == "nested_ret_chain":                 # the nested chain's own wrapped branch returns
        return [("if", [(n1, [say(), ("ret", form)])], [say()]), say()], {}
    if shape == "say_return_word":                  # the rule is textual: the word `return` in a line
        return [("say", "return"), say()], {}
    if shape == "call_returning":                   # the callee returns: that leaves the callee only
        return [("call", "g"), say()], {"g": [nm.say("g"), ("ret", form), nm.say("g")]}
    if shape == "ret_run_call":                     # `return run g()`, g runs a chain of its own (which clears the flag)
        g = [("if", [(n1, [nm.say("g"), nm.say("g")])], [nm.say("g")]), nm.say("gend")]
        return [say(), ("ret", ("call", "g"))], {"g": g}
    if shape == "ret_run_say":
        return [say(), ("ret", ("say", "rr"))], {}
    raise ValueError(shape)


def return_items(rng, quick):
    """`return` in a branch body: every shape x chain length x else kind x position of the returning body (the last
    part included: there the return may leave the ENCLOSING function — one-line bodies are inlined), all return forms
    rotating; brace-less spellings; several returning branches; random nests with returns sprinkled in."""
    items = []
    k = 0
    V = ["$a", "$b", "$c"]
    for shape in RET_SHAPES:
        for n in (1, 2, 3):
            for ek in (None, "one", "two"):
                if n == 3 and ek == "two":
                    continue
                for pos_ in range(n + (ek is not None)):
                    k += 1
                    if quick and n == 3 and (k % 2):
                        continue
                    nm = G.Names()
                    form = G.RET_FORMS[k % len(G.RET_FORMS)]
                    conds = [G.or_cond(V[j], "$d") if (k + j) % 5 == 0 else G.atomic_cond(V[j]) for j in range(n)]
                    bodies = [[nm.say(f"B{j}_")] * (1 + (j + k) % 2) for j in range(n)]
                    els = None if ek is None else [nm.say("E")] * (1 if ek == "one" else 2)
                    rb, more = ret_body(shape, nm, form, f"R{pos_}_")
                    if pos_ < n:
                        bodies[pos_] = rb
                    else:
                        els = rb
                    p = [("if", [(conds[j], bodies[j]) for j in range(n)], els), nm.say("after")]
                    it = dict(prog=p, cert=k % 2, stream="return-in-branch", cap=64,
                              ret=dict(shape=shape, n=n, els=ek, pos=pos_, form=str(form)))
                    if k % 3 == 0:          # the lowering must not depend on the pack format (`return` exists from 15 / 18 / 26 on)
                        it["pack_format"] = RET_PACK_FORMATS[(k // 3) % len(RET_PACK_FORMATS)]
                    if more:
                        it.update(more=more, order=["f", "g"] if k % 2 else ["g", "f"])
                    items.append(it)
                    if shape == "only" and not more:
                        items.append(dict(it, stream="return-in-branch-braceless", src=braceless(p)))
    # every branch returns; a returning chain nested in a returning branch; two chains in a row
    for k2, form in enumerate(G.RET_FORMS):
        nm = G.Names()
        brs = [(G.atomic_cond(V[j]), [nm.say(f"A{j}_"), ("ret", form)]) for j in range(3)]
        items.append(dict(prog=[("if", brs, [nm.say("E"), ("ret", form)]), nm.say("after")], cert=k2 % 2,
                          stream="return-in-branch", ret=dict(shape="all", form=str(form))))
        nm = G.Names()
        inner = ("if", [(G.atomic_cond("$n"), [nm.say("I"), ("ret", form)]), (G.atomic_cond("$m"), [nm.say("J")])], [nm.say("K")])
        p = [("if", [(G.atomic_cond("$a"), [inner, nm.say("mid"), ("ret", form), nm.say("dead")]),
                     (G.atomic_cond("$b"), [nm.say("B")])], [nm.say("E")]),
             ("if", [(G.atomic_cond("$c"), [nm.say("C"), ("ret", form)])], [nm.say("F")]), nm.say("after")]
        items.append(dict(prog=p, cert=k2 % 2, stream="return-in-branch", cap=64, ret=dict(shape="nested", form=str(form))))
    # random nests (no loops around the returns: a `return` in a loop body is `break`, property C05's ground)
    for i in range(60 if quick else 600):
        p = G.random_program(rng, depth=rng.choice([2, 3]), loops=False)
        G.sprinkle_returns(rng, p, 0.35)
        items.append(dict(prog=p, cert=i % 2, stream="return-random", ret=dict(shape="random")))
    return items


# ---- misc triage (item 3): a pending chain directly followed by a nested declaration --------------------------

def declaration_items(rng, quick):
    """`if (...) {...} [else if ...]` (no else: the chain is still pending) directly followed by a function declared INSIDE
    the function body.  The declaration is no statement of the enclosing function: the chain belongs to — and must run in —
    the enclosing function, the declared function's file holds its own body only.  (The nested function has no blocks of its
    own, so the private-function numbering is that of the enclosing function alone; it is compiled as the top-level `g`.)"""
    items = []
    a, b, o = G.atomic_cond("$a"), G.atomic_cond("$b"), G.or_cond("$c", "$d")
    k = 0
    for decl in ("function", "lazy"):
        for nest in ("top", "branch", "else"):
            for pre in (False, True):
                for post in (False, True):
                    shapes = lambda nm: [
                        ("lone-inline", ("if", [(a, [nm.say("T")])], None)),
                        ("lone-function", ("if", [(a, [nm.say("T"), nm.say("T")])], None)),
                        ("lone-or", ("if", [(o, [nm.say("T")])], None)),
                        ("elif", ("if", [(a, [nm.say("T")]), (b, [nm.say("U"), nm.say("U")])], None)),
                        ("elif-or-last", ("if", [(a, [nm.say("T"), nm.say("T")]), (o, [nm.say("U")])], None)),
                        ("elif3", ("if", [(o, [nm.say("T")]), (a, [nm.say("U")]), (b, [nm.say("V")])], None)),
                        ("with-else", ("if", [(a, [nm.say("T")])], [nm.say("E")])),          # control: closed by its else
                    ]
                    for si in range(7):
                        k += 1
                        if quick and nest != "top" and (k % 2):
                            continue
                        nm = G.Names()
                        tag, chain = shapes(nm)[si]
                        gbody = [nm.say("G"), nm.say("G")]
                        stmts = ([nm.say("pre")] if pre else []) + [chain, "DECL"] + ([nm.say("post")] if post else [])

                        def render(body, ind):
                            out = []
                            for x in body:
                                if x == "DECL":
                                    kw = "function g()" if decl == "function" else "@lazy function g()"
                                    out.append("    " * ind + kw + " {\n" + G.body_src(gbody, ind + 1) + "\n" + "    " * ind + "}")
                                else:
                                    out.append(G.stmt_src(x, ind))
                            return "\n".join(out)
                        plain = [x for x in stmts if x != "DECL"]
                        if nest == "top":
                            prog = plain + [nm.say("end")]
                            src = "function f() {\n" + render(stmts, 1) + "\n" + G.stmt_src(prog[-1], 1) + "\n}\n"
                        else:
                            e = G.atomic_cond("$e")
                            other = [nm.say("X"), nm.say("X")]
                            outer = ("if", [(e, plain)], other) if nest == "branch" else ("if", [(e, other)], plain)
                            prog = [outer, nm.say("end")]
                            inner_src = "{\n" + render(stmts, 2) + "\n    }"
                            other_src = G.block(other, 2)
                            first, second = (inner_src, other_src) if nest == "branch" else (other_src, inner_src)
                            src = (f"function f() {{\n    if ({G.cond_src(e)}) {first}\n    else {second}\n"
                                   + G.stmt_src(prog[-1], 1) + "\n}\n")
                        it = dict(prog=prog, cert=k % 2, stream="chain-before-declaration", src=src, cap=64,
                                  decl=dict(kind=decl, nest=nest, chain=tag, pre=pre, post=post,
                                            gtext="\n".join("say " + x[1] for x in gbody)))
                        if decl == "function":
                            it.update(more={"g": gbody}, order=["f", "g"])
                        items.append(it)
    return items


def gen_items(rng, tier):
    items = []
    quick = tier == "quick"
    # (i) exhaustive small: every chain of <= 2 branches x {else kinds, no else} x condition kinds x body kinds
    for n in (1, 2):
        for cks in itertools.product("ao", repeat=n):
            for els in [None] + G.BODY_KINDS:
                for bks in itertools.product(G.BODY_KINDS, repeat=n):
                    items.append(dict(prog=G.make_chain(cks, bks, els), cert=0, stream="exhaustive<=2"))
    # every condition-kind tuple of 3 and 4 branches x {else, no else}; body kinds: each position takes each
    # kind at least once per tuple (cyclic Latin assignment) plus random assignments
    for n in (3, 4):
        for cks in itertools.product("ao", repeat=n):
            for has_else in (False, True):
                kinds = G.BODY_KINDS + G.EXTRA_BODY_KINDS
                for shift in range(len(G.BODY_KINDS)):
                    bks = [G.BODY_KINDS[(shift + j) % 4] for j in range(n)]
                    els = G.BODY_KINDS[(shift + n) % 4] if has_else else None
                    items.append(dict(prog=G.make_chain(cks, bks, els), cert=0, stream=f"chains{n}"))
                for _ in range(2 if quick else 12):
                    bks = [rng.choice(kinds) for _ in range(n)]
                    els = rng.choice(kinds) if has_else else None
                    items.append(dict(prog=G.make_chain(cks, bks, els, rng=rng, vary=True), cert=rng.randrange(2),
                                      stream=f"chains{n}"))
    # chains of 1-2 branches with the extra body kinds and varied condition spellings, second jmc.txt
    for n in (1, 2):
        for cks in itertools.product("ao", repeat=n):
            for els in [None] + G.EXTRA_BODY_KINDS:
                for bks in itertools.product(G.EXTRA_BODY_KINDS + ["two"], repeat=n):
                    items.append(dict(prog=G.make_chain(cks, bks, els, rng=rng, vary=True), cert=1, stream="extra-kinds"))
    # (ii) random structured: nested chains and loops to depth 3
    for _ in range(150 if quick else 4000):
        items.append(dict(prog=G.random_program(rng, depth=rng.choice([2, 3, 3]), loops=rng.random() < 0.6),
                          cert=rng.randrange(2), stream="random-nested"))
    # (iii) adversarial: brace-less one-command bodies; empty bodies (refused in arrow position, accepted elsewhere)
    for n in (1, 2, 3):
        for cks in itertools.product("ao", repeat=n):
            for els in (None, "one", "two"):
                bks = [rng.choice(["one", "one", "two", "flip1"]) for _ in range(n)]
                p = G.make_chain(cks, bks, els)
                items.append(dict(prog=p, cert=0, stream="braceless", src=braceless(p)))
    # long chains (5-6 branches: 4-5 stage functions), two chains in a row, chain directly after a loop
    for n in (5, 6):
        for has_else in (False, True):
            for _ in range(3):
                cks = [rng.choice("ao") for _ in range(n)]
                bks = [rng.choice(G.BODY_KINDS) for _ in range(n)]
                p = G.make_chain(cks, bks, rng.choice(G.BODY_KINDS) if has_else else None)
                items.append(dict(prog=p, cert=0, stream="long-chains"))
    for cks1, cks2 in itertools.product(["a", "ao", "oa"], repeat=2):
        nm = G.Names()
        p1 = G.make_chain(cks1, ["one"] * len(cks1), None, nm=nm)[:-1]
        p2 = G.make_chain(cks2, ["two"] * len(cks2), "one", nm=nm)
        items.append(dict(prog=p1 + p2, cert=0, stream="chains-in-sequence"))
        loop = ("for", [("set", "$L1", 0)], [("atom", ("$L1", "<", 2))], [("add", "$L1", 1)], p1)
        items.append(dict(prog=[loop] + p2, cert=0, stream="chains-in-sequence"))
    say = ("say", "x")
    c_a, c_o = G.atomic_cond("$a"), G.or_cond("$b", "$c")
    for p in ([("if", [(c_a, [])], None)], [("if", [(c_a, []), (c_o, [say])], None)],
              [("if", [(c_a, [say]), (c_o, [])], None)], [("if", [(c_a, []), (c_o, [])], [say])],
              [("if", [(c_a, [say])], [])], [("if", [(c_o, []), (c_a, []), (c_a, [say, say])], None)]):
        items.append(dict(prog=p + [("say", "after")], cert=0, stream="empty-bodies"))
    # (iv) strengthening round 2
    items += multi_function_items(rng, quick)
    items += nested_braceless_items(rng, quick)
    items += rich_items(rng, quick)
    items += modifying_items(rng, quick)
    items += shared_or_items(rng, quick)
    # (v) strengthening round 3: brace-less forms x body kind x chain position x follower x enclosing block; random nests
    # in which every one-statement body that may be written without braces is (with probability 0.6)
    items += G.braceless_items(rng, quick)
    for i in range(120 if quick else 1500):
        p = G.random_program(rng, depth=rng.choice([2, 3, 3]), loops=rng.random() < 0.7, braceless_loops=True)
        items.append(dict(prog=G.mark_braceless(rng, p, 0.75), cert=i % 2, stream="random-nested-braceless"))
    # (vi) misc triage: `return` inside branch bodies
    items += return_items(rng, quick)
    items += declaration_items(rng, quick)
    return items


def main(tier: str) -> int:
    ck = Check(PROP, tier)
    ck.cov["trusted_base"] = COMMON_TRUSTED + [
        "Model/IfElse.v, Model/Loop.v, Model/PrivAlloc.v: hand-written ports of Lexer.parse_if_else (lexer.py, "
        "Cases 1 and 2, as repaired by fixes/C04-last-elif-precommand.patch and the `_join_run` junction merge), of add_arrow_function / add_custom_private_function / "
        "get_count / call_func (datapack.py) and of the statement-by-statement lowering of a function body; tied to the "
        "tree by exact text equality of the caller and of every generated private function on the generated programs",
        "conditions enter the model as (precommand lines, execute guards); that pair is computed in Coq by property C03's model "
        "(Run.C04.lowc = Model.Cond.parse_condition on the token list of the formula the source text was printed from), not predicted by "
        "the harness; c03_gen.py prints formulas to source text / tokens (shared with C03's check)",
        "brace-less bodies that are themselves an if/loop: the harness writes the tree as JMC reads it (a following `else` continues the "
        "OUTER pending chain, unlike JavaScript's nearest-if rule); several user functions: compiled in source order with one numbering state",
        "outside the model: `if (...) expand {...}` and `$if` (property C03's check covers both: Model/CondExpand.v), switch (C06), body commands that are `execute` with sub-clauses "
        "other than if/unless score and store (not in MC/Syntax.v)",
        "`return`: MC/Syntax.v has no such command (a `return …` line is COther in the model: the text tie covers it, the MC.Sem theorems "
        "treat it as a no-op); its meaning — leave the function it is written in — is added by Proofs/IfElseReturn.v (rruns) for the theorems "
        "C04_return_*; Model.Loop.isolate ports add_custom_private_function(postcommands_after_return=True) of fixes/C04-return-in-branch.patch "
        "(textual test: a line containing the word `return` / `$return`); Run.C04.Pinned = copy of the lowering without isolation, used only to "
        "classify a differing case as the proposed known finding C04-return-in-branch (reports/misc-known-findings-4.json) while the patch is uncommitted",
        "nested function declarations (stream chain-before-declaration): written by the harness as source text, modelled as the enclosing body "
        "without the declaration + the declared function as a further user function (its body has no blocks of its own)",
        "mcvm.py (+ c04_gen.RVM: `return`) and the source-level interpreter in c04_gen.py (a `return` unwinds to the innermost block compiled to "
        "a function of its own): untrusted, used only to search for failing inputs",
    ]
    ck.proof(extra_targets=["Run/C04.vo"])
    items = gen_items(ck.rng, tier)
    st = G.check_programs(ck, items, tier, "an if/else-if/else chain does not run exactly the branch the source selects")
    distinct = len({G.jmc_src(it) + str(it["cert"]) for it in items})
    nontrivial = len({G.jmc_src(it) for it in items
                      if any(t.startswith("chain_n") for t in G.shape_tags(it["prog"]))})
    ck.cov.update(dict(
        evaluations=len(items), distinct_nontrivial=nontrivial, distinct_programs=distinct, programs=len(items),
        rule="a case = one function body compiled by the real compiler (one pack each); streams: every chain of <=2 branches x "
             "{no else, 4 else kinds} x condition kinds {atomic, ||} x body kinds {1 cmd, 2 cmds, nested chain, flips tested variables}; "
             "every condition-kind tuple of 3 and 4 branches x {else, no else} with Latin + random body kinds; extra body kinds "
             "(single inlined nested if, 1-command flip, command + nested chain) under a second jmc.txt; random nested chains/loops to depth 3; "
             "brace-less bodies; empty bodies.  Round 2: rich conditions (14 shapes: || under && under ||, !(a && b) after an alternative, 2-3 flags, "
             "De Morgan, mixed atom spellings incl. truthiness and matches) in every condition position + random formulas to depth 4; bodies that "
             "CHANGE the tested variables (single statements and blocks, every brace style, every branch position); chains / sequences / nests / loops in "
             "which non-adjacent conditions share an identically written || part; brace-less bodies that are ifs or loops (dangling else); packs of "
             "2-3 user functions calling each other.  Round 3: brace-less bodies (command, assignment to a tested variable, lone if with/without ||, if in if, "
             "for / while with plain and || conditions, for holding a chain) x chain position (lone, first with else, else, last else-if, else-if before else, middle, "
             "last of 3, else of 3, every body brace-less) x follower in the same block (none, say, chain, brace-less chain, while, for, do-while, for with ||, "
             "brace-less else-if loop + loop) x enclosing block (function, for / while / do-while body, branch, else branch); random nests with brace-less bodies "
             "wherever the grammar allows.  Misc triage: `return` in a branch body (11 body shapes: only / after a say / before dead code / under an inlined "
             "`if` / in an inner block function / after a nested chain / in a nested chain's wrapped branch / the word `return` in a say / a returning callee / "
             "`return run g()` with g running a chain / `return run say`) x chain length 1-3 x else kind x position of the returning body (last part included) x "
             "6 return forms, brace-less `if (c) return 1; else …`, every branch returning, nested, random nests with returns sprinkled in; a pending chain "
             "(7 shapes, with else as control) directly before `function g() {…}` / `@lazy function g() {…}` declared in the function body, at top level and inside "
             "a branch / else body.  distinct_nontrivial = distinct sources containing a chain with >= 2 parts (flag protocol exercised)",
        correspondence="text of the user function and of every private function == Model (compile_body), compared in Coq",
        disagreements_checked=len(st["bad"]), semantic_runs=st["n_runs"], semantic_runs_skipped_divergent=st["n_skipped"],
        semantic_failures=len(st["sem_fail"]), compile_errors_expected_by_model=st["n_errors"],
        branch_histogram=st["tags"], streams=st["streams"],
        braceless_bodies=sum(G.count_braceless(it["prog"]) for it in items),
        return_programs=sum(1 for it in items if it.get("ret")), declaration_programs=sum(1 for it in items if it.get("decl")),
        known_return_in_branch=st["known_return_in_branch"], dangling_else_refused=st["dangling_else_refused"],
        search="every case: emitted functions run in mcvm from every 0/1 assignment of the variables read (<=48 states, sampled beyond; "
               "thorough: also unset), say-trace and final user scores compared with the JavaScript meaning",
        not_modelled="Minecraft's maxCommandChainLength / recursion limits",
        samples=[dict(source=G.jmc_src(items[i])) for i in (0, 37, len(items) // 2, len(items) - 1) if i < len(items)],
    ))
    return ck.finish()


def replay(path: str) -> int:
    return G.replay_file(path, PROP)
