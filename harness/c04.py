"""C04 — if / else-if / else chains run exactly one branch, once.

Proof step (Props/C04.v) + correspondence (the text of the caller and of every generated
private function, real compiler vs Model.IfElse/Model.Loop, compared in Coq) + search (the
really emitted functions run in mcvm from every truth assignment, against the JavaScript
meaning of the source)."""
from __future__ import annotations

import itertools

from lib import Check, COMMON_TRUSTED
import c04_gen as G

PROP = "C04"


def braceless(prog):
    """source text in which every one-command body is written without braces
    (`if (c) say "x"; else if (d) say "y"; else say "z";`) — same lowering expected"""
    def stmt(s, ind):
        pad = "    " * ind
        if s[0] != "if":
            return G.stmt_src(s, ind)
        out = []
        for i, (c, body) in enumerate(s[1]):
            kw = "if" if i == 0 else "else if"
            if len(body) == 1 and body[0][0] in ("say", "set", "add", "sub"):
                out.append(f"{pad}{kw} ({G.cond_src(c)}) {G.stmt_src(body[0], 0)}")
            else:
                out.append(f"{pad}{kw} ({G.cond_src(c)}) {{\n" + "\n".join(stmt(x, ind + 1) for x in body) + f"\n{pad}}}")
        if s[2] is not None:
            e = s[2]
            if len(e) == 1 and e[0][0] in ("say", "set", "add", "sub"):
                out.append(f"{pad}else {G.stmt_src(e[0], 0)}")
            else:
                out.append(f"{pad}else {{\n" + "\n".join(stmt(x, ind + 1) for x in e) + f"\n{pad}}}")
        return "\n".join(out)
    return "function f() {\n" + "\n".join(stmt(s, 1) for s in prog) + "\n}\n"


def gen_items(rng, tier):
    items = []
    quick = tier == "quick"
    # (i) exhaustive small: every chain of <= 2 branches x {else kinds, no else} x condition kinds x body kinds
    for n in (1, 2):
        for cks in itertools.product("ao", repeat=n):
            for els in [None] + G.BODY_KINDS:
                for bks in itertools.product(G.BODY_KINDS, repeat=n):
                    items.append(dict(prog=G.make_chain(cks, bks, els), cert=0, stream="exhaustive<=2"))
    # every condition-kind tuple of 3 and 4 branches x {else, no else}; body kinds: each position takes each
    # kind at least once per tuple (cyclic Latin assignment) plus random assignments
    for n in (3, 4):
        for cks in itertools.product("ao", repeat=n):
            for has_else in (False, True):
                kinds = G.BODY_KINDS + G.EXTRA_BODY_KINDS
                for shift in range(len(G.BODY_KINDS)):
                    bks = [G.BODY_KINDS[(shift + j) % 4] for j in range(n)]
                    els = G.BODY_KINDS[(shift + n) % 4] if has_else else None
                    items.append(dict(prog=G.make_chain(cks, bks, els), cert=0, stream=f"chains{n}"))
                for _ in range(2 if quick else 12):
                    bks = [rng.choice(kinds) for _ in range(n)]
                    els = rng.choice(kinds) if has_else else None
                    items.append(dict(prog=G.make_chain(cks, bks, els, rng=rng, vary=True), cert=rng.randrange(2),
                                      stream=f"chains{n}"))
    # chains of 1-2 branches with the extra body kinds and varied condition spellings, second jmc.txt
    for n in (1, 2):
        for cks in itertools.product("ao", repeat=n):
            for els in [None] + G.EXTRA_BODY_KINDS:
                for bks in itertools.product(G.EXTRA_BODY_KINDS + ["two"], repeat=n):
                    items.append(dict(prog=G.make_chain(cks, bks, els, rng=rng, vary=True), cert=1, stream="extra-kinds"))
    # (ii) random structured: nested chains and loops to depth 3
    for _ in range(150 if quick else 4000):
        items.append(dict(prog=G.random_program(rng, depth=rng.choice([2, 3, 3]), loops=rng.random() < 0.6),
                          cert=rng.randrange(2), stream="random-nested"))
    # (iii) adversarial: brace-less one-command bodies; empty bodies (refused in arrow position, accepted elsewhere)
    for n in (1, 2, 3):
        for cks in itertools.product("ao", repeat=n):
            for els in (None, "one", "two"):
                bks = [rng.choice(["one", "one", "two", "flip1"]) for _ in range(n)]
                p = G.make_chain(cks, bks, els)
                items.append(dict(prog=p, cert=0, stream="braceless", src=braceless(p)))
    # long chains (5-6 branches: 4-5 stage functions), two chains in a row, chain directly after a loop
    for n in (5, 6):
        for has_else in (False, True):
            for _ in range(3):
                cks = [rng.choice("ao") for _ in range(n)]
                bks = [rng.choice(G.BODY_KINDS) for _ in range(n)]
                p = G.make_chain(cks, bks, rng.choice(G.BODY_KINDS) if has_else else None)
                items.append(dict(prog=p, cert=0, stream="long-chains"))
    for cks1, cks2 in itertools.product(["a", "ao", "oa"], repeat=2):
        nm = G.Names()
        p1 = G.make_chain(cks1, ["one"] * len(cks1), None, nm=nm)[:-1]
        p2 = G.make_chain(cks2, ["two"] * len(cks2), "one", nm=nm)
        items.append(dict(prog=p1 + p2, cert=0, stream="chains-in-sequence"))
        loop = ("for", [("set", "$L1", 0)], [("atom", ("$L1", "<", 2))], [("add", "$L1", 1)], p1)
        items.append(dict(prog=[loop] + p2, cert=0, stream="chains-in-sequence"))
    say = ("say", "x")
    c_a, c_o = G.atomic_cond("$a"), G.or_cond("$b", "$c")
    for p in ([("if", [(c_a, [])], None)], [("if", [(c_a, []), (c_o, [say])], None)],
              [("if", [(c_a, [say]), (c_o, [])], None)], [("if", [(c_a, []), (c_o, [])], [say])],
              [("if", [(c_a, [say])], [])], [("if", [(c_o, []), (c_a, []), (c_a, [say, say])], None)]):
        items.append(dict(prog=p + [("say", "after")], cert=0, stream="empty-bodies"))
    return items


def main(tier: str) -> int:
    ck = Check(PROP, tier)
    ck.cov["trusted_base"] = COMMON_TRUSTED + [
        "Model/IfElse.v, Model/Loop.v, Model/PrivAlloc.v: hand-written ports of Lexer.parse_if_else (lexer.py, "
        "Cases 1 and 2, as repaired by fixes/C04-last-elif-precommand.patch and the `_join_run` junction merge), of add_arrow_function / add_custom_private_function / "
        "get_count / call_func (datapack.py) and of the statement-by-statement lowering of a function body; tied to the "
        "tree by exact text equality of the caller and of every generated private function on the generated programs",
        "conditions enter the model as (precommand lines, execute guards): the harness predicts that pair for the simple "
        "condition shapes it generates (atoms, &&, ||-groups); how formulas are lowered in general is property C03",
        "outside the model: `if (...) expand {...}`, `$if`, switch (C06), body commands that are `execute` with sub-clauses "
        "other than if/unless score and store (not in MC/Syntax.v)",
        "mcvm.py + the source-level interpreter in c04_gen.py: untrusted, used only to search for failing inputs",
    ]
    ck.proof(extra_targets=["Run/C04.vo"])
    items = gen_items(ck.rng, tier)
    st = G.check_programs(ck, items, tier, "an if/else-if/else chain does not run exactly the branch the source selects")
    distinct = len({G.jmc_src(it) + str(it["cert"]) for it in items})
    nontrivial = len({G.jmc_src(it) for it in items
                      if any(t.startswith("chain_n") for t in G.shape_tags(it["prog"]))})
    ck.cov.update(dict(
        evaluations=len(items), distinct_nontrivial=nontrivial, distinct_programs=distinct, programs=len(items),
        rule="a case = one function body compiled by the real compiler (one pack each); streams: every chain of <=2 branches x "
             "{no else, 4 else kinds} x condition kinds {atomic, ||} x body kinds {1 cmd, 2 cmds, nested chain, flips tested variables}; "
             "every condition-kind tuple of 3 and 4 branches x {else, no else} with Latin + random body kinds; extra body kinds "
             "(single inlined nested if, 1-command flip, command + nested chain) under a second jmc.txt; random nested chains/loops to depth 3; "
             "brace-less bodies; empty bodies.  distinct_nontrivial = distinct sources containing a chain with >= 2 parts (flag protocol exercised)",
        correspondence="text of the user function and of every private function == Model (compile_body), compared in Coq",
        disagreements_checked=len(st["bad"]), semantic_runs=st["n_runs"], semantic_runs_skipped_divergent=st["n_skipped"],
        semantic_failures=len(st["sem_fail"]), compile_errors_expected_by_model=st["n_errors"],
        branch_histogram=st["tags"], streams=st["streams"],
        search="every case: emitted functions run in mcvm from every 0/1 assignment of the variables read (<=48 states, sampled beyond; "
               "thorough: also unset), say-trace and final user scores compared with the JavaScript meaning",
        not_modelled="Minecraft's maxCommandChainLength / recursion limits",
        samples=[dict(source=G.jmc_src(items[i])) for i in (0, 37, len(items) // 2, len(items) - 1) if i < len(items)],
    ))
    return ck.finish()


def replay(path: str) -> int:
    return G.replay_file(path, PROP)
