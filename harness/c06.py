"""C06 — switch runs exactly the matching case under both lowering strategies (and Hardcode.switch).

Proof step (Props/C06.v) + regenerated strategy threshold + exact-text correspondence of every
emitted function between Model/Switch.v and the real compiler + search for failing inputs by
running the *real* emitted text in mcvm against a source-level interpreter of the program."""
from __future__ import annotations

import json
import os
import shutil

from lib import (Check, COMMON_TRUSTED, GEN, INT_MAX, INT_MIN, REPO, compile_batch, coq_bool, coq_list, coq_str,
                 coq_z, eval_cases, eval_strings, known_for, run_coq_files)
from mcvm import VM, Invalid, OutOfFuel
import c06_thresholds

PROP = "C06"
GENSUB = f"{PROP}/r{os.getpid()}"          # private scratch directory under coq/Gen: concurrent runs do not collide

CERTS = [
    dict(LOAD="__load__", TICK="__tick__", PRIVATE="__private__", VAR="__variable__", INT="__int__", STORAGE="__storage__"),
    dict(LOAD="init", TICK="loop", PRIVATE="priv", VAR="v", INT="i", STORAGE="stor"),
]
NAMESPACES = ["TEST", "my_ns"]
FNAME = "f"
VARS = ["$x", "$y", "obj:@s", "$z.w", "o2:name"]           # variable switched on, by nesting depth
MACRO_MIN_FORMAT = 16                                      # Minecraft fact: function macros exist from pack format 16

HEADER = ("From Coq Require Import ZArith String List.\n"
          "From JMCV Require Import MC.Syntax Model.Names Model.Switch Model.SwitchRet Run.C06.\n"
          "Import ListNotations.\nOpen Scope string_scope.\n")


# ------------------------------------------------------------------ programs
# stmt := ("say", text) | ("break",) | ("set", var, k) | ("call", fname)
#       | ("switch", var, [(label|"default", spelling, [stmt])]) | ("hard", var, begin, count, [(pre, post)], [stmt] tail)
#       | ("ret", "val", k) | ("ret", "fail", None) | ("ret", "say", text)        `return k;` `return fail;` `return run say "text";`
#       | ("if", var, rng, [stmt])      rng = ("eq", k) | ("ge", a) | ("le", b) | ("in", a, b)     `if (var == k) { … }` …
#       | ("while", var, k, [stmt])     `while (var < k) { var += 1; … }`   (var is a loop counter: names starting with "$i")
# A case may carry "more": {fname: [stmt]} further user functions, "order": their source order (names, incl. "f")

def cert_text(c):
    return "\n".join(f"{k}={v}" for k, v in c.items())


def score_of(src: str, cert):
    if src.startswith("$"):
        return (src, cert["VAR"])
    obj, sel = src.split(":", 1)
    return (sel, obj)


HARD_PARAMS = ["idx", "jdx", "kdx", "mdx", "ndx"]      # a nested Hardcode.switch needs its own parameter name (textual substitution)


def render(stmts, hdepth=0) -> str:
    out = []
    for s in stmts:
        if s[0] == "say":
            out.append(f'say "{s[1]}";')
        elif s[0] == "break":
            out.append("break;")
        elif s[0] == "switch":
            parts = []
            for lab, spell, body in s[2]:
                head = "default:" if lab == "default" else f"case {spell}:"
                parts.append(head + " " + render(body, hdepth))
            out.append(f"switch({s[1]}) {{ " + " ".join(parts) + " }")
        elif s[0] == "set":
            out.append(f"{s[1]} = {s[2]};")
        elif s[0] == "call":
            out.append(f"{s[1]}();")
        elif s[0] == "ret":
            out.append({"val": f"return {s[2]};", "fail": "return fail;", "say": f'return run say "{s[2]}";'}[s[1]])
        elif s[0] == "if":
            out.append(f"if ({cond_text(s[1], s[2])}) {{ {render(s[3], hdepth)} }}")
        elif s[0] == "while":
            out.append(f"while ({s[1]} < {s[2]}) {{ {s[1]} += 1; {render(s[3], hdepth)} }}")
        elif s[0] == "hard":
            prm = HARD_PARAMS[hdepth]
            body = " ".join(f'say "{pre}${prm}{post}";' for pre, post in s[4])
            tail = (" " + render(s[5], hdepth + 1)) if len(s) > 5 and s[5] else ""
            out.append(f"Hardcode.switch({s[1]}, ({prm})=>{{ {body}{tail} }}, count={s[3]}, begin_at={s[2]});")
        else:
            raise ValueError(s)
    return " ".join(out)


def cond_text(var, rng):
    if rng[0] == "eq":
        return f"{var} == {rng[1]}"
    if rng[0] == "ge":
        return f"{var} >= {rng[1]}"
    if rng[0] == "le":
        return f"{var} <= {rng[1]}"
    return f"{var} matches {rng[1]}..{rng[2]}"


def cond_holds(v, rng):
    """`execute if score` on an unset score is false"""
    if v is None:
        return False
    if rng[0] == "eq":
        return v == rng[1]
    if rng[0] == "ge":
        return v >= rng[1]
    if rng[0] == "le":
        return v <= rng[1]
    return rng[1] <= v <= rng[2]


def coq_range(rng):
    if rng[0] == "eq":
        return f"(Exact {coq_z(rng[1])})"
    if rng[0] == "ge":
        return f"(From {coq_z(rng[1])})"
    if rng[0] == "le":
        return f"(To {coq_z(rng[1])})"
    return f"(Between {coq_z(rng[1])} {coq_z(rng[2])})"


def ret_text(s):
    """the command a `return` statement compiles to"""
    return {"val": f"return {s[2]}", "fail": "return fail", "say": f"return run say {s[2]}"}[s[1]]


def inlined_if(body):
    """add_arrow_function: a body that compiles to ONE command without a line break stands behind `execute if … run`;
    every statement here compiles to one command except switch / Hardcode.switch (several lines)"""
    return len(body) == 1 and body[0][0] not in ("switch", "hard", "break")


def functions_of_case(case):
    """[(name, body)] in source order"""
    more = case.get("more") or {}
    order = case.get("order") or [FNAME] + list(more)
    return [(n, case["prog"] if n == FNAME else more[n]) for n in order]


def render_case(case) -> str:
    return " ".join(f"function {n}() {{ {render(b)} }}" for n, b in functions_of_case(case))


def coq_score(s):
    return f"({coq_str(s[0])}, {coq_str(s[1])})"


def coq_stmts(stmts, cert) -> str:
    out = []
    for s in stmts:
        if s[0] == "say":
            out.append(f"RSay {coq_str(s[1])}")
        elif s[0] == "break":
            out.append("RBreak")
        elif s[0] == "switch":
            ents = []
            for lab, _spell, body in s[2]:
                l = "LDefault" if lab == "default" else f"LNum {coq_z(lab)}"
                ents.append(f"({l}, {coq_stmts(body, cert)})")
            out.append(f"RSwitch {coq_score(score_of(s[1], cert))} {coq_list(ents)}")
        elif s[0] == "set":
            out.append(f"RSet {coq_score(score_of(s[1], cert))} {coq_z(s[2])}")
        elif s[0] == "call":
            out.append(f"RCall {coq_str(s[1])}")
        elif s[0] == "ret":
            out.append(f"RRet {coq_str(ret_text(s)[len('return '):])}")
        elif s[0] == "if":
            out.append(f"RIf {coq_score(score_of(s[1], cert))} {coq_range(s[2])} {coq_stmts(s[3], cert)}")
        elif s[0] == "while":
            out.append(f"RWhile {coq_score(score_of(s[1], cert))} {coq_z(s[2])} {coq_stmts(s[3], cert)}")
        elif s[0] == "hard":
            tm = coq_list(f"({coq_str(a)}, {coq_str(b)})" for a, b in s[4])
            tail = coq_stmts(s[5] if len(s) > 5 else [], cert)
            out.append(f"RHard {coq_score(score_of(s[1], cert))} {coq_z(s[2])} {coq_z(s[3])} {tm} {tail}")
        else:
            raise ValueError(s)
    return coq_list(out)


def names_term(c, ns):
    return (f'(mkNames {coq_str(ns)} {coq_str(c["VAR"])} {coq_str(c["INT"])} {coq_str(c["PRIVATE"])} '
            f'{coq_str(c["LOAD"])} {coq_str(c["TICK"])} {coq_str(c["STORAGE"])})')


def is_macro(pf, fb):
    return pf >= 16 and not fb


# ------------------------------------------------------------------ source-level meaning (the oracle of the search)

class Ambiguous(Exception):
    pass


def interpret(stmts, env, trace, funcs=None, depth=0, bst=False):
    """What the program means: say -> trace; switch -> the body of the case whose label equals the value
    at the moment the switch is reached (default body when there is none and a default is declared;
    otherwise nothing); `$x = k` changes env; `g()` runs the body of g.
    `return` ends the innermost block that JMC compiles to a function of its own — a case / default body, an
    instance of a Hardcode.switch body, a loop body (the loop ends: the re-test is skipped), an `if` body of more
    than one command, a user function; an `if` body of one command is inlined (`execute if … run <command>`), so a
    return in it ends the block around the `if`.  The switch statement itself always goes on with what follows it.
    bst: the binary-search lowering copies the switched score into __switch__N with `scoreboard players operation`,
    which CREATES an unset source score (= 0); the macro lowering reads it with `scoreboard players get` and leaves it
    unset.  Both dispatch on 0; the difference is visible to a later `if` on that score (C06_bst_exact states the
    copy's effect, do_op; it is not a matter of which case runs).
    -> True when a return is propagating out of `stmts`."""
    for s in stmts:
        if s[0] == "say":
            trace.append(s[1])
        elif s[0] == "break":
            pass
        elif s[0] == "set":
            env[s[1]] = s[2]
        elif s[0] == "ret":
            if s[1] == "say":
                trace.append(s[2])
            return True
        elif s[0] == "if":
            if cond_holds(env.get(s[1]), s[2]):
                r = interpret(s[3], env, trace, funcs, depth, bst)
                if r and inlined_if(s[3]):
                    return True
        elif s[0] == "while":
            n = 0
            while cond_holds(env.get(s[1]), ("le", s[2] - 1)):
                n += 1
                if n > 50:
                    raise Ambiguous()
                env[s[1]] = env[s[1]] + 1
                if interpret(s[3], env, trace, funcs, depth, bst):
                    break
        elif s[0] == "call":
            if depth > 20 or not funcs or s[1] not in funcs:
                raise Ambiguous()
            interpret(funcs[s[1]], env, trace, funcs, depth + 1, bst)
        elif s[0] == "switch":
            if bst and env.get(s[1]) is None:
                env[s[1]] = 0
            v = env.get(s[1])
            v = 0 if v is None else v                   # an unset score reads as 0
            hits = [b for lab, _sp, b in s[2] if lab == v]
            dfl = [b for lab, _sp, b in s[2] if lab == "default"]
            if len(hits) > 1 or len(dfl) > 1:
                raise Ambiguous()
            if hits:
                interpret(hits[0], env, trace, funcs, depth, bst)
            elif dfl:
                interpret(dfl[0], env, trace, funcs, depth, bst)
        elif s[0] == "hard":
            if bst and env.get(s[1]) is None:
                env[s[1]] = 0
            v = env.get(s[1])
            v = 0 if v is None else v
            if s[2] <= v <= s[3]:
                for pre, post in s[4]:
                    trace.append(f"{pre}{v}{post}")
                if len(s) > 5:
                    interpret(s[5], env, trace, funcs, depth, bst)
    return False


def meaning(case, env):
    """trace of one call of f from env (env is not modified)"""
    trace = []
    interpret(case["prog"], dict(env), trace, dict(functions_of_case(case)), 0, not is_macro(case["pf"], case["fb"]))
    return trace


def expect_compiles(stmts, macro):
    """Source-level rule: True = must compile, False = must be rejected (None = either: not used any more).
    Macro dispatch takes any labels and default; the binary search needs consecutive ascending labels and no
    default; the first entry is always a case."""
    verdict = True
    for s in stmts:
        if s[0] == "switch":
            labs = [lab for lab, _sp, _b in s[2]]
            if not labs or labs[0] == "default":
                return False
            if not macro:
                if "default" in labs or labs != list(range(labs[0], labs[0] + len(labs))):
                    return False
            for _lab, _sp, b in s[2]:
                v = expect_compiles(b, macro)
                if v is False:
                    return False
                if v is None:
                    verdict = None
        elif s[0] in ("if", "while"):
            v = expect_compiles(s[3], macro)
            if v is False:
                return False
            if v is None:
                verdict = None
        elif s[0] == "hard":
            if s[2] > s[3]:
                return False                            # count < begin_at: "the switch would have no case"
            elif len(s) > 5 and s[5]:
                v = expect_compiles(s[5], macro)
                if v is False:
                    return False
                if v is None:
                    verdict = None
    return verdict


def switch_vars(stmts, acc=None):
    """{var: set of labels} over the whole program"""
    acc = {} if acc is None else acc
    for s in stmts:
        if s[0] == "switch":
            labs = acc.setdefault(s[1], set())
            for lab, _sp, b in s[2]:
                if lab != "default":
                    labs.add(lab)
                switch_vars(b, acc)
        elif s[0] == "hard":
            acc.setdefault(s[1], set()).update(range(s[2], s[3] + 1))
            if len(s) > 5:
                switch_vars(s[5], acc)
        elif s[0] == "set":
            acc.setdefault(s[1], set()).add(s[2])
        elif s[0] == "if":
            acc.setdefault(s[1], set()).update(s[2][1:])
            switch_vars(s[3], acc)
        elif s[0] == "while":
            acc.setdefault(s[1], set()).add(s[2])
            switch_vars(s[3], acc)
    return acc


def case_vars(case):
    acc = {}
    for _n, b in functions_of_case(case):
        switch_vars(b, acc)
    return acc


def clamp(v):
    return max(INT_MIN, min(INT_MAX, v))


def value_grid(labels):
    if not labels:
        return [None, 0, 1]
    lo, hi = min(labels), max(labels)
    vals = set(labels)
    if hi - lo <= 80:
        vals.update(range(lo - 3, hi + 4))
    else:
        for l in labels:
            vals.update((l - 1, l + 1))
        vals.update((lo - 3, hi + 3))
    vals = {clamp(v) for v in vals}
    vals.update((INT_MIN, INT_MAX, 0))
    return [None] + sorted(vals)


def is_loop_var(n):
    return n.startswith("$i")


def loop_grid(bounds):
    """a loop counter only starts near its bound (the loop runs `bound - start` times)"""
    lo, hi = min(bounds), max(bounds)
    return [None] + list(range(lo - 3, hi + 2))


def envs_for(case, rng, cap=90):
    vs = case_vars(case)
    names = list(vs)
    if not names:
        return [{}]
    grids = {n: (loop_grid(vs[n]) if is_loop_var(n) else value_grid(vs[n])) for n in names}
    envs = []
    # every value of every variable, the other variables drawn at random from their grids
    for n in names:
        for v in grids[n]:
            e = {m: rng.choice(grids[m]) for m in names}
            e[n] = v
            envs.append(e)
    if len(envs) > cap:
        keep = envs[:: max(1, len(envs) // cap)]
        envs = keep[:cap] + [e for e in envs if any(v in (INT_MIN, INT_MAX, None) for v in e.values())][:12]
    return envs


class _Ret(Exception):
    pass


class RVM(VM):
    """mcvm + Minecraft's `return`: `return <value>` / `return fail` / `return run <command>` (also behind
    `execute … run`) end the function they are written in — the rest of its lines is skipped — and nothing else;
    + `function <f> {k:v,…}` (macro arguments given literally; `function <f> with {…}` is not Minecraft syntax)"""

    def run_func(self, name, margs=None):
        d = self.depth
        try:
            return VM.run_func(self, name, margs)
        except _Ret:
            self.depth = d
            return True

    def cmd(self, line):
        import re
        if line == "return" or line.startswith("return "):
            self.steps += 1
            rest = line[7:]
            if rest.startswith("run "):
                self.cmd(rest[4:])
            elif rest != "fail" and not re.fullmatch(r"-?\d+", rest):
                raise Invalid(line)
            raise _Ret()
        m = re.fullmatch(r"function (\S+) \{(.*)\}", line)
        if m:
            self.steps += 1
            margs = {}
            for kv in filter(None, m.group(2).split(",")):
                k, v = kv.split(":", 1)
                margs[k.strip()] = v.strip()
            return self.run_func(m.group(1), margs), 0
        return VM.cmd(self, line)


def vm_trace(funcs, ns, fname, env, cert, pf):
    vm = RVM(funcs, ns=ns, max_steps=20000)
    for var, v in env.items():
        if v is not None:
            vm.s[score_of(var, cert)] = v
    # macro lines / `with storage` are not commands before pack format 16
    if pf is not None and pf != -1 and pf < MACRO_MIN_FORMAT:
        for name, text in funcs.items():
            for line in text.split("\n"):
                if line.startswith("$") or " with storage " in line:
                    raise Invalid(f"macro syntax in a pack of format {pf}: {line!r} ({name})")
    vm.run_func(f"{ns}:{fname}")
    return vm.trace


def run_twice_failure(case, funcs, rng, cert):
    """The function is called twice in the same world (scores and storage persist): a flag or temp score
    left over from the first call must not change what the second call does."""
    envs = envs_for(case, rng, cap=40)
    pairs = [(rng.choice(envs), rng.choice(envs)) for _ in range(12)]
    for e1, e2 in pairs:
        try:
            exp = meaning(case, e1) + meaning(case, e2)
        except Ambiguous:
            return None
        vm = RVM(funcs, ns=case["ns"], max_steps=40000)
        try:
            for e in (e1, e2):
                for var, v in e.items():
                    k = score_of(var, cert)
                    if v is None:
                        vm.s.pop(k, None)
                    else:
                        vm.s[k] = v
                vm.run_func(f"{case['ns']}:{FNAME}")
        except (Invalid, OutOfFuel) as e:
            return dict(kind="invalid-command", detail=str(e), env=e1, env_second_call=e2)
        if vm.trace != exp:
            return dict(kind="wrong-cases-run-on-second-call", env=e1, env_second_call=e2, expected=exp, actual=vm.trace)
    return None


def semantic_failure(case, funcs, rng):
    """Run the real emitted functions from a grid of values; first failure or None."""
    cert = CERTS[case["cert"]]
    try:
        f2 = None
        for env in envs_for(case, rng):
            try:
                exp = meaning(case, env)
            except Ambiguous:
                return None
            try:
                got = vm_trace(funcs, case["ns"], FNAME, env, cert, case["pf"])
            except Invalid as e:
                return dict(kind="invalid-command", detail=str(e), env=env)
            except OutOfFuel:
                return dict(kind="no-termination", env=env)
            if got != exp:
                return dict(kind="wrong-cases-run", env=env, expected=exp, actual=got)
        f2 = run_twice_failure(case, funcs, rng, cert)
        if f2:
            return f2
    except RecursionError:
        return dict(kind="no-termination", env={})
    return None


# ------------------------------------------------------------------ generators

def says(tag, k=1):
    return [("say", f"{tag}" if i == 0 else f"{tag} more{i}") for i in range(k)]


def simple_switch(var, labels, tag="c", brk="alt", default=None):
    ents = []
    for i, l in enumerate(labels):
        body = says(f"{tag}{l}")
        if brk == "all" or (brk == "alt" and i % 2 == 0):
            body = body + [("break",)]
        ents.append((l, str(l), body))
    if default is not None:
        ents.insert(default if default >= 1 else len(ents), ("default", "default", says(f"{tag}dflt")))
    return ("switch", var, ents)


CFG_MAIN = [(15, False), (48, False), (48, True)]


def gen_cases(rng, tier):
    cases = []

    def add(prog, pf, fb, stream, cert=0, ns=0, dup=False, more=None, order=None):
        cases.append(dict(prog=prog, pf=pf, fb=fb, stream=stream, cert=cert, ns=NAMESPACES[ns], dup=dup,
                          more=more, order=order))

    # (A) exhaustive small: every start label x every size, both strategies (+ forced bst at 48)
    for lo in (-5, -1, 0, 1, 7):
        for n in range(1, 34):
            for pf, fb in CFG_MAIN:
                add([simple_switch("$x", list(range(lo, lo + n)))], pf, fb, "A-exhaustive")
    # (B) strategy table: pack formats around every threshold x #forcebst x program shapes
    shapes = {
        "contig2": [simple_switch("$x", [4, 5])],
        "single": [simple_switch("$x", [3])],
        "sparse": [simple_switch("$x", [3, 7, 5])],
        "default": [simple_switch("$x", [1, 2], default=0)],
    }
    for pf in (-1, 4, 9, 15, 16, 17, 26, 47, 48, 61, 99):
        for fb in (False, True):
            for nm, prog in shapes.items():
                add(prog, pf, fb, "B-strategy-" + nm, cert=(pf % 2), ns=(pf % 2))
    # (C) macro mode: sparse sets, default at every position, boundary labels, descending, duplicates
    sparse_sets = [[5], [0], [-1], [10, 20, 30], [30, 20, 10], [-7, 0, 7], [1, 3], [2, 1], [INT_MAX], [INT_MIN],
                   [INT_MIN, INT_MAX, 0], [INT_MAX - 1, INT_MAX], [100, 101, 103], [0, 2, 4, 6, 8, 10, 12]]
    nrand = 10 if tier == "quick" else 120
    for _ in range(nrand):
        k = rng.randint(1, 9)
        pool = rng.choice([range(-6, 12), range(-1000, 1000), range(INT_MIN, INT_MAX)])
        sparse_sets.append(rng.sample(pool, k) if len(pool) < 10**6 else [rng.randint(INT_MIN, INT_MAX) for _ in range(k)])
    for labels in sparse_sets:
        labels = list(dict.fromkeys(labels))
        for dpos in [None, 0] + ([1] if len(labels) > 1 else []):
            for pf, fb in ((48, False), (16, False)):
                add([simple_switch("obj:@s", labels, default=dpos)], pf, fb, "C-macro-sparse", cert=1)
    for labels in ([3, 3], [1, 2, 1], [4, 5, 4, 5]):
        ents = [(l, str(l), says(f"d{i}_{l}")) for i, l in enumerate(labels)]
        add([("switch", "$x", ents)], 48, False, "C-macro-duplicate", dup=True)
    add([("switch", "$x", [(1, "1", says("a")), ("default", "default", says("d1")), ("default", "default", says("d2"))])],
        48, False, "C-macro-duplicate", dup=True)
    # label spellings that int() normalises
    add([("switch", "$x", [(7, "007", says("a")), (8, "8", says("b"))])], 15, False, "C-spelling")
    add([("switch", "$x", [(0, "-0", says("a")), (1, "01", says("b"))])], 15, False, "C-spelling")
    add([("switch", "$x", [(-3, "-3", says("a")), (12, "0012", says("b"))])], 48, False, "C-spelling")
    # (D) Hardcode.switch: every (begin_at, count <= 12)
    for b in range(-3, 13):
        for cnt in range(1, 13):
            for pf, fb in CFG_MAIN:
                add([("hard", "$x", b, cnt, [("h", "")] if (b + cnt) % 2 else [("idx ", " end"), ("again ", "")])],
                    pf, fb, "D-hardcode", cert=(cnt % 2))
    # (E) random structured programs: sequences, nesting, breaks anywhere, empty bodies, block-first bodies
    def rand_body(depth, tag):
        k = rng.choice([0, 1, 1, 1, 2, 3])
        body = []
        for j in range(k):
            r = rng.random()
            if r < 0.15:
                body.append(("break",))
            elif r < (0.35, 0.25, 0.12)[min(depth, 2)] and depth < 3:
                body.append(rand_switch(depth + 1, f"{tag}n{j}"))
            elif r < 0.48:
                b = rng.randint(-2, 4)
                body.append(("hard", VARS[min(depth + 1, len(VARS) - 1)], b, max(1, b + rng.randint(0, 3)), [(f"{tag}h", "")]))
            else:
                body.append(("say", f"{tag}s{j}"))
        if rng.random() < 0.5 or not body:
            body.append(("break",))               # (a label needs a statement: an empty body is written `break;`)
        return body

    def rand_switch(depth, tag, contiguous=None):
        n = rng.choice([1, 1, 2, 2, 3, 3, 4, 5, 6, 9])
        contiguous = cfg_bst if contiguous is None else contiguous
        lo = rng.choice([-4, -1, 0, 1, 1, 2, 10])
        if contiguous:
            labels = list(range(lo, lo + n))
        else:
            labels = rng.sample(range(-6, 14), n)
        ents = [(l, str(l), rand_body(depth, f"{tag}c{l}")) for l in labels]
        if not contiguous and rng.random() < 0.5:
            ents.insert(rng.randint(1, len(ents)), ("default", "default", rand_body(depth, f"{tag}dflt")))
        return ("switch", VARS[depth], ents)

    nprog = 60 if tier == "quick" else 600
    for i in range(nprog):
        pf, fb = rng.choice([(15, False), (48, False), (48, True), (16, False), (8, False), (-1, False)])
        cfg_bst = not is_macro(pf, fb)
        prog = []
        for j in range(rng.choice([1, 1, 2, 3])):
            r = rng.random()
            if r < 0.7:
                prog.append(rand_switch(0, f"p{j}"))
            elif r < 0.85:
                prog.append(("say", f"top{j}"))
            else:
                b = rng.randint(-2, 3)
                prog.append(("hard", "$x", b, max(1, b + rng.randint(0, 4)), [(f"t{j}h", "")]))
        if not any(s[0] != "say" for s in prog):
            prog.append(rand_switch(0, "px"))
        add(prog, pf, fb, "E-random", cert=i % 2, ns=(i // 2) % 2)
    # (F) adversarial: labels the binary search cannot take, default in bst, first entry default, big trees,
    #     int32 boundary ranges
    for pf, fb in ((15, False), (48, True), (-1, False), (-1, True), (48, False)):
        add([simple_switch("$x", [1, 3])], pf, fb, "F-noncontiguous")
        add([simple_switch("$x", [2, 1])], pf, fb, "F-noncontiguous")
        add([simple_switch("$x", [5, 5])], pf, fb, "F-noncontiguous", dup=True)
        add([simple_switch("$x", [1, 2, 3, 5, 6])], pf, fb, "F-noncontiguous")
        add([simple_switch("$x", [1, 2], default=0)], pf, fb, "F-default")
        add([simple_switch("$x", [1, 2], default=1)], pf, fb, "F-default")
        add([("switch", "$x", [("default", "default", says("d")), (1, "1", says("a"))])], pf, fb, "F-default-first")
        add([simple_switch("$x", list(range(INT_MAX - 2, INT_MAX + 1)))], pf, fb, "F-int32-edge")
        add([simple_switch("$x", list(range(INT_MIN, INT_MIN + 4)))], pf, fb, "F-int32-edge")
        for n in (34, 47, 64, 65, 100):
            add([simple_switch("$y", list(range(-n // 2, -n // 2 + n)), brk="none")], pf, fb, "F-big")
    # (G) a block statement (nested switch) directly after a label: the statement must end at its `}`
    inner = lambda tag: ("switch", "$y", [(1, "1", says(tag + "i1")), (2, "2", says(tag + "i2") + [("break",)])])
    for pf, fb in ((15, False), (48, False), (48, True)):
        add([("switch", "$x", [(1, "1", [inner("a"), ("say", "after a")]), (2, "2", says("b"))])], pf, fb, "G-block-first")
        add([("switch", "$x", [(1, "1", [inner("a")]), (2, "2", [inner("b"), ("say", "after b"), ("break",)]),
                                (3, "3", says("c"))])], pf, fb, "G-block-first")
        add([("switch", "$x", [(1, "1", [inner("a"), inner("aa"), ("say", "after aa")]), (2, "2", says("b"))]),
             ("say", "end")], pf, fb, "G-block-first")
    add([("switch", "$x", [(-2, "-2", [inner("a"), ("say", "after a")]), (-1, "-1", [inner("b")]), (0, "0", says("c"))])],
        15, False, "G-block-first")
    add([("switch", "$x", [(-7, "-7", [inner("a"), ("say", "after a")]), (5, "5", [inner("b")]), (-1, "-1", says("c"))])],
        48, False, "G-block-first")
    add([("switch", "$x", [(4, "4", [inner("a")]), ("default", "default", [inner("d"), ("say", "after d")]),
                            (9, "9", says("n"))])], 48, False, "G-block-first")
    # (H) strengthening round 2: two switches on the SAME score, the inner one reached from inside a case body of
    #     the outer one (inline / through a called function / Hardcode.switch on either side), the body changing the
    #     score first: every switch needs a temp score of its own (C06_bst_exact's frame hypothesis), and the value
    #     tested is the one at the moment the switch is reached.  Not the known finding C06-bst-reentrant: no
    #     switch is re-entered here, the programs are not recursive.
    def sw(var, lo, n, tag, bodies=None, default=False):
        ents = []
        for l in range(lo, lo + n):
            ents.append((l, str(l), (bodies or {}).get(l, says(f"{tag} {l}") + ([("break",)] if l % 2 else []))))
        if default:
            ents.append(("default", "default", says(f"{tag} dflt")))
        return ("switch", var, ents)

    def same_score(var, lo, n, t, w, inner_kind, outer_kind, inner_n=None, inner_lo=None, default=False):
        """outer dispatch on var over lo..lo+n-1; the body of case t says, sets var = w and reaches the inner
        dispatch on var.  -> (prog, more, order)"""
        inner_n = inner_n or n
        inner_lo = lo if inner_lo is None else inner_lo
        inner_sw = sw(var, inner_lo, inner_n, "inner", default=default and inner_kind != "hard")
        inner_hard = ("hard", var, inner_lo, inner_lo + inner_n - 1, [("inner ", "")])
        more, order = None, None
        if inner_kind == "inline":
            reach = [inner_sw]
        elif inner_kind == "hard":
            reach = [inner_hard]
        elif inner_kind in ("call", "call_before", "call_hard"):
            reach = [("call", "g")]
            more = {"g": [inner_hard if inner_kind == "call_hard" else inner_sw]}
            order = ["g", FNAME] if inner_kind == "call_before" else [FNAME, "g"]
        elif inner_kind == "call_twice":           # g is also called at top level, before the outer switch
            reach = [("call", "g")]
            more = {"g": [inner_sw]}
            order = [FNAME, "g"]
        elif inner_kind == "none":                 # the body only changes the score
            reach = []
        else:
            raise ValueError(inner_kind)
        tbody = [("say", f"outer {t}"), ("set", var, w)] + reach + [("say", f"outer {t} end")]
        if outer_kind == "switch":
            outer = sw(var, lo, n, "outer", bodies={t: tbody + [("break",)]}, default=default)
            prog = [outer]
        else:                                      # Hardcode.switch outside: every index has the same tail
            outer = ("hard", var, lo, lo + n - 1, [("outer ", "")], [("set", var, w)] + reach + [("say", "outer end")])
            prog = [outer]
        if inner_kind == "call_twice":
            prog = [("call", "g")] + prog
        return prog + [("say", "after")], more, order

    hi = 0
    for var in ("$state", "obj:@s"):
        for pf, fb in CFG_MAIN:
            macro = is_macro(pf, fb)
            for inner_kind in ("inline", "call", "call_before", "hard", "call_hard", "call_twice", "none"):
                for outer_kind in ("switch", "hard"):
                    for (lo, n, t, w) in ((1, 3, 1, 3), (1, 3, 3, 1), (1, 4, 2, 4), (0, 2, 0, 1), (-2, 5, -1, 2),
                                          (1, 3, 2, 7), (5, 1, 5, 5), (1, 8, 3, 6)):
                        hi += 1
                        if tier == "quick" and var != "$state" and hi % 3:
                            continue
                        if outer_kind == "hard" and inner_kind in ("inline", "hard") and n > 4:
                            continue
                        prog, more, order = same_score(var, lo, n, t, w, inner_kind, outer_kind,
                                                       inner_n=(n if hi % 2 else n + 1), inner_lo=(lo if hi % 4 else lo - 1),
                                                       default=macro and hi % 2 == 0)
                        add(prog, pf, fb, f"H-same-score-{outer_kind}-{inner_kind}", cert=hi % 2, ns=(hi // 2) % 2,
                            more=more, order=order)
    # two and three levels: outer -> g -> h, every level switching on the same score and changing it
    for pf, fb in CFG_MAIN:
        for (a1, a2) in ((2, 3), (3, 1), (1, 1)):
            h = [sw("$state", 1, 3, "h")]
            g = [sw("$state", 1, 3, "g", bodies={a1: [("say", f"g {a1}"), ("set", "$state", a2), ("call", "h"), ("say", "g end")]})]
            f = [sw("$state", 1, 3, "f", bodies={1: [("say", "f 1"), ("set", "$state", a1), ("call", "g"), ("say", "f end"), ("break",)]}),
                 ("say", "after")]
            add(f, pf, fb, "H-same-score-three-levels", more={"g": g, "h": h}, order=[FNAME, "g", "h"])
            add(f, pf, fb, "H-same-score-three-levels", more={"g": g, "h": h}, order=["h", "g", FNAME], cert=1)
        # sequence in one body: switch, change, switch again (same score), then the enclosing tree goes on
        for (t, w) in ((1, 2), (2, 3), (3, 3)):
            body = [("say", "in"), sw("$state", 1, 3, "first"), ("set", "$state", w), sw("$state", 1, 3, "second")]
            add([sw("$state", 1, 3, "outer", bodies={t: body}), ("say", "after")], pf, fb, "H-same-score-sequence")
        # siblings: two switches on the same score one after the other, the first one's case body changing the score
        for (t, w) in ((1, 2), (2, 1), (3, 3), (1, 3)):
            first = sw("$state", 1, 3, "first", bodies={t: [("say", f"first {t}"), ("set", "$state", w), ("break",)]})
            add([first, sw("$state", 1, 3, "second"), ("say", "after")], pf, fb, "H-same-score-siblings")
            add([first, ("hard", "$state", 1, 3, [("second ", "")]), ("say", "after")], pf, fb, "H-same-score-siblings", cert=1)
            add([("call", "g"), sw("$state", 1, 3, "second"), ("say", "after")], pf, fb, "H-same-score-siblings",
                more={"g": [first]}, order=[FNAME, "g"])
    # (I) strengthening round 4: `return` inside case bodies.  A case function of a macro switch WITH default ends in the
    #     line `scoreboard players set __found_case__ <VAR> 1`; a return in the body must not skip it (otherwise `default`
    #     runs as well): the body gets a function of its own (DataPack.isolate_return).  Every spelling of a return
    #     (value / fail / run <command> / behind an inlined `if` / inside a block `if`, a loop, a nested switch, a called
    #     function), at every position of the body, in every case (and in `default`), both lowerings, with and without
    #     default, contiguous and sparse labels, switch and Hardcode.switch.
    def ret_forms(tag):
        """name -> the statements that stand for `the return`; forms whose return leaves the case body come first"""
        inner_sw = lambda body1, dflt=None: ("switch", "$z", [(1, "1", body1), (2, "2", says(f"{tag} z2"))] +
                                             ([("default", "default", dflt)] if dflt else []))
        return {
            # the return leaves the case body
            "val": [("ret", "val", 1)],
            "val0": [("ret", "val", 0)],
            "neg": [("ret", "val", -7)],
            "fail": [("ret", "fail", None)],
            "run": [("ret", "say", f"{tag} ret-say")],
            "if-eq": [("if", "$y", ("eq", 1), [("ret", "val", 1)])],
            "if-range": [("if", "$y", ("in", 1, 2), [("ret", "fail", None)])],
            "if-ge": [("if", "obj2:@s", ("ge", 1), [("ret", "say", f"{tag} ret-say")])],
            "if-if": [("if", "$y", ("le", 1), [("if", "$z", ("eq", 1), [("ret", "val", 5)])])],
            # the return leaves an inner block only (no word `return` in the case body)
            "if-block": [("if", "$y", ("eq", 1), [("say", f"{tag} in-if"), ("ret", "val", 1), ("say", f"{tag} dead")])],
            "if-block-if": [("if", "$y", ("ge", 1), [("say", f"{tag} in-if"), ("if", "$z", ("eq", 1), [("ret", "val", 1)]),
                                                     ("say", f"{tag} if-end")])],
            "while": [("while", "$i", 2, [("say", f"{tag} loop"), ("if", "$y", ("eq", 1), [("ret", "val", 1)]),
                                         ("say", f"{tag} loop-end")])],
            "while-ret": [("while", "$i", 2, [("ret", "val", 3)])],
            "nested-case": [inner_sw([("say", f"{tag} z1"), ("ret", "val", 1), ("say", f"{tag} dead")])],
            "nested-default": [inner_sw(says(f"{tag} z1"), [("ret", "val", 2)])],
            "nested-case-dflt": [inner_sw([("ret", "val", 1)], says(f"{tag} zd"))],
            "call": [("call", "g")],
            "hard": [("hard", "$z", 1, 2, [(f"{tag} h", "")], [("if", "$y", ("eq", 1), [("ret", "val", 1)]), ("say", f"{tag} h-end")])],
        }

    G_RET = {"g": [("say", "g pre"), ("if", "$y", ("eq", 1), [("ret", "val", 1)]), ("say", "g post")]}

    def ret_body(tag, form_stmts, pos):
        pre, post = ("say", f"{tag} pre"), ("say", f"{tag} post")
        return {"first": form_stmts + [post], "middle": [pre] + form_stmts + [post], "last": [pre] + form_stmts,
                "only": list(form_stmts), "break-after": [pre] + form_stmts + [("break",), post],
                "twice": form_stmts + [post] + form_stmts}[pos]

    def ret_switch(var, labels, where, form, pos, default_at, other_ret=None):
        """switch over labels; the body of labels[where] (or of default when where == "default") holds the return"""
        ents = []
        for i, l in enumerate(labels):
            tag = f"c{l}"
            if where == i or where == "all":
                body = ret_body(tag, ret_forms(tag)[form], pos)
            elif other_ret is not None and i == other_ret:
                body = ret_body(tag, ret_forms(tag)["val"], "last")
            else:
                body = says(tag) + ([("break",)] if i % 2 else [])
            ents.append((l, str(l), body))
        if default_at is not None:
            dbody = ret_body("dflt", ret_forms("dflt")[form], pos) if where == "default" else says("dflt")
            ents.insert(default_at if default_at >= 1 else len(ents), ("default", "default", dbody))
        return ("switch", var, ents)

    FORMS = list(ret_forms("t"))
    POSITIONS = ["first", "middle", "last", "only", "break-after", "twice"]
    ri = 0
    for form in FORMS:
        more = G_RET if form == "call" else None
        order = ([FNAME, "g"], ["g", FNAME])
        for pos in POSITIONS:
            for (pf, fb), labels, default_at in (((48, False), [1, 2, 3], 0), ((48, False), [4, 9, -2], 1),
                                                 ((48, False), [1, 2, 3], None), ((16, False), [7], 0),
                                                 ((15, False), [1, 2, 3], None), ((48, True), [0, 1], None),
                                                 ((15, False), [5], None)):
                ri += 1
                heavy = pos in ("break-after", "twice") or (pf, fb) in ((16, False), (15, False), (48, True))
                if tier == "quick" and heavy and ri % 3:
                    continue
                where = ri % len(labels)
                add([ret_switch("$x", labels, where, form, pos, default_at), ("say", "after")], pf, fb,
                    f"I-return-{form}", cert=ri % 2, ns=(ri // 2) % 2, more=more, order=order[ri % 2] if more else None)
        # in `default`, in every case at once, in two cases
        for (pf, fb), dflt in (((48, False), True), ((16, False), True), ((48, False), False), ((15, False), False)):
            ri += 1
            if dflt:
                add([ret_switch("$x", [1, 2], "default", form, "middle", 1), ("say", "after")], pf, fb,
                    f"I-return-in-default-{form}", cert=ri % 2, more=more)
            add([ret_switch("$x", [1, 2, 3], "all", form, "middle", 0 if dflt else None), ("say", "after")], pf, fb,
                f"I-return-all-cases-{form}", ns=ri % 2, more=more)
            add([ret_switch("obj:@s", [3, 4, 5], 0, form, "last", 0 if dflt else None, other_ret=2)], pf, fb,
                f"I-return-two-cases-{form}", cert=1, more=more)
    # Hardcode.switch: the body of every index returns (tail), both lowerings; inside a case of a switch with default
    for form in ("val", "fail", "run", "if-eq", "if-block", "while", "nested-case-dflt"):
        for pf, fb in CFG_MAIN:
            tail = ret_body("h", ret_forms("h")[form], "middle")
            add([("hard", "$x", 1, 3, [("idx ", "")], tail), ("say", "after")], pf, fb, f"I-return-hardcode-{form}")
            if is_macro(pf, fb):
                outer = ("switch", "$y", [(1, "1", [("hard", "$x", 1, 2, [("idx ", "")], tail), ("say", "y1 end")]),
                                          ("default", "default", says("ydflt"))])
                add([outer, ("say", "after")], pf, fb, f"I-return-hardcode-in-case-{form}", cert=1)
    # two levels of switches with default: the inner case returns (inner body isolated, outer body not), the outer body
    # returns after the inner switch (outer body isolated, holding the inner dispatcher), both
    for inner_ret in (False, True):
        for outer_ret in (False, True):
            if not (inner_ret or outer_ret):
                continue
            inner = ("switch", "$y", [(1, "1", [("say", "in1")] + ([("ret", "val", 1)] if inner_ret else []) + [("say", "in1 end")]),
                                      (2, "2", says("in2")), ("default", "default", says("in dflt"))])
            obody = [("say", "out1"), inner] + ([("if", "$z", ("eq", 1), [("ret", "fail", None)])] if outer_ret else []) + [("say", "out1 end")]
            outer = ("switch", "$x", [(1, "1", obody), (2, "2", says("out2")), ("default", "default", says("out dflt"))])
            for pf in (48, 16):
                add([outer, ("say", "after")], pf, False, "I-return-two-levels")
            # the same statement twice in one function: the counts of the isolated bodies go on
            add([outer, ("say", "between"), outer], 48, False, "I-return-two-levels", cert=1, ns=1)
    # random structured case bodies with returns / ifs / loops at random depth
    def rand_ret_body(depth, tag, bst):
        k = rng.choice([1, 2, 2, 3, 4])
        body = []
        for j in range(k):
            r = rng.random()
            t = f"{tag}s{j}"
            if r < 0.22:
                body.append(rng.choice([("ret", "val", rng.choice([0, 1, -1, 9])), ("ret", "fail", None), ("ret", "say", t + " ret")]))
            elif r < 0.42 and depth < 3:
                var = rng.choice(["$y", "$z", "obj2:@s"])
                rg = rng.choice([("eq", 1), ("ge", 1), ("le", 0), ("in", 0, 1)])
                body.append(("if", var, rg, rand_ret_body(depth + 1, t, bst)))
            elif r < 0.5 and depth < 2:
                body.append(("while", "$i" if depth == 0 else "$i2", rng.choice([1, 2]), rand_ret_body(depth + 1, t, bst)))
            elif r < 0.62 and depth < 2:
                n = rng.choice([1, 2, 3])
                labels = list(range(1, n + 1)) if bst else rng.sample(range(-2, 5), n)
                ents = [(l, str(l), rand_ret_body(depth + 1, f"{t}c{l}", bst)) for l in labels]
                if not bst and rng.random() < 0.7:
                    ents.insert(rng.randint(1, len(ents)), ("default", "default", rand_ret_body(depth + 1, t + "d", bst)))
                body.append(("switch", "$z" if depth == 0 else "$w", ents))
            elif r < 0.68:
                body.append(("break",)) if depth == 0 else body.append(("say", t))
            else:
                body.append(("say", t))
        return body

    nrr = 50 if tier == "quick" else 400
    for i in range(nrr):
        pf, fb = rng.choice([(48, False), (48, False), (16, False), (15, False), (48, True)])
        bst = not is_macro(pf, fb)
        n = rng.choice([1, 2, 3, 4])
        labels = list(range(1, n + 1)) if bst else rng.sample(range(-3, 8), n)
        ents = [(l, str(l), rand_ret_body(0, f"c{l}", bst)) for l in labels]
        if not bst and rng.random() < 0.8:
            ents.insert(rng.randint(1, len(ents)), ("default", "default", rand_ret_body(0, "cd", bst)))
        add([("switch", "$x", ents), ("say", "after")], pf, fb, "I-return-random", cert=i % 2, ns=(i // 2) % 2)
    if tier == "thorough":
        for n in (127, 128, 129, 255, 257):
            for pf, fb in CFG_MAIN:
                add([simple_switch("$y", list(range(1, n + 1)), brk="none")], pf, fb, "F-big")
    return cases


# ------------------------------------------------------------------ running the real compiler

def job_of(case):
    cert = CERTS[case["cert"]]
    src = case.get("src") or render_case(case)
    job = dict(src=src, cert=cert_text(cert), namespace=case["ns"])
    if case["pf"] != -1:
        job["pack_format"] = case["pf"]
    if case["fb"]:
        job["header"] = "#forcebst"
    return job


def norm_text(t: str) -> str:
    lines = [l.strip() for l in t.split("\n")]
    return "\n".join(l for l in lines if l and not l.startswith("#"))


def real_functions(files: dict, ns: str, cert) -> dict:
    """{"ns:path": normalised text} of every emitted function except LOAD / TICK"""
    import re
    out = {}
    for k, v in files.items():
        m = re.match(r"VIRTUAL/data/([^/]+)/functions?/(.*)\.mcfunction$", k)
        if not m or m.group(1) == "minecraft":
            continue
        if m.group(2) in (cert["LOAD"], cert["TICK"]):
            continue
        out[f"{m.group(1)}:{m.group(2)}"] = norm_text(v)
    return out


def case_term(case):
    cert = CERTS[case["cert"]]
    if case["res"]["ok"]:
        real = "RFiles " + coq_list(f"({coq_str(k)}, {coq_str(v)})" for k, v in case["funcs"].items())
    else:
        real = f"RError {coq_str(case['res']['exc'])}"
    funcs = coq_list(f"({coq_str(n)}, {coq_stmts(b, cert)})" for n, b in functions_of_case(case))
    return (f"mkCase {names_term(cert, case['ns'])} (mkCfg {coq_z(case['pf'])} {coq_bool(case['fb'])}) "
            f"{funcs} ({real})")


def compile_cases(cases):
    results = compile_batch([job_of(c) for c in cases], chunk=60)
    for c, r in zip(cases, results):
        c["res"] = r
        c["funcs"] = real_functions(r["files"], c["ns"], CERTS[c["cert"]]) if r["ok"] else {}


def shrink_candidates(prog):
    """programs one deletion smaller (a statement, an entry at either end of a switch, a body statement)"""
    def stmts_variants(stmts):
        for i in range(len(stmts)):
            yield stmts[:i] + stmts[i + 1:]
        for i, s in enumerate(stmts):
            if s[0] == "switch":
                ents = s[2]
                if len(ents) > 1:
                    yield stmts[:i] + [("switch", s[1], ents[:-1])] + stmts[i + 1:]
                    yield stmts[:i] + [("switch", s[1], ents[1:])] + stmts[i + 1:]
                for j, (lab, sp, body) in enumerate(ents):
                    for nb in stmts_variants(body):
                        if not nb:
                            nb = [("break",)]
                            if body == nb:
                                continue
                        yield stmts[:i] + [("switch", s[1], ents[:j] + [(lab, sp, nb)] + ents[j + 1:])] + stmts[i + 1:]
            elif s[0] == "hard" and len(s) > 5 and s[5]:
                for nb in stmts_variants(s[5]):
                    yield stmts[:i] + [s[:5] + (nb,)] + stmts[i + 1:]
            elif s[0] in ("if", "while"):
                for nb in stmts_variants(s[3]):
                    if nb:
                        yield stmts[:i] + [s[:3] + (nb,)] + stmts[i + 1:]
    for v in stmts_variants(prog):
        if v and v != prog:
            yield v


def shrink_case_candidates(case):
    """smaller cases: the main function shrunk, or one of the other functions shrunk"""
    for v in shrink_candidates(case["prog"]):
        yield dict(case, prog=v)
    for n, b in (case.get("more") or {}).items():
        for v in shrink_candidates(b):
            yield dict(case, more={**case["more"], n: v})


def minimise(case, fail, rng, budget=60):
    """Greedy shrinking of a failing program: keep a smaller program while it still fails the same way."""
    best, best_fail = case, fail
    improved = True
    while improved and budget > 0:
        improved = False
        for c in shrink_case_candidates(best):
            if budget <= 0:
                break
            budget -= 1
            try:
                compile_cases([c])
            except Exception:  # noqa
                continue
            f = case_failure(c, rng)
            if f and f["kind"] == fail["kind"]:
                best, best_fail, improved = c, f, True
                break
    return best, best_fail


def case_failure(c, rng):
    """The failure (or None) of one compiled case against the source-level meaning."""
    must = True
    for _n, b in functions_of_case(c):
        v = expect_compiles(b, is_macro(c["pf"], c["fb"]))
        if v is False:
            must = False
            break
        if v is None:
            must = None
    if not c["res"]["ok"]:
        if not c["res"].get("jmc") and must is not None:
            return dict(kind="compiler-crash", exc=c["res"]["exc"], msg=c["res"]["msg"][:300])
        if must is True:
            return dict(kind="valid-program-rejected", exc=c["res"]["exc"], msg=c["res"]["msg"][:300],
                        expected="compiles (labels are acceptable to the strategy in force)")
        return None
    f = None if c["dup"] else semantic_failure(c, c["funcs"], rng)
    if f:
        return f
    if must is False:
        return dict(kind="invalid-program-accepted",
                    expected="a diagnostic: the binary search cannot represent these labels / default, or a Hardcode.switch without cases",
                    actual="compiled without one")
    return None


def replay_obj(case, fail, kind="semantic-failure"):
    return dict(kind=kind, job=job_of(case), cert_index=case["cert"], namespace=case["ns"], pack_format=case["pf"],
                forcebst=case["fb"], program=case["prog"], more=case.get("more"), order=case.get("order"),
                stream=case["stream"], failure=fail,
                emitted=case.get("funcs"), compile_result=None if case["res"]["ok"] else case["res"],
                how="compile `job` with harness/jmc_run.py, run function <ns>:f in harness/mcvm.py from the scores in "
                    "failure.env (None = unset); expected = source-level meaning of the program")


# ------------------------------------------------------------------ `switch … with {…}` (outside the Coq model)

def with_cases():
    """`switch (x) { … } with {v: 5};` — the case functions are macro functions (`$`-lines see $(v)); an isolated
    case body must be called with the same arguments.  `src` is the program, `prog` an equivalent program without
    macro lines (the oracle): `$return $(v);` = `return 5;`, `$say "v=$(v)";` = `say "v=5";`."""
    out = []
    bodies = {
        "mret": ('say "a"; $return $(v); say "dead";', [("say", "a"), ("ret", "val", 5), ("say", "dead")]),
        "msay-ret": ('$say "v=$(v)"; return 1;', [("say", "v=5"), ("ret", "val", 1)]),
        "msay-if-ret": ('if ($y == 1) { return fail; } $say "v=$(v)";',
                        [("if", "$y", ("eq", 1), [("ret", "fail", None)]), ("say", "v=5")]),
        "mret-run": ('$return run say "v=$(v)";', [("ret", "say", "v=5")]),
    }
    i = 0
    for name, (btxt, bprog) in bodies.items():
        for dflt in (True, False):
            for pf in (48, 61):                     # (`with {…}` needs pack format 48)
                i += 1
                d_src = ' default: $say "d$(v)";' if dflt else ""
                src = (f'function f() {{ switch($x) {{ case 1: {btxt} case 2: $say "two $(v)";{d_src} }} with {{v: 5}}; '
                       f'say "after"; }}')
                ents = [(1, "1", bprog), (2, "2", [("say", "two 5")])] + ([("default", "default", [("say", "d5")])] if dflt else [])
                out.append(dict(prog=[("switch", "$x", ents), ("say", "after")], src=src, pf=pf, fb=False,
                                stream=f"J-with-{name}", cert=i % 2, ns=NAMESPACES[i % 2], dup=False, more=None, order=None))
    return out


# ------------------------------------------------------------------ the re-entrancy probe (documented limit of the bst strategy)

REENTRANT_SRC = ('function f() { switch($x) { case 1: $x = 2; f(); break; case 2: say "two"; break; } }')


def reentrancy_probe():
    """A case body that re-enters the same switch (recursion) overwrites __switch__N; the tree re-reads it
    after the body returns.  C06_bst_exact carries the hypothesis that bodies preserve the temp score."""
    out = {}
    for pf in (15, 48):
        r = compile_batch([dict(src=REENTRANT_SRC, cert=cert_text(CERTS[0]), pack_format=pf)])[0]
        if not r["ok"]:
            out[str(pf)] = "compile error " + r["exc"]
            continue
        funcs = real_functions(r["files"], "TEST", CERTS[0])
        vm = RVM(funcs, ns="TEST", max_steps=5000)
        vm.s[("$x", "__variable__")] = 1
        try:
            vm.run_func("TEST:f")
            out[str(pf)] = vm.trace
        except (Invalid, OutOfFuel) as e:
            out[str(pf)] = "vm: " + str(e)
    return out


# ------------------------------------------------------------------ main

def main(tier: str) -> int:
    ck = Check(PROP, tier)
    ck.cov["trusted_base"] = COMMON_TRUSTED + [
        "Model/Switch.v + Model/SwitchRet.v are a hand-written port of switch()/parse_switch()/__parse_switch_binary() (_flow_control.py), "
        "HardcodeSwitch.call (execute_excluded.py), PackVersion.__ge__/require (pack_version.py) and of the count/name "
        "allocation of datapack.py; tied to /repo by exact text equality of EVERY emitted function (and of the exception "
        "class) on the generated programs below; the macro threshold is regenerated from pack_version.py",
        "outside the model: the tokenizer/statement splitting of the switch body (the check feeds generated programs through "
        "the real tokenizer, so a mis-split shows up as a correspondence difference), `switch … with <nbt>`, "
        "#show_private_command, labels outside int32, Trigger.setup / RightClick.setup (other callers of parse_switch)",
        "C06_bst_exact assumes case bodies leave __switch__N unchanged (a body that re-enters the same switch by recursion "
        "does not; see reentrancy_probe in the evidence)",
        "statements of case bodies: say, break, `$x = k`, `g();` (a call of another user function of the pack), nested switch / "
        "Hardcode.switch (also inside a Hardcode.switch body, which is compiled once per index), and since round 4 `return k|fail|run say …;`, "
        "`if (<score test>) { … }` (inlined or a function of group if_else), `while ($i < k) { $i += 1; … }`; user functions are compiled in "
        "source order with the counters threaded through (Model.SwitchRet.compile_functions_r)",
        "Minecraft's `return` (Model.SwitchRet.rexec, a conservative extension of MC.Sem proved equal to it on return-free packs): a command "
        "whose first word is `return` / `$return`, alone or behind `execute … run`, ends the function it is written in; the effect of the command "
        "behind `return run` on scores is not modelled (COther); the textual test of DataPack.isolate_return (the WORD return in a line) is part "
        "of the model and proved sound for this semantics (C06_no_word_no_return)",
        "`switch … with <arguments>` is outside the Coq model: checked by direct probes (programs with macro lines in case / default bodies run "
        "in the VM against an equivalent program without macro lines)",
        "an unset switched score is created (= 0) by the binary-search lowering (the copy `scoreboard players operation __switch__N = x`, "
        "stated by C06_bst_exact through do_op) and left unset by the macro lowering (`scoreboard players get`); both dispatch on 0; not a matter "
        "of which case runs, the interpreter of the search follows the lowering in force",
        "mcvm.py (untrusted Python VM) and the source-level interpreter in c06.py are used only to search for failing inputs",
    ]
    ck.proof(extra_targets=["Run/C06.vo"])

    # ---- regenerated threshold
    try:
        thr, text = c06_thresholds.thresholds_v(REPO)
        (ok, out), = run_coq_files(GENSUB, [("Thresholds.v", text)])
        if not ok:
            # search: a format between the two thresholds is lowered with the other strategy
            ck.violation(dict(kind="strategy-threshold-changed", regenerated=thr, model=16,
                              theorem="C06_strategy no longer speaks about the code", log=out[-1500:]), no_input=True) \
                if not threshold_witness(ck, thr) else None
    except c06_thresholds.TranslateError as e:
        thr = None
        ck.violation(dict(kind="translator-failed", what=str(e),
                          note="pack_version.py no longer has the shape the fail-closed translator accepts"), no_input=True)

    # ---- correspondence
    cases = gen_cases(ck.rng, tier)
    compile_cases(cases)
    terms = [case_term(c) for c in cases]
    # keep generated files small: big trees are long
    bad, errs = eval_cases(GENSUB, HEADER, terms, per_file=120, prefix="cases")
    # eval_cases cleans the directory: write the thresholds file again for the record
    for e in errs:
        ck.violation(dict(kind="correspondence-file-failed", log=e), no_input=True)
    bad = set(bad)

    # ---- search on the real text (every successfully compiled program)
    sem_fail, n_runs = {}, 0
    for i, c in enumerate(cases):
        n_runs += 1 if c["res"]["ok"] else 0
        f = case_failure(c, ck.rng)
        if f:
            sem_fail[i] = f

    wcases = with_cases()
    compile_cases(wcases)
    with_fail = []
    for c in wcases:
        n_runs += 1 if c["res"]["ok"] else 0
        f = case_failure(c, ck.rng) if c["res"]["ok"] else dict(kind="valid-program-rejected", exc=c["res"]["exc"],
                                                                msg=c["res"]["msg"][:300])
        if f:
            with_fail.append((c, f))
    for c, f in with_fail[:2]:
        ck.violation(replay_obj(c, f))

    reported = set()
    for i, f in sem_fail.items():
        c = cases[i]
        key = (c["stream"], f["kind"], is_macro(c["pf"], c["fb"]))
        if key in reported or len(reported) >= 6:
            continue
        reported.add(key)
        c2, f2 = minimise(c, f, ck.rng)
        ck.violation(replay_obj(c2, f2))
    silent = sorted(i for i in bad if i not in sem_fail)
    if silent:
        exprs = [f"model_text ({case_term(cases[i])})" for i in silent[:4]]
        try:
            model_out = eval_strings(GENSUB, HEADER, exprs)
        except Exception as e:  # noqa
            model_out = [str(e)] * len(exprs)
        ck.violation(dict(kind="correspondence-differs",
                          theorem="C06_bst_exact / C06_macro_exact / C06_switch_exact no longer speak about the code",
                          n_differing=len(silent),
                          cases=[dict(job=job_of(cases[i]), stream=cases[i]["stream"],
                                      real=cases[i]["funcs"] if cases[i]["res"]["ok"] else cases[i]["res"], model=m)
                                 for i, m in zip(silent[:4], model_out)]), no_input=True)

    # ---- documented limit: re-entrancy of the bst temp score
    probe = reentrancy_probe()
    kf = [f for f in known_for(PROP) if f.get("id") == "C06-bst-reentrant"]
    if probe.get("15") == ["two", "two"] and kf:
        ck.known(kf[0]["id"], kf[0]["what"])

    hist, strat = {}, {}
    for c in cases:
        hist[c["stream"]] = hist.get(c["stream"], 0) + 1
        k = ("macro" if is_macro(c["pf"], c["fb"]) else "bst") + ("" if c["res"]["ok"] else ":rejected")
        strat[k] = strat.get(k, 0) + 1
    distinct = len({json.dumps([c["prog"], c.get("more"), c.get("order"), c["pf"], c["fb"], c["cert"], c["ns"]], sort_keys=True)
                    for c in cases})
    ck.cov.update(dict(
        evaluations=len(cases), distinct_nontrivial=distinct,
        rule="a case = one compiled pack (function f, possibly further user functions, containing switch / Hardcode.switch statements); "
             "distinct = distinct (program, pack_format, #forcebst, jmc.txt names, namespace); every case reaches parse_switch or one of the "
             "label-rule rejections, so all are non-trivial.  Stream H (round 2): two dispatches on the SAME score, the inner one reached from a "
             "case body of the outer one (inline / through a called function defined before or after / Hardcode.switch on either side / three "
             "levels / siblings), the body changing the score first.  Stream I (round 4): `return` in case bodies — every spelling (value / fail / "
             "run <command> / behind an inlined if / inside a block if, a loop, a nested switch with or without default, a called function, a "
             "Hardcode.switch body) x every position in the body x both lowerings x with / without default x contiguous / sparse labels, in "
             "`default`, in all cases, two levels of switches with default, random bodies.  Stream J: `switch … with {…}` probes",
        samples=[dict(src=job_of(c)["src"], pack_format=c["pf"], forcebst=c["fb"]) for c in (cases[0], cases[40], cases[-1])],
        programs=len(cases), disagreements_checked=len(bad), semantic_programs=n_runs, with_probes=len(wcases),
        branch_histogram=hist, strategy_histogram=strat, regenerated_VANILLA_MACRO=thr,
        functions_compared=sum(len(c["funcs"]) for c in cases), reentrancy_probe=probe,
        correspondence="text of every emitted function (user function and all private functions) equals the model's, "
                       "same set of function names; rejected programs: same exception class",
    ))
    shutil.rmtree(GEN / GENSUB, ignore_errors=True)
    return ck.finish()


def threshold_witness(ck, thr) -> bool:
    """The macro threshold moved: find a pack format lowered differently from the table and show the consequence."""
    lo, hi = sorted((thr, 16))
    found = False
    for pf in range(lo, hi):
        c = dict(prog=[simple_switch("$x", [3, 7], default=0)], pf=pf, fb=False, stream="threshold", cert=0, ns="TEST", dup=False)
        compile_cases([c])
        if not c["res"]["ok"]:
            if pf >= 16:
                ck.violation(replay_obj(c, dict(kind="rejected-but-supported", exc=c["res"]["exc"],
                                                note=f"pack format {pf} supports macros: sparse labels/default must compile")))
                found = True
            continue
        f = semantic_failure(c, c["funcs"], ck.rng)
        if f:
            ck.violation(replay_obj(c, f))
            found = True
    return found


def replay(path) -> int:
    obj = json.loads(open(path).read())
    if "job" not in obj:
        print("replay file holds no input (no-failing-input-found):", obj.get("kind"))
        print(json.dumps(obj, indent=1)[:3000])
        return 1
    r = compile_batch([obj["job"]])[0]
    cert = CERTS[obj["cert_index"]]
    fail = obj["failure"]
    print("source  :", obj["job"]["src"])
    print("config  : pack_format", obj["pack_format"], "#forcebst" if obj["forcebst"] else "")
    if not r["ok"]:
        print("actual  : compile error", r["exc"], r["msg"][:300])
        print("expected:", fail.get("expected", fail))
        return 1
    if fail.get("kind") in ("valid-program-rejected", "compiler-crash"):
        print("expected: compiles;  actual: compiles (no longer failing)")
        return 0
    if fail.get("kind") == "invalid-program-accepted":
        print("expected:", fail["expected"])
        print("actual  : compiled without a diagnostic")
        return 1
    funcs = real_functions(r["files"], obj["namespace"], cert)
    env = fail.get("env", {})
    rcase = dict(prog=tuplify(obj["program"]), more={n: tuplify(b) for n, b in (obj.get("more") or {}).items()},
                 order=obj.get("order"), pf=obj["pack_format"], fb=obj["forcebst"])
    exp = meaning(rcase, env)
    try:
        if "env_second_call" in fail:
            e2 = fail["env_second_call"]
            exp = exp + meaning(rcase, e2)
            vm = RVM(funcs, ns=obj["namespace"], max_steps=40000)
            for e in (env, e2):
                for var, v in e.items():
                    k = score_of(var, cert)
                    if v is None:
                        vm.s.pop(k, None)
                    else:
                        vm.s[k] = v
                vm.run_func(f"{obj['namespace']}:{FNAME}")
            got = vm.trace
            print("second  :", e2)
        else:
            got = vm_trace(funcs, obj["namespace"], FNAME, env, cert, obj["pack_format"])
    except (Invalid, OutOfFuel) as e:
        got = f"<{type(e).__name__}: {e}>"
    print("scores  :", env)
    print("expected:", exp)
    print("actual  :", got)
    return 0 if got == exp else 1


def tuplify(stmts):
    out = []
    for s in stmts:
        if s[0] == "switch":
            out.append(("switch", s[1], [(l, sp, tuplify(b)) for l, sp, b in s[2]]))
        elif s[0] == "hard":
            out.append(("hard", s[1], s[2], s[3], [tuple(p) for p in s[4]]) + ((tuplify(s[5]),) if len(s) > 5 else ()))
        elif s[0] == "if":
            out.append(("if", s[1], tuple(s[2]), tuplify(s[3])))
        elif s[0] == "while":
            out.append(("while", s[1], s[2], tuplify(s[3])))
        else:
            out.append(tuple(s))
    return out
