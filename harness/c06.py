"""C06 — switch runs exactly the matching case under both lowering strategies (and Hardcode.switch).

Proof step (Props/C06.v) + regenerated strategy threshold + exact-text correspondence of every
emitted function between Model/Switch.v and the real compiler + search for failing inputs by
running the *real* emitted text in mcvm against a source-level interpreter of the program."""
from __future__ import annotations

import json
import os
import shutil

from lib import (Check, COMMON_TRUSTED, GEN, INT_MAX, INT_MIN, REPO, compile_batch, coq_bool, coq_list, coq_str,
                 coq_z, eval_cases, eval_strings, known_for, run_coq_files)
from mcvm import VM, Invalid, OutOfFuel
import c06_thresholds

PROP = "C06"
GENSUB = f"{PROP}/r{os.getpid()}"          # private scratch directory under coq/Gen: concurrent runs do not collide

CERTS = [
    dict(LOAD="__load__", TICK="__tick__", PRIVATE="__private__", VAR="__variable__", INT="__int__", STORAGE="__storage__"),
    dict(LOAD="init", TICK="loop", PRIVATE="priv", VAR="v", INT="i", STORAGE="stor"),
]
NAMESPACES = ["TEST", "my_ns"]
FNAME = "f"
VARS = ["$x", "$y", "obj:@s", "$z.w", "o2:name"]           # variable switched on, by nesting depth
MACRO_MIN_FORMAT = 16                                      # Minecraft fact: function macros exist from pack format 16

HEADER = ("From Coq Require Import ZArith String List.\n"
          "From JMCV Require Import MC.Syntax Model.Names Model.Switch Run.C06.\n"
          "Import ListNotations.\nOpen Scope string_scope.\n")


# ------------------------------------------------------------------ programs
# stmt := ("say", text) | ("break",) | ("set", var, k) | ("call", fname)
#       | ("switch", var, [(label|"default", spelling, [stmt])]) | ("hard", var, begin, count, [(pre, post)], [stmt] tail)
# A case may carry "more": {fname: [stmt]} further user functions, "order": their source order (names, incl. "f")

def cert_text(c):
    return "\n".join(f"{k}={v}" for k, v in c.items())


def score_of(src: str, cert):
    if src.startswith("$"):
        return (src, cert["VAR"])
    obj, sel = src.split(":", 1)
    return (sel, obj)


HARD_PARAMS = ["idx", "jdx", "kdx", "mdx", "ndx"]      # a nested Hardcode.switch needs its own parameter name (textual substitution)


def render(stmts, hdepth=0) -> str:
    out = []
    for s in stmts:
        if s[0] == "say":
            out.append(f'say "{s[1]}";')
        elif s[0] == "break":
            out.append("break;")
        elif s[0] == "switch":
            parts = []
            for lab, spell, body in s[2]:
                head = "default:" if lab == "default" else f"case {spell}:"
                parts.append(head + " " + render(body, hdepth))
            out.append(f"switch({s[1]}) {{ " + " ".join(parts) + " }")
        elif s[0] == "set":
            out.append(f"{s[1]} = {s[2]};")
        elif s[0] == "call":
            out.append(f"{s[1]}();")
        elif s[0] == "hard":
            prm = HARD_PARAMS[hdepth]
            body = " ".join(f'say "{pre}${prm}{post}";' for pre, post in s[4])
            tail = (" " + render(s[5], hdepth + 1)) if len(s) > 5 and s[5] else ""
            out.append(f"Hardcode.switch({s[1]}, ({prm})=>{{ {body}{tail} }}, count={s[3]}, begin_at={s[2]});")
        else:
            raise ValueError(s)
    return " ".join(out)


def functions_of_case(case):
    """[(name, body)] in source order"""
    more = case.get("more") or {}
    order = case.get("order") or [FNAME] + list(more)
    return [(n, case["prog"] if n == FNAME else more[n]) for n in order]


def render_case(case) -> str:
    return " ".join(f"function {n}() {{ {render(b)} }}" for n, b in functions_of_case(case))


def coq_score(s):
    return f"({coq_str(s[0])}, {coq_str(s[1])})"


def coq_stmts(stmts, cert) -> str:
    out = []
    for s in stmts:
        if s[0] == "say":
            out.append(f"SSay {coq_str(s[1])}")
        elif s[0] == "break":
            out.append("SBreak")
        elif s[0] == "switch":
            ents = []
            for lab, _spell, body in s[2]:
                l = "LDefault" if lab == "default" else f"LNum {coq_z(lab)}"
                ents.append(f"({l}, {coq_stmts(body, cert)})")
            out.append(f"SSwitch {coq_score(score_of(s[1], cert))} {coq_list(ents)}")
        elif s[0] == "set":
            out.append(f"SSet {coq_score(score_of(s[1], cert))} {coq_z(s[2])}")
        elif s[0] == "call":
            out.append(f"SCall {coq_str(s[1])}")
        elif s[0] == "hard":
            tm = coq_list(f"({coq_str(a)}, {coq_str(b)})" for a, b in s[4])
            tail = coq_stmts(s[5] if len(s) > 5 else [], cert)
            out.append(f"SHard {coq_score(score_of(s[1], cert))} {coq_z(s[2])} {coq_z(s[3])} {tm} {tail}")
    return coq_list(out)


def names_term(c, ns):
    return (f'(mkNames {coq_str(ns)} {coq_str(c["VAR"])} {coq_str(c["INT"])} {coq_str(c["PRIVATE"])} '
            f'{coq_str(c["LOAD"])} {coq_str(c["TICK"])} {coq_str(c["STORAGE"])})')


def is_macro(pf, fb):
    return pf >= 16 and not fb


# ------------------------------------------------------------------ source-level meaning (the oracle of the search)

class Ambiguous(Exception):
    pass


def interpret(stmts, env, trace, funcs=None, depth=0):
    """What the program means: say -> trace; switch -> the body of the case whose label equals the value
    at the moment the switch is reached (default body when there is none and a default is declared;
    otherwise nothing); `$x = k` changes env; `g()` runs the body of g."""
    for s in stmts:
        if s[0] == "say":
            trace.append(s[1])
        elif s[0] == "break":
            pass
        elif s[0] == "set":
            env[s[1]] = s[2]
        elif s[0] == "call":
            if depth > 20 or not funcs or s[1] not in funcs:
                raise Ambiguous()
            interpret(funcs[s[1]], env, trace, funcs, depth + 1)
        elif s[0] == "switch":
            v = env.get(s[1])
            v = 0 if v is None else v                   # an unset score reads as 0
            hits = [b for lab, _sp, b in s[2] if lab == v]
            dfl = [b for lab, _sp, b in s[2] if lab == "default"]
            if len(hits) > 1 or len(dfl) > 1:
                raise Ambiguous()
            if hits:
                interpret(hits[0], env, trace, funcs, depth)
            elif dfl:
                interpret(dfl[0], env, trace, funcs, depth)
        elif s[0] == "hard":
            v = env.get(s[1])
            v = 0 if v is None else v
            if s[2] <= v <= s[3]:
                for pre, post in s[4]:
                    trace.append(f"{pre}{v}{post}")
                if len(s) > 5:
                    interpret(s[5], env, trace, funcs, depth)


def meaning(case, env):
    """trace of one call of f from env (env is not modified)"""
    trace = []
    interpret(case["prog"], dict(env), trace, dict(functions_of_case(case)))
    return trace


def expect_compiles(stmts, macro):
    """Source-level rule: True = must compile, False = must be rejected, None = either (empty Hardcode range).
    Macro dispatch takes any labels and default; the binary search needs consecutive ascending labels and no
    default; the first entry is always a case."""
    verdict = True
    for s in stmts:
        if s[0] == "switch":
            labs = [lab for lab, _sp, _b in s[2]]
            if not labs or labs[0] == "default":
                return False
            if not macro:
                if "default" in labs or labs != list(range(labs[0], labs[0] + len(labs))):
                    return False
            for _lab, _sp, b in s[2]:
                v = expect_compiles(b, macro)
                if v is False:
                    return False
                if v is None:
                    verdict = None
        elif s[0] == "hard":
            if s[2] > s[3] and not macro:
                verdict = None
            elif len(s) > 5 and s[5]:
                v = expect_compiles(s[5], macro)
                if v is False:
                    return False
                if v is None:
                    verdict = None
    return verdict


def switch_vars(stmts, acc=None):
    """{var: set of labels} over the whole program"""
    acc = {} if acc is None else acc
    for s in stmts:
        if s[0] == "switch":
            labs = acc.setdefault(s[1], set())
            for lab, _sp, b in s[2]:
                if lab != "default":
                    labs.add(lab)
                switch_vars(b, acc)
        elif s[0] == "hard":
            acc.setdefault(s[1], set()).update(range(s[2], s[3] + 1))
            if len(s) > 5:
                switch_vars(s[5], acc)
        elif s[0] == "set":
            acc.setdefault(s[1], set()).add(s[2])
    return acc


def case_vars(case):
    acc = {}
    for _n, b in functions_of_case(case):
        switch_vars(b, acc)
    return acc


def clamp(v):
    return max(INT_MIN, min(INT_MAX, v))


def value_grid(labels):
    if not labels:
        return [None, 0, 1]
    lo, hi = min(labels), max(labels)
    vals = set(labels)
    if hi - lo <= 80:
        vals.update(range(lo - 3, hi + 4))
    else:
        for l in labels:
            vals.update((l - 1, l + 1))
        vals.update((lo - 3, hi + 3))
    vals = {clamp(v) for v in vals}
    vals.update((INT_MIN, INT_MAX, 0))
    return [None] + sorted(vals)


def envs_for(case, rng, cap=90):
    vs = case_vars(case)
    names = list(vs)
    if not names:
        return [{}]
    grids = {n: value_grid(vs[n]) for n in names}
    envs = []
    # every value of every variable, the other variables drawn at random from their grids
    for n in names:
        for v in grids[n]:
            e = {m: rng.choice(grids[m]) for m in names}
            e[n] = v
            envs.append(e)
    if len(envs) > cap:
        keep = envs[:: max(1, len(envs) // cap)]
        envs = keep[:cap] + [e for e in envs if any(v in (INT_MIN, INT_MAX, None) for v in e.values())][:12]
    return envs


def vm_trace(funcs, ns, fname, env, cert, pf):
    vm = VM(funcs, ns=ns, max_steps=20000)
    for var, v in env.items():
        if v is not None:
            vm.s[score_of(var, cert)] = v
    # macro lines / `with storage` are not commands before pack format 16
    if pf is not None and pf != -1 and pf < MACRO_MIN_FORMAT:
        for name, text in funcs.items():
            for line in text.split("\n"):
                if line.startswith("$") or " with storage " in line:
                    raise Invalid(f"macro syntax in a pack of format {pf}: {line!r} ({name})")
    vm.run_func(f"{ns}:{fname}")
    return vm.trace


def run_twice_failure(case, funcs, rng, cert):
    """The function is called twice in the same world (scores and storage persist): a flag or temp score
    left over from the first call must not change what the second call does."""
    envs = envs_for(case, rng, cap=40)
    pairs = [(rng.choice(envs), rng.choice(envs)) for _ in range(12)]
    for e1, e2 in pairs:
        try:
            exp = meaning(case, e1) + meaning(case, e2)
        except Ambiguous:
            return None
        vm = VM(funcs, ns=case["ns"], max_steps=40000)
        try:
            for e in (e1, e2):
                for var, v in e.items():
                    k = score_of(var, cert)
                    if v is None:
                        vm.s.pop(k, None)
                    else:
                        vm.s[k] = v
                vm.run_func(f"{case['ns']}:{FNAME}")
        except (Invalid, OutOfFuel) as e:
            return dict(kind="invalid-command", detail=str(e), env=e1, env_second_call=e2)
        if vm.trace != exp:
            return dict(kind="wrong-cases-run-on-second-call", env=e1, env_second_call=e2, expected=exp, actual=vm.trace)
    return None


def semantic_failure(case, funcs, rng):
    """Run the real emitted functions from a grid of values; first failure or None."""
    cert = CERTS[case["cert"]]
    try:
        f2 = None
        for env in envs_for(case, rng):
            try:
                exp = meaning(case, env)
            except Ambiguous:
                return None
            try:
                got = vm_trace(funcs, case["ns"], FNAME, env, cert, case["pf"])
            except Invalid as e:
                return dict(kind="invalid-command", detail=str(e), env=env)
            except OutOfFuel:
                return dict(kind="no-termination", env=env)
            if got != exp:
                return dict(kind="wrong-cases-run", env=env, expected=exp, actual=got)
        f2 = run_twice_failure(case, funcs, rng, cert)
        if f2:
            return f2
    except RecursionError:
        return dict(kind="no-termination", env={})
    return None


# ------------------------------------------------------------------ generators

def says(tag, k=1):
    return [("say", f"{tag}" if i == 0 else f"{tag} more{i}") for i in range(k)]


def simple_switch(var, labels, tag="c", brk="alt", default=None):
    ents = []
    for i, l in enumerate(labels):
        body = says(f"{tag}{l}")
        if brk == "all" or (brk == "alt" and i % 2 == 0):
            body = body + [("break",)]
        ents.append((l, str(l), body))
    if default is not None:
        ents.insert(default if default >= 1 else len(ents), ("default", "default", says(f"{tag}dflt")))
    return ("switch", var, ents)


CFG_MAIN = [(15, False), (48, False), (48, True)]


def gen_cases(rng, tier):
    cases = []

    def add(prog, pf, fb, stream, cert=0, ns=0, dup=False, more=None, order=None):
        cases.append(dict(prog=prog, pf=pf, fb=fb, stream=stream, cert=cert, ns=NAMESPACES[ns], dup=dup,
                          more=more, order=order))

    # (A) exhaustive small: every start label x every size, both strategies (+ forced bst at 48)
    for lo in (-5, -1, 0, 1, 7):
        for n in range(1, 34):
            for pf, fb in CFG_MAIN:
                add([simple_switch("$x", list(range(lo, lo + n)))], pf, fb, "A-exhaustive")
    # (B) strategy table: pack formats around every threshold x #forcebst x program shapes
    shapes = {
        "contig2": [simple_switch("$x", [4, 5])],
        "single": [simple_switch("$x", [3])],
        "sparse": [simple_switch("$x", [3, 7, 5])],
        "default": [simple_switch("$x", [1, 2], default=0)],
    }
    for pf in (-1, 4, 9, 15, 16, 17, 26, 47, 48, 61, 99):
        for fb in (False, True):
            for nm, prog in shapes.items():
                add(prog, pf, fb, "B-strategy-" + nm, cert=(pf % 2), ns=(pf % 2))
    # (C) macro mode: sparse sets, default at every position, boundary labels, descending, duplicates
    sparse_sets = [[5], [0], [-1], [10, 20, 30], [30, 20, 10], [-7, 0, 7], [1, 3], [2, 1], [INT_MAX], [INT_MIN],
                   [INT_MIN, INT_MAX, 0], [INT_MAX - 1, INT_MAX], [100, 101, 103], [0, 2, 4, 6, 8, 10, 12]]
    nrand = 10 if tier == "quick" else 120
    for _ in range(nrand):
        k = rng.randint(1, 9)
        pool = rng.choice([range(-6, 12), range(-1000, 1000), range(INT_MIN, INT_MAX)])
        sparse_sets.append(rng.sample(pool, k) if len(pool) < 10**6 else [rng.randint(INT_MIN, INT_MAX) for _ in range(k)])
    for labels in sparse_sets:
        labels = list(dict.fromkeys(labels))
        for dpos in [None, 0] + ([1] if len(labels) > 1 else []):
            for pf, fb in ((48, False), (16, False)):
                add([simple_switch("obj:@s", labels, default=dpos)], pf, fb, "C-macro-sparse", cert=1)
    for labels in ([3, 3], [1, 2, 1], [4, 5, 4, 5]):
        ents = [(l, str(l), says(f"d{i}_{l}")) for i, l in enumerate(labels)]
        add([("switch", "$x", ents)], 48, False, "C-macro-duplicate", dup=True)
    add([("switch", "$x", [(1, "1", says("a")), ("default", "default", says("d1")), ("default", "default", says("d2"))])],
        48, False, "C-macro-duplicate", dup=True)
    # label spellings that int() normalises
    add([("switch", "$x", [(7, "007", says("a")), (8, "8", says("b"))])], 15, False, "C-spelling")
    add([("switch", "$x", [(0, "-0", says("a")), (1, "01", says("b"))])], 15, False, "C-spelling")
    add([("switch", "$x", [(-3, "-3", says("a")), (12, "0012", says("b"))])], 48, False, "C-spelling")
    # (D) Hardcode.switch: every (begin_at, count <= 12)
    for b in range(-3, 13):
        for cnt in range(1, 13):
            for pf, fb in CFG_MAIN:
                add([("hard", "$x", b, cnt, [("h", "")] if (b + cnt) % 2 else [("idx ", " end"), ("again ", "")])],
                    pf, fb, "D-hardcode", cert=(cnt % 2))
    # (E) random structured programs: sequences, nesting, breaks anywhere, empty bodies, block-first bodies
    def rand_body(depth, tag):
        k = rng.choice([0, 1, 1, 1, 2, 3])
        body = []
        for j in range(k):
            r = rng.random()
            if r < 0.15:
                body.append(("break",))
            elif r < (0.35, 0.25, 0.12)[min(depth, 2)] and depth < 3:
                body.append(rand_switch(depth + 1, f"{tag}n{j}"))
            elif r < 0.48:
                b = rng.randint(-2, 4)
                body.append(("hard", VARS[min(depth + 1, len(VARS) - 1)], b, max(1, b + rng.randint(0, 3)), [(f"{tag}h", "")]))
            else:
                body.append(("say", f"{tag}s{j}"))
        if rng.random() < 0.5 or not body:
            body.append(("break",))               # (a label needs a statement: an empty body is written `break;`)
        return body

    def rand_switch(depth, tag, contiguous=None):
        n = rng.choice([1, 1, 2, 2, 3, 3, 4, 5, 6, 9])
        contiguous = cfg_bst if contiguous is None else contiguous
        lo = rng.choice([-4, -1, 0, 1, 1, 2, 10])
        if contiguous:
            labels = list(range(lo, lo + n))
        else:
            labels = rng.sample(range(-6, 14), n)
        ents = [(l, str(l), rand_body(depth, f"{tag}c{l}")) for l in labels]
        if not contiguous and rng.random() < 0.5:
            ents.insert(rng.randint(1, len(ents)), ("default", "default", rand_body(depth, f"{tag}dflt")))
        return ("switch", VARS[depth], ents)

    nprog = 60 if tier == "quick" else 600
    for i in range(nprog):
        pf, fb = rng.choice([(15, False), (48, False), (48, True), (16, False), (8, False), (-1, False)])
        cfg_bst = not is_macro(pf, fb)
        prog = []
        for j in range(rng.choice([1, 1, 2, 3])):
            r = rng.random()
            if r < 0.7:
                prog.append(rand_switch(0, f"p{j}"))
            elif r < 0.85:
                prog.append(("say", f"top{j}"))
            else:
                b = rng.randint(-2, 3)
                prog.append(("hard", "$x", b, max(1, b + rng.randint(0, 4)), [(f"t{j}h", "")]))
        if not any(s[0] != "say" for s in prog):
            prog.append(rand_switch(0, "px"))
        add(prog, pf, fb, "E-random", cert=i % 2, ns=(i // 2) % 2)
    # (F) adversarial: labels the binary search cannot take, default in bst, first entry default, big trees,
    #     int32 boundary ranges
    for pf, fb in ((15, False), (48, True), (-1, False), (-1, True), (48, False)):
        add([simple_switch("$x", [1, 3])], pf, fb, "F-noncontiguous")
        add([simple_switch("$x", [2, 1])], pf, fb, "F-noncontiguous")
        add([simple_switch("$x", [5, 5])], pf, fb, "F-noncontiguous", dup=True)
        add([simple_switch("$x", [1, 2, 3, 5, 6])], pf, fb, "F-noncontiguous")
        add([simple_switch("$x", [1, 2], default=0)], pf, fb, "F-default")
        add([simple_switch("$x", [1, 2], default=1)], pf, fb, "F-default")
        add([("switch", "$x", [("default", "default", says("d")), (1, "1", says("a"))])], pf, fb, "F-default-first")
        add([simple_switch("$x", list(range(INT_MAX - 2, INT_MAX + 1)))], pf, fb, "F-int32-edge")
        add([simple_switch("$x", list(range(INT_MIN, INT_MIN + 4)))], pf, fb, "F-int32-edge")
        for n in (34, 47, 64, 65, 100):
            add([simple_switch("$y", list(range(-n // 2, -n // 2 + n)), brk="none")], pf, fb, "F-big")
    # (G) a block statement (nested switch) directly after a label: the statement must end at its `}`
    inner = lambda tag: ("switch", "$y", [(1, "1", says(tag + "i1")), (2, "2", says(tag + "i2") + [("break",)])])
    for pf, fb in ((15, False), (48, False), (48, True)):
        add([("switch", "$x", [(1, "1", [inner("a"), ("say", "after a")]), (2, "2", says("b"))])], pf, fb, "G-block-first")
        add([("switch", "$x", [(1, "1", [inner("a")]), (2, "2", [inner("b"), ("say", "after b"), ("break",)]),
                                (3, "3", says("c"))])], pf, fb, "G-block-first")
        add([("switch", "$x", [(1, "1", [inner("a"), inner("aa"), ("say", "after aa")]), (2, "2", says("b"))]),
             ("say", "end")], pf, fb, "G-block-first")
    add([("switch", "$x", [(-2, "-2", [inner("a"), ("say", "after a")]), (-1, "-1", [inner("b")]), (0, "0", says("c"))])],
        15, False, "G-block-first")
    add([("switch", "$x", [(-7, "-7", [inner("a"), ("say", "after a")]), (5, "5", [inner("b")]), (-1, "-1", says("c"))])],
        48, False, "G-block-first")
    add([("switch", "$x", [(4, "4", [inner("a")]), ("default", "default", [inner("d"), ("say", "after d")]),
                            (9, "9", says("n"))])], 48, False, "G-block-first")
    # (H) strengthening round 2: two switches on the SAME score, the inner one reached from inside a case body of
    #     the outer one (inline / through a called function / Hardcode.switch on either side), the body changing the
    #     score first: every switch needs a temp score of its own (C06_bst_exact's frame hypothesis), and the value
    #     tested is the one at the moment the switch is reached.  Not the known finding C06-bst-reentrant: no
    #     switch is re-entered here, the programs are not recursive.
    def sw(var, lo, n, tag, bodies=None, default=False):
        ents = []
        for l in range(lo, lo + n):
            ents.append((l, str(l), (bodies or {}).get(l, says(f"{tag} {l}") + ([("break",)] if l % 2 else []))))
        if default:
            ents.append(("default", "default", says(f"{tag} dflt")))
        return ("switch", var, ents)

    def same_score(var, lo, n, t, w, inner_kind, outer_kind, inner_n=None, inner_lo=None, default=False):
        """outer dispatch on var over lo..lo+n-1; the body of case t says, sets var = w and reaches the inner
        dispatch on var.  -> (prog, more, order)"""
        inner_n = inner_n or n
        inner_lo = lo if inner_lo is None else inner_lo
        inner_sw = sw(var, inner_lo, inner_n, "inner", default=default and inner_kind != "hard")
        inner_hard = ("hard", var, inner_lo, inner_lo + inner_n - 1, [("inner ", "")])
        more, order = None, None
        if inner_kind == "inline":
            reach = [inner_sw]
        elif inner_kind == "hard":
            reach = [inner_hard]
        elif inner_kind in ("call", "call_before", "call_hard"):
            reach = [("call", "g")]
            more = {"g": [inner_hard if inner_kind == "call_hard" else inner_sw]}
            order = ["g", FNAME] if inner_kind == "call_before" else [FNAME, "g"]
        elif inner_kind == "call_twice":           # g is also called at top level, before the outer switch
            reach = [("call", "g")]
            more = {"g": [inner_sw]}
            order = [FNAME, "g"]
        elif inner_kind == "none":                 # the body only changes the score
            reach = []
        else:
            raise ValueError(inner_kind)
        tbody = [("say", f"outer {t}"), ("set", var, w)] + reach + [("say", f"outer {t} end")]
        if outer_kind == "switch":
            outer = sw(var, lo, n, "outer", bodies={t: tbody + [("break",)]}, default=default)
            prog = [outer]
        else:                                      # Hardcode.switch outside: every index has the same tail
            outer = ("hard", var, lo, lo + n - 1, [("outer ", "")], [("set", var, w)] + reach + [("say", "outer end")])
            prog = [outer]
        if inner_kind == "call_twice":
            prog = [("call", "g")] + prog
        return prog + [("say", "after")], more, order

    hi = 0
    for var in ("$state", "obj:@s"):
        for pf, fb in CFG_MAIN:
            macro = is_macro(pf, fb)
            for inner_kind in ("inline", "call", "call_before", "hard", "call_hard", "call_twice", "none"):
                for outer_kind in ("switch", "hard"):
                    for (lo, n, t, w) in ((1, 3, 1, 3), (1, 3, 3, 1), (1, 4, 2, 4), (0, 2, 0, 1), (-2, 5, -1, 2),
                                          (1, 3, 2, 7), (5, 1, 5, 5), (1, 8, 3, 6)):
                        hi += 1
                        if tier == "quick" and var != "$state" and hi % 3:
                            continue
                        if outer_kind == "hard" and inner_kind in ("inline", "hard") and n > 4:
                            continue
                        prog, more, order = same_score(var, lo, n, t, w, inner_kind, outer_kind,
                                                       inner_n=(n if hi % 2 else n + 1), inner_lo=(lo if hi % 4 else lo - 1),
                                                       default=macro and hi % 2 == 0)
                        add(prog, pf, fb, f"H-same-score-{outer_kind}-{inner_kind}", cert=hi % 2, ns=(hi // 2) % 2,
                            more=more, order=order)
    # two and three levels: outer -> g -> h, every level switching on the same score and changing it
    for pf, fb in CFG_MAIN:
        for (a1, a2) in ((2, 3), (3, 1), (1, 1)):
            h = [sw("$state", 1, 3, "h")]
            g = [sw("$state", 1, 3, "g", bodies={a1: [("say", f"g {a1}"), ("set", "$state", a2), ("call", "h"), ("say", "g end")]})]
            f = [sw("$state", 1, 3, "f", bodies={1: [("say", "f 1"), ("set", "$state", a1), ("call", "g"), ("say", "f end"), ("break",)]}),
                 ("say", "after")]
            add(f, pf, fb, "H-same-score-three-levels", more={"g": g, "h": h}, order=[FNAME, "g", "h"])
            add(f, pf, fb, "H-same-score-three-levels", more={"g": g, "h": h}, order=["h", "g", FNAME], cert=1)
        # sequence in one body: switch, change, switch again (same score), then the enclosing tree goes on
        for (t, w) in ((1, 2), (2, 3), (3, 3)):
            body = [("say", "in"), sw("$state", 1, 3, "first"), ("set", "$state", w), sw("$state", 1, 3, "second")]
            add([sw("$state", 1, 3, "outer", bodies={t: body}), ("say", "after")], pf, fb, "H-same-score-sequence")
        # siblings: two switches on the same score one after the other, the first one's case body changing the score
        for (t, w) in ((1, 2), (2, 1), (3, 3), (1, 3)):
            first = sw("$state", 1, 3, "first", bodies={t: [("say", f"first {t}"), ("set", "$state", w), ("break",)]})
            add([first, sw("$state", 1, 3, "second"), ("say", "after")], pf, fb, "H-same-score-siblings")
            add([first, ("hard", "$state", 1, 3, [("second ", "")]), ("say", "after")], pf, fb, "H-same-score-siblings", cert=1)
            add([("call", "g"), sw("$state", 1, 3, "second"), ("say", "after")], pf, fb, "H-same-score-siblings",
                more={"g": [first]}, order=[FNAME, "g"])
    if tier == "thorough":
        for n in (127, 128, 129, 255, 257):
            for pf, fb in CFG_MAIN:
                add([simple_switch("$y", list(range(1, n + 1)), brk="none")], pf, fb, "F-big")
    return cases


# ------------------------------------------------------------------ running the real compiler

def job_of(case):
    cert = CERTS[case["cert"]]
    src = render_case(case)
    job = dict(src=src, cert=cert_text(cert), namespace=case["ns"])
    if case["pf"] != -1:
        job["pack_format"] = case["pf"]
    if case["fb"]:
        job["header"] = "#forcebst"
    return job


def norm_text(t: str) -> str:
    lines = [l.strip() for l in t.split("\n")]
    return "\n".join(l for l in lines if l and not l.startswith("#"))


def real_functions(files: dict, ns: str, cert) -> dict:
    """{"ns:path": normalised text} of every emitted function except LOAD / TICK"""
    import re
    out = {}
    for k, v in files.items():
        m = re.match(r"VIRTUAL/data/([^/]+)/functions?/(.*)\.mcfunction$", k)
        if not m or m.group(1) == "minecraft":
            continue
        if m.group(2) in (cert["LOAD"], cert["TICK"]):
            continue
        out[f"{m.group(1)}:{m.group(2)}"] = norm_text(v)
    return out


def case_term(case):
    cert = CERTS[case["cert"]]
    if case["res"]["ok"]:
        real = "RFiles " + coq_list(f"({coq_str(k)}, {coq_str(v)})" for k, v in case["funcs"].items())
    else:
        real = f"RError {coq_str(case['res']['exc'])}"
    funcs = coq_list(f"({coq_str(n)}, {coq_stmts(b, cert)})" for n, b in functions_of_case(case))
    return (f"mkCase {names_term(cert, case['ns'])} (mkCfg {coq_z(case['pf'])} {coq_bool(case['fb'])}) "
            f"{funcs} ({real})")


def compile_cases(cases):
    results = compile_batch([job_of(c) for c in cases], chunk=60)
    for c, r in zip(cases, results):
        c["res"] = r
        c["funcs"] = real_functions(r["files"], c["ns"], CERTS[c["cert"]]) if r["ok"] else {}


def shrink_candidates(prog):
    """programs one deletion smaller (a statement, an entry at either end of a switch, a body statement)"""
    def stmts_variants(stmts):
        for i in range(len(stmts)):
            yield stmts[:i] + stmts[i + 1:]
        for i, s in enumerate(stmts):
            if s[0] == "switch":
                ents = s[2]
                if len(ents) > 1:
                    yield stmts[:i] + [("switch", s[1], ents[:-1])] + stmts[i + 1:]
                    yield stmts[:i] + [("switch", s[1], ents[1:])] + stmts[i + 1:]
                for j, (lab, sp, body) in enumerate(ents):
                    for nb in stmts_variants(body):
                        if not nb:
                            nb = [("break",)]
                            if body == nb:
                                continue
                        yield stmts[:i] + [("switch", s[1], ents[:j] + [(lab, sp, nb)] + ents[j + 1:])] + stmts[i + 1:]
            elif s[0] == "hard" and len(s) > 5 and s[5]:
                for nb in stmts_variants(s[5]):
                    yield stmts[:i] + [s[:5] + (nb,)] + stmts[i + 1:]
    for v in stmts_variants(prog):
        if v and v != prog:
            yield v


def shrink_case_candidates(case):
    """smaller cases: the main function shrunk, or one of the other functions shrunk"""
    for v in shrink_candidates(case["prog"]):
        yield dict(case, prog=v)
    for n, b in (case.get("more") or {}).items():
        for v in shrink_candidates(b):
            yield dict(case, more={**case["more"], n: v})


def minimise(case, fail, rng, budget=60):
    """Greedy shrinking of a failing program: keep a smaller program while it still fails the same way."""
    best, best_fail = case, fail
    improved = True
    while improved and budget > 0:
        improved = False
        for c in shrink_case_candidates(best):
            if budget <= 0:
                break
            budget -= 1
            try:
                compile_cases([c])
            except Exception:  # noqa
                continue
            f = case_failure(c, rng)
            if f and f["kind"] == fail["kind"]:
                best, best_fail, improved = c, f, True
                break
    return best, best_fail


def case_failure(c, rng):
    """The failure (or None) of one compiled case against the source-level meaning."""
    must = True
    for _n, b in functions_of_case(c):
        v = expect_compiles(b, is_macro(c["pf"], c["fb"]))
        if v is False:
            must = False
            break
        if v is None:
            must = None
    if not c["res"]["ok"]:
        if not c["res"].get("jmc") and must is not None:
            return dict(kind="compiler-crash", exc=c["res"]["exc"], msg=c["res"]["msg"][:300])
        if must is True:
            return dict(kind="valid-program-rejected", exc=c["res"]["exc"], msg=c["res"]["msg"][:300],
                        expected="compiles (labels are acceptable to the strategy in force)")
        return None
    f = None if c["dup"] else semantic_failure(c, c["funcs"], rng)
    if f:
        return f
    if must is False:
        return dict(kind="invalid-program-accepted",
                    expected="a diagnostic: the binary search cannot represent these labels / default",
                    actual="compiled without one")
    return None


def replay_obj(case, fail, kind="semantic-failure"):
    return dict(kind=kind, job=job_of(case), cert_index=case["cert"], namespace=case["ns"], pack_format=case["pf"],
                forcebst=case["fb"], program=case["prog"], more=case.get("more"), order=case.get("order"),
                stream=case["stream"], failure=fail,
                emitted=case.get("funcs"), compile_result=None if case["res"]["ok"] else case["res"],
                how="compile `job` with harness/jmc_run.py, run function <ns>:f in harness/mcvm.py from the scores in "
                    "failure.env (None = unset); expected = source-level meaning of the program")


# ------------------------------------------------------------------ the re-entrancy probe (documented limit of the bst strategy)

REENTRANT_SRC = ('function f() { switch($x) { case 1: $x = 2; f(); break; case 2: say "two"; break; } }')


def reentrancy_probe():
    """A case body that re-enters the same switch (recursion) overwrites __switch__N; the tree re-reads it
    after the body returns.  C06_bst_exact carries the hypothesis that bodies preserve the temp score."""
    out = {}
    for pf in (15, 48):
        r = compile_batch([dict(src=REENTRANT_SRC, cert=cert_text(CERTS[0]), pack_format=pf)])[0]
        if not r["ok"]:
            out[str(pf)] = "compile error " + r["exc"]
            continue
        funcs = real_functions(r["files"], "TEST", CERTS[0])
        vm = VM(funcs, ns="TEST", max_steps=5000)
        vm.s[("$x", "__variable__")] = 1
        try:
            vm.run_func("TEST:f")
            out[str(pf)] = vm.trace
        except (Invalid, OutOfFuel) as e:
            out[str(pf)] = "vm: " + str(e)
    return out


# ------------------------------------------------------------------ main

def main(tier: str) -> int:
    ck = Check(PROP, tier)
    ck.cov["trusted_base"] = COMMON_TRUSTED + [
        "Model/Switch.v is a hand-written port of switch()/parse_switch()/__parse_switch_binary() (_flow_control.py), "
        "HardcodeSwitch.call (execute_excluded.py), PackVersion.__ge__/require (pack_version.py) and of the count/name "
        "allocation of datapack.py; tied to /repo by exact text equality of EVERY emitted function (and of the exception "
        "class) on the generated programs below; the macro threshold is regenerated from pack_version.py",
        "outside the model: the tokenizer/statement splitting of the switch body (the check feeds generated programs through "
        "the real tokenizer, so a mis-split shows up as a correspondence difference), `switch … with <nbt>`, "
        "#show_private_command, labels outside int32, Trigger.setup / RightClick.setup (other callers of parse_switch)",
        "C06_bst_exact assumes case bodies leave __switch__N unchanged (a body that re-enters the same switch by recursion "
        "does not; see reentrancy_probe in the evidence)",
        "statements of case bodies: say, break, `$x = k`, `g();` (a call of another user function of the pack), nested switch / "
        "Hardcode.switch (also inside a Hardcode.switch body, which is compiled once per index); user functions are compiled in source "
        "order with the counters threaded through (Model.Switch.compile_functions)",
        "mcvm.py (untrusted Python VM) and the source-level interpreter in c06.py are used only to search for failing inputs",
    ]
    ck.proof(extra_targets=["Run/C06.vo"])

    # ---- regenerated threshold
    try:
        thr, text = c06_thresholds.thresholds_v(REPO)
        (ok, out), = run_coq_files(GENSUB, [("Thresholds.v", text)])
        if not ok:
            # search: a format between the two thresholds is lowered with the other strategy
            ck.violation(dict(kind="strategy-threshold-changed", regenerated=thr, model=16,
                              theorem="C06_strategy no longer speaks about the code", log=out[-1500:]), no_input=True) \
                if not threshold_witness(ck, thr) else None
    except c06_thresholds.TranslateError as e:
        thr = None
        ck.violation(dict(kind="translator-failed", what=str(e),
                          note="pack_version.py no longer has the shape the fail-closed translator accepts"), no_input=True)

    # ---- correspondence
    cases = gen_cases(ck.rng, tier)
    compile_cases(cases)
    terms = [case_term(c) for c in cases]
    # keep generated files small: big trees are long
    bad, errs = eval_cases(GENSUB, HEADER, terms, per_file=120, prefix="cases")
    # eval_cases cleans the directory: write the thresholds file again for the record
    for e in errs:
        ck.violation(dict(kind="correspondence-file-failed", log=e), no_input=True)
    bad = set(bad)

    # ---- search on the real text (every successfully compiled program)
    sem_fail, n_runs = {}, 0
    for i, c in enumerate(cases):
        n_runs += 1 if c["res"]["ok"] else 0
        f = case_failure(c, ck.rng)
        if f:
            sem_fail[i] = f

    reported = set()
    for i, f in sem_fail.items():
        c = cases[i]
        key = (c["stream"], f["kind"], is_macro(c["pf"], c["fb"]))
        if key in reported or len(reported) >= 6:
            continue
        reported.add(key)
        c2, f2 = minimise(c, f, ck.rng)
        ck.violation(replay_obj(c2, f2))
    silent = sorted(i for i in bad if i not in sem_fail)
    if silent:
        exprs = [f"model_text ({case_term(cases[i])})" for i in silent[:4]]
        try:
            model_out = eval_strings(GENSUB, HEADER, exprs)
        except Exception as e:  # noqa
            model_out = [str(e)] * len(exprs)
        ck.violation(dict(kind="correspondence-differs",
                          theorem="C06_bst_exact / C06_macro_exact / C06_switch_exact no longer speak about the code",
                          n_differing=len(silent),
                          cases=[dict(job=job_of(cases[i]), stream=cases[i]["stream"],
                                      real=cases[i]["funcs"] if cases[i]["res"]["ok"] else cases[i]["res"], model=m)
                                 for i, m in zip(silent[:4], model_out)]), no_input=True)

    # ---- documented limit: re-entrancy of the bst temp score
    probe = reentrancy_probe()
    kf = [f for f in known_for(PROP) if f.get("id") == "C06-bst-reentrant"]
    if probe.get("15") == ["two", "two"] and kf:
        ck.known(kf[0]["id"], kf[0]["what"])

    hist, strat = {}, {}
    for c in cases:
        hist[c["stream"]] = hist.get(c["stream"], 0) + 1
        k = ("macro" if is_macro(c["pf"], c["fb"]) else "bst") + ("" if c["res"]["ok"] else ":rejected")
        strat[k] = strat.get(k, 0) + 1
    distinct = len({json.dumps([c["prog"], c.get("more"), c.get("order"), c["pf"], c["fb"], c["cert"], c["ns"]], sort_keys=True)
                    for c in cases})
    ck.cov.update(dict(
        evaluations=len(cases), distinct_nontrivial=distinct,
        rule="a case = one compiled pack (function f, possibly further user functions, containing switch / Hardcode.switch statements); "
             "distinct = distinct (program, pack_format, #forcebst, jmc.txt names, namespace); every case reaches parse_switch or one of the "
             "label-rule rejections, so all are non-trivial.  Stream H (round 2): two dispatches on the SAME score, the inner one reached from a "
             "case body of the outer one (inline / through a called function defined before or after / Hardcode.switch on either side / three "
             "levels / siblings), the body changing the score first",
        samples=[dict(src=job_of(c)["src"], pack_format=c["pf"], forcebst=c["fb"]) for c in (cases[0], cases[40], cases[-1])],
        programs=len(cases), disagreements_checked=len(bad), semantic_programs=n_runs,
        branch_histogram=hist, strategy_histogram=strat, regenerated_VANILLA_MACRO=thr,
        functions_compared=sum(len(c["funcs"]) for c in cases), reentrancy_probe=probe,
        correspondence="text of every emitted function (user function and all private functions) equals the model's, "
                       "same set of function names; rejected programs: same exception class",
    ))
    shutil.rmtree(GEN / GENSUB, ignore_errors=True)
    return ck.finish()


def threshold_witness(ck, thr) -> bool:
    """The macro threshold moved: find a pack format lowered differently from the table and show the consequence."""
    lo, hi = sorted((thr, 16))
    found = False
    for pf in range(lo, hi):
        c = dict(prog=[simple_switch("$x", [3, 7], default=0)], pf=pf, fb=False, stream="threshold", cert=0, ns="TEST", dup=False)
        compile_cases([c])
        if not c["res"]["ok"]:
            if pf >= 16:
                ck.violation(replay_obj(c, dict(kind="rejected-but-supported", exc=c["res"]["exc"],
                                                note=f"pack format {pf} supports macros: sparse labels/default must compile")))
                found = True
            continue
        f = semantic_failure(c, c["funcs"], ck.rng)
        if f:
            ck.violation(replay_obj(c, f))
            found = True
    return found


def replay(path) -> int:
    obj = json.loads(open(path).read())
    if "job" not in obj:
        print("replay file holds no input (no-failing-input-found):", obj.get("kind"))
        print(json.dumps(obj, indent=1)[:3000])
        return 1
    r = compile_batch([obj["job"]])[0]
    cert = CERTS[obj["cert_index"]]
    fail = obj["failure"]
    print("source  :", obj["job"]["src"])
    print("config  : pack_format", obj["pack_format"], "#forcebst" if obj["forcebst"] else "")
    if not r["ok"]:
        print("actual  : compile error", r["exc"], r["msg"][:300])
        print("expected:", fail.get("expected", fail))
        return 1
    if fail.get("kind") in ("valid-program-rejected", "compiler-crash"):
        print("expected: compiles;  actual: compiles (no longer failing)")
        return 0
    if fail.get("kind") == "invalid-program-accepted":
        print("expected:", fail["expected"])
        print("actual  : compiled without a diagnostic")
        return 1
    funcs = real_functions(r["files"], obj["namespace"], cert)
    env = fail.get("env", {})
    rcase = dict(prog=tuplify(obj["program"]), more={n: tuplify(b) for n, b in (obj.get("more") or {}).items()},
                 order=obj.get("order"))
    exp = meaning(rcase, env)
    try:
        if "env_second_call" in fail:
            e2 = fail["env_second_call"]
            exp = exp + meaning(rcase, e2)
            vm = VM(funcs, ns=obj["namespace"], max_steps=40000)
            for e in (env, e2):
                for var, v in e.items():
                    k = score_of(var, cert)
                    if v is None:
                        vm.s.pop(k, None)
                    else:
                        vm.s[k] = v
                vm.run_func(f"{obj['namespace']}:{FNAME}")
            got = vm.trace
            print("second  :", e2)
        else:
            got = vm_trace(funcs, obj["namespace"], FNAME, env, cert, obj["pack_format"])
    except (Invalid, OutOfFuel) as e:
        got = f"<{type(e).__name__}: {e}>"
    print("scores  :", env)
    print("expected:", exp)
    print("actual  :", got)
    return 0 if got == exp else 1


def tuplify(stmts):
    out = []
    for s in stmts:
        if s[0] == "switch":
            out.append(("switch", s[1], [(l, sp, tuplify(b)) for l, sp, b in s[2]]))
        elif s[0] == "hard":
            out.append(("hard", s[1], s[2], s[3], [tuple(p) for p in s[4]]) + ((tuplify(s[5]),) if len(s) > 5 else ()))
        else:
            out.append(tuple(s))
    return out
