#!/bin/sh
# applyfix.sh <patch> <commit message file>   — apply a fix patch to /repo, run the pinned suite, commit
set -e
cd /repo
git apply --whitespace=nowarn "$1" || git apply -3 --whitespace=nowarn "$1"
out=$(/venv/bin/python -m pytest -q -p no:cacheprovider src/tests 2>&1 | tail -1)
echo "$out"
case "$out" in
  "1 failed, 123 passed"*) git commit -qa -F "$2"; git log --oneline | head -1 ;;
  *) echo "SUITE CHANGED - reverting"; git checkout -- .; exit 1 ;;
esac
