"""Shared by c04.py and c05.py: program trees (basic commands, if-chains, loops), their JMC
source text, their Coq term (Model.Loop.stmts; the lowering of each condition to precommands +
execute sub-clauses is NOT predicted here: the term hands the formula to `Run.C04.lowc`, i.e. to
property C03's model of condition.py), a source-level interpreter (JavaScript meaning) and the
comparison of the really emitted functions, run in mcvm, against it.

Program tree (plain tuples):
  ("say", text) | ("set", var, k) | ("add", var, k) | ("sub", var, k) | ("call", fname)   `fname();`
  ("ret", form)   `return …;`  form = "0" `return;` | "1" `return 1;` | "true" `return true;` | "fail" `return fail;`
                  | ("say", text) `return run say "text";` | ("call", fname) `return run fname();`
                  Minecraft's `return` leaves the FUNCTION IT IS WRITTEN IN: JMC's meaning of the statement is therefore
                  "leave the innermost block that is compiled to a function of its own" (see Interp)
  ("if", [(cond, body), ...], else_body | None)
  ("while", cond, body) | ("dowhile", body, cond) | ("for", init_cmds, cond, step_cmds, body)
  ("expand", cond, body)     `if (cond) expand { body }`: every statement of the body is guarded by its own fresh
                             evaluation of cond (used by c03.py only: Model.Loop has no such statement)
cond = list of items (a conjunction); item = ("atom", atom) | ("or", [[atom, ...], ...]) | ("f", F)
F    = ("A", atom) | ("&", [F, ...]) | ("|", [F, ...]) | ("!", F)          any nesting
atom = (var, op, rhs)   op in == != < <= > >= ; rhs an int or a "$var"
     | (var, "truthy", None)  `$v`      | (var, "matches", (a, b))  `$v matches a..b`
"""
from __future__ import annotations

import sys

from lib import coq_str, coq_z
from mcvm import VM, Invalid, OutOfFuel, wrap
import c03_gen as F3

sys.setrecursionlimit(50000)

CERTS = [
    dict(LOAD="__load__", TICK="__tick__", PRIVATE="__private__", VAR="__variable__", INT="__int__", STORAGE="__storage__"),
    dict(LOAD="init", TICK="loop", PRIVATE="priv", VAR="v", INT="i", STORAGE="stor"),
]


def cert_text(c):
    return "\n".join(f"{k}={v}" for k, v in c.items())


def names_term(c, ns="TEST"):
    return (f'(mkNames {coq_str(ns)} {coq_str(c["VAR"])} {coq_str(c["INT"])} {coq_str(c["PRIVATE"])} '
            f'{coq_str(c["LOAD"])} {coq_str(c["TICK"])} {coq_str(c["STORAGE"])})')


# ------------------------------------------------------------------ source text

# ------------------------------------------------------------------ formulas

def A(v, op="==", r=1):
    return ("A", (v, op, r))


def TRUTHY(v):
    return ("A", (v, "truthy", None))


def MATCHES(v, a, b):
    return ("A", (v, "matches", (a, b)))


def AND(*xs):
    return ("&", list(xs))


def OR(*xs):
    return ("|", list(xs))


def NOT(x):
    return ("!", x)


def cond_formula(cond):
    """the formula a condition (conjunction of items) denotes"""
    fs = []
    for kind, x in cond:
        if kind == "atom":
            fs.append(("A", x))
        elif kind == "or":
            fs.append(("|", [("A", c[0]) if len(c) == 1 else ("&", [("A", a) for a in c]) for c in x]))
        else:
            fs.append(x)
    return fs[0] if len(fs) == 1 else ("&", fs)


def f_atoms(f):
    if f[0] == "A":
        return [f[1]]
    if f[0] == "!":
        return f_atoms(f[1])
    return [a for x in f[1] for a in f_atoms(x)]


def cond_atoms(cond):
    return f_atoms(cond_formula(cond))


def _atom_c03(a):
    v, op, r = a
    if op == "truthy":
        return {"kind": "truthy", "lhs": v}
    if op == "matches":
        return {"kind": "matches", "lhs": v, "a": r[0], "b": r[1]}
    return {"kind": "cmp", "lhs": v, "sp": op, "rhs": ["lit", r, str(r)] if isinstance(r, int) else ["score", r]}


def f_c03(f):
    """the same formula in c03_gen's representation (source text, tokens and Coq term come from there)"""
    if f[0] == "A":
        return {"op": "atom", "atom": _atom_c03(f[1])}
    if f[0] == "!":
        return {"op": "not", "arg": f_c03(f[1])}
    return {"op": "and" if f[0] == "&" else "or", "args": [f_c03(x) for x in f[1]]}


def _negate(f):
    """condition.py negate_ast ("NA" = a leaf with reversed polarity)"""
    k = f[0]
    if k == "A":
        return ("NA", f[1])
    if k == "NA":
        return ("A", f[1])
    if k == "&":
        return ("|", [_negate(x) for x in f[1]])
    if k == "|":
        return ("&", [_negate(x) for x in f[1]])
    return f[1]


def f_pre(f):
    """(precommand entries, distinct __logic__ flags) of the lowering — for the statistics only"""
    k = f[0]
    if k in ("A", "NA"):
        return 0, 0
    if k == "&":
        es = [f_pre(x) for x in f[1]]
        return sum(e for e, _ in es), sum(n for _, n in es)
    if k == "|":
        es = [f_pre(x) for x in f[1]]
        return sum(e for e, _ in es) + len(es), 1 + sum(n for _, n in es)
    if f[1][0] == "&":
        e, n = f_pre(f[1])
        return e + 1, n + 1
    return f_pre(_negate(f[1]))


def cond_pre_lines(cond):
    e, n = f_pre(cond_formula(cond))
    return e + n


def f_depth(f):
    if f[0] == "A":
        return 0
    if f[0] == "!":
        return 1 + f_depth(f[1])
    return 1 + max(f_depth(x) for x in f[1])


def f_smaller(f):
    """formulas one step smaller (shrinking of failing inputs)"""
    if f[0] == "A":
        return
    if f[0] == "!":
        yield f[1]
        for g in f_smaller(f[1]):
            yield ("!", g)
        return
    args = f[1]
    for x in args:
        yield x
    if len(args) > 2:
        for i in range(len(args)):
            yield (f[0], args[:i] + args[i + 1:])
    for i, x in enumerate(args):
        for g in f_smaller(x):
            yield (f[0], args[:i] + [g] + args[i + 1:])


# ------------------------------------------------------------------ source text

def cond_src(cond):
    return F3.formula_text(f_c03(cond_formula(cond)))


def stmt_src(s, ind=1):
    pad = "    " * ind
    k = s[0]
    if k == "say":
        return f'{pad}say "{s[1]}";'
    if k == "set":
        return f"{pad}{s[1]} = {s[2]};"
    if k == "add":
        return f"{pad}{s[1]} += {s[2]};"
    if k == "sub":
        return f"{pad}{s[1]} -= {s[2]};"
    if k == "call":
        return f"{pad}{s[1]}();"
    if k == "ret":
        return f"{pad}{ret_src(s[1])};"
    if k == "if":
        out = []
        for i, (c, body) in enumerate(s[1]):
            kw = "if" if i == 0 else "else if"
            out.append(f"{pad}{kw} ({cond_src(c)}) {block(body, ind + 1)}")
        if s[2] is not None:
            out.append(f"{pad}else {block(s[2], ind + 1)}")
        return "\n".join(out)
    if k == "expand":
        return f"{pad}if ({cond_src(s[1])}) expand {block(list(s[2]), ind + 1)}"
    if k == "while":
        return f"{pad}while ({cond_src(s[1])}) {block(s[2], ind + 1)}"
    if k == "dowhile":
        return f"{pad}do {block(s[1], ind + 1)} while ({cond_src(s[2])});"
    if k == "for":
        init = ", ".join(stmt_src(x, 0).rstrip(";") for x in s[1])
        step = ", ".join(stmt_src(x, 0).rstrip(";") for x in s[3])
        return f"{pad}for ({init}; {cond_src(s[2])}; {step}) {block(s[4], ind + 1)}"
    raise ValueError(k)


RET_FORMS = ["0", "1", "true", "fail", ("say", "r"), "1"]


def ret_src(form):
    if form == "0":
        return "return"
    if isinstance(form, str):
        return f"return {form}"
    if form[0] == "say":
        return f'return run say "{form[1]}"'
    return f"return run {form[1]}()"


def ret_line(form, ns="TEST"):
    """the command JMC emits for the statement"""
    if form in ("0", "1", "fail"):
        return f"return {form}"
    if form == "true":
        return "return 1"
    if form[0] == "say":
        return f"return run say {form[1]}"
    return f"return run function {ns}:{form[1]}"


def body_src(body, ind=1):
    return "\n".join(stmt_src(s, ind) for s in body)


class NB(list):
    """a branch / else body written WITHOUT braces: exactly one statement, which is a basic command, a lone `if`
    (one branch, no else; never as an else body — `else if` is a chain continuation), a `while` or a `for`.
    Everything but the source printer treats it as the plain list it is (JMC lowers `if (c) stmt` like `if (c) { stmt }`;
    a JSON round trip drops the marker, replays store the source text)."""


NB_KINDS = ("say", "set", "add", "sub", "call", "ret", "if", "while", "for")


def nb_ok(body, is_else=False):
    """may this body be written without braces?"""
    if len(body) != 1:
        return False
    s = body[0]
    if s[0] == "if":
        return not is_else and len(s[1]) == 1 and s[2] is None
    return s[0] in NB_KINDS


def block(body, ind):
    """{ ... } ; an empty body is written `{}` (the only spelling add_arrow_function refuses);
    a brace-less body (NB) is its single statement, on the same line"""
    pad = "    " * (ind - 1)
    if isinstance(body, NB):
        return stmt_src(body[0], ind - 1).lstrip(" ")
    return "{}" if not body else "{\n" + body_src(body, ind) + "\n" + pad + "}"


def prog_src(body, fname="f"):
    return f"function {fname}() {{\n{body_src(body)}\n}}\n"


def item_functions(it):
    """[(name, body)] of the pack in source order; the entry point is always `f`"""
    more = it.get("more") or {}
    order = it.get("order") or ["f"] + list(more)
    return [(n, it["prog"] if n == "f" else more[n]) for n in order]


def pack_src(it):
    return "".join(prog_src(b, n) for n, b in item_functions(it))


# ------------------------------------------------------------------ Coq terms

def score_term(v, cert):
    return f"({coq_str(v)}, {coq_str(cert['VAR'])})"


def cond_term(cond, cert, wrapped=True):
    """`lowc nm wrapped <formula>`: the lowering is computed in Coq by Model.Cond.parse_condition (property C03's model)"""
    return f"(lowc nm {'true' if wrapped else 'false'} {F3.coq_formula(f_c03(cond_formula(cond)), cert)})"


def cmd_term(s, cert):
    k = s[0]
    if k == "say":
        return f"CSay {coq_str(s[1])}"
    if k == "set":
        return f"CSet {score_term(s[1], cert)} {coq_z(s[2])}"
    if k == "add":
        return f"CAdd {score_term(s[1], cert)} {coq_z(s[2])}"
    if k == "sub":
        return f"CRemove {score_term(s[1], cert)} {coq_z(s[2])}"
    if k == "call":
        return f"CCall {coq_str('TEST:' + s[1])}"
    if k == "ret":
        return f"COther {coq_str(ret_line(s[1]))}"
    raise ValueError(k)


def stmt_term(s, cert):
    k = s[0]
    if k in ("say", "set", "add", "sub", "call", "ret"):
        return f"SCmd ({cmd_term(s, cert)})"
    if k == "if":
        b = "BNil"
        for c, body in reversed(s[1]):
            b = f"(BCons {cond_term(c, cert)} {stmts_term(body, cert)} {b})"
        e = "ENone" if s[2] is None else f"(ESome {stmts_term(s[2], cert)})"
        return f"SIf {b} {e}"
    if k == "while":
        return f"SWhile {cond_term(s[1], cert)} {stmts_term(s[2], cert)}"
    if k == "dowhile":
        return f"SDoWhile {stmts_term(s[1], cert)} {cond_term(s[2], cert)}"
    if k == "for":
        init = "; ".join(cmd_term(x, cert) for x in s[1])
        step = "; ".join(cmd_term(x, cert) for x in s[3])
        return f"SFor [{init}] {cond_term(s[2], cert, wrapped=False)} [{step}] {stmts_term(s[4], cert)}"
    raise ValueError(k)


def stmts_term(body, cert):
    t = "SNil"
    for s in reversed(body):
        t = f"(SCons ({stmt_term(s, cert)}) {t})"
    return t


def case_term(it, cert, res, ns="TEST"):
    """Run.C04.case for one compiled pack (res = jmc_run result)"""
    funs = item_functions(it)
    if not res["ok"]:
        fl = "; ".join(f'({coq_str(n)}, (fun nm => {stmts_term(b, cert)}), "<error>")' for n, b in funs)
        return f"mkCase {names_term(cert, ns)} [{fl}] []"
    fns = real_functions(res, ns)
    users = {n: fns.pop(n, f"<missing function {n}>") for n, _ in funs}
    priv = [(f"{ns}:{k}", v) for k, v in sorted(fns.items()) if k.startswith(cert["PRIVATE"] + "/")]
    other = [k for k in fns if not k.startswith(cert["PRIVATE"] + "/") and k not in (cert["LOAD"], cert["TICK"])]
    if other:
        users["f"] = "<unexpected functions: %s>" % ",".join(other)
    pl = "; ".join(f"({coq_str(k)}, {coq_str(v)})" for k, v in priv)
    fl = "; ".join(f"({coq_str(n)}, (fun nm => {stmts_term(b, cert)}), {coq_str(users[n])})" for n, b in funs)
    return f"mkCase {names_term(cert, ns)} [{fl}] [{pl}]"


def real_functions(res, ns="TEST"):
    import re
    out = {}
    for k, v in res["files"].items():
        m = re.match(r"VIRTUAL/data/%s/functions?/(.*)\.mcfunction$" % re.escape(ns), k)
        if m:
            out[m.group(1)] = v
    return out


COQ_HEADER = ("From Coq Require Import ZArith String List.\n"
              "From JMCV Require Import MC.Syntax Model.Names Model.Cond Model.PrivAlloc Model.IfElse Model.Loop Run.C04.\n"
              "Import ListNotations.\nOpen Scope string_scope.\n")


# ------------------------------------------------------------------ source-level meaning (search only)

class Diverge(Exception):
    pass


class Return(Exception):
    """a `return` statement was executed: unwinds to the innermost block that JMC compiles to a function of its own"""


def atom_true(a, sc, var):
    v, op, r = a
    x = sc.get((v, var))
    if op == "truthy":
        return x is not None and x >= 1
    if op == "matches":
        return x is not None and r[0] <= x <= r[1]
    y = r if isinstance(r, int) else sc.get((r, var))
    if op == "!=":
        return not (x is not None and y is not None and x == y)
    if x is None or y is None:
        return False
    return {"==": x == y, "<": x < y, "<=": x <= y, ">": x > y, ">=": x >= y}[op]


def f_true(f, sc, var):
    k = f[0]
    if k == "A":
        return atom_true(f[1], sc, var)
    if k == "!":
        return not f_true(f[1], sc, var)
    if k == "&":
        return all(f_true(x, sc, var) for x in f[1])
    return any(f_true(x, sc, var) for x in f[1])


def cond_true(cond, sc, var):
    return f_true(cond_formula(cond), sc, var)


class Interp:
    """JavaScript meaning of a program tree on a score dictionary; say-trace recorded."""

    def __init__(self, sc, var, budget=400, funcs=None):
        self.sc, self.var, self.budget, self.trace = dict(sc), var, budget, []
        self.iters = 0
        self.funcs = funcs or {}
        self.depth = 0

    def tick(self):
        self.budget -= 1
        if self.budget < 0:
            raise Diverge()

    def run(self, body):
        for s in body:
            self.stmt(s)

    def block(self, body, own=True):
        """run a body; own = JMC compiles it to a function of its own, which is what a `return` inside it leaves
        (a body that is NOT a function of its own — a one-line body inlined after `run` — hands the return on to the
        function its line stands in)"""
        try:
            self.run(body)
        except Return:
            if not own:
                raise

    @staticmethod
    def last_own(s):
        """is the last part of a chain (else body / unwrapped last else-if) or the body of a lone `if` a function
        of its own?  A one-line body is inlined after `run`: in the enclosing function for a lone `if` and for a chain
        with a single wrapped branch (unless the last else-if has helper lines: they and the guarded body get a
        function), in the last stage function for longer chains (nothing follows it there: the chain simply ends)."""
        n, els = len(s[1]), s[2]
        last = els if els is not None else s[1][-1][1]
        if lines_of(last) != 1:
            return True
        if n == 1 and els is None:
            return False
        wrapped = n if els is not None else n - 1
        return wrapped >= 2 or (els is None and cond_pre_lines(s[1][-1][0]) > 0)

    def stmt(self, s):
        k = s[0]
        sc, var = self.sc, self.var
        if k == "say":
            self.trace.append(s[1])
        elif k == "set":
            sc[(s[1], var)] = s[2]
        elif k == "add":
            sc[(s[1], var)] = wrap(sc.get((s[1], var), 0) + s[2])
        elif k == "sub":
            sc[(s[1], var)] = wrap(sc.get((s[1], var), 0) - s[2])
        elif k == "call":
            self.call(s[1])
        elif k == "ret":
            form = s[1]
            if not isinstance(form, str):
                if form[0] == "say":
                    self.trace.append(form[1])
                else:
                    self.call(form[1])
            raise Return()
        elif k == "if":
            n, els = len(s[1]), s[2]
            wrapped = n if els is not None else n - 1
            for i, (c, body) in enumerate(s[1]):
                if cond_true(c, sc, var):
                    self.block(body, True if i < wrapped else self.last_own(s))
                    return
            if els is not None:
                self.block(els, self.last_own(s))
        elif k == "expand":
            for x in s[2]:
                if cond_true(s[1], sc, var):
                    self.stmt(x)
        elif k == "while":
            # the loop function is `body; re-test`: a return in the body leaves it before the re-test (like `break`)
            while cond_true(s[1], sc, var):
                self.tick(); self.iters += 1
                try:
                    self.run(s[2])
                except Return:
                    break
        elif k == "dowhile":
            while True:
                self.tick(); self.iters += 1
                try:
                    self.run(s[1])
                except Return:
                    break
                if not cond_true(s[2], sc, var):
                    break
        elif k == "for":
            self.run(s[1])
            while cond_true(s[2], sc, var):
                self.tick(); self.iters += 1
                try:
                    self.run(s[4])
                    self.run(s[3])
                except Return:
                    break
        else:
            raise ValueError(k)

    def call(self, name):
        self.tick()
        self.depth += 1
        if self.depth > 40:
            raise Diverge()
        self.block(self.funcs[name], True)
        self.depth -= 1


def prog_vars(body, acc=None):
    """user variables read by conditions / written by commands, in first-seen order"""
    acc = acc if acc is not None else []

    def add(v):
        if isinstance(v, str) and v not in acc:
            acc.append(v)

    def cond(c):
        for a in cond_atoms(c):
            add(a[0]); add(a[2])
    for s in body:
        k = s[0]
        if k in ("set", "add", "sub"):
            add(s[1])
        elif k == "if":
            for c, b in s[1]:
                cond(c); prog_vars(b, acc)
            if s[2] is not None:
                prog_vars(s[2], acc)
        elif k in ("while", "expand"):
            cond(s[1]); prog_vars(s[2], acc)
        elif k == "dowhile":
            prog_vars(s[1], acc); cond(s[2])
        elif k == "for":
            prog_vars(s[1], acc); cond(s[2]); prog_vars(s[3], acc); prog_vars(s[4], acc)
    return acc


class _Ret(Exception):
    pass


class RVM(VM):
    """mcvm + Minecraft's `return`: `return <value>` / `return fail` / `return run <command>` end the function they are
    written in (the rest of its lines is skipped), nothing else"""

    def run_func(self, name, margs=None):
        d = self.depth
        try:
            return VM.run_func(self, name, margs)
        except _Ret:
            self.depth = d
            return True

    def cmd(self, line):
        if line == "return" or line.startswith("return "):
            self.steps += 1
            rest = line[7:]
            if rest.startswith("run "):
                self.cmd(rest[4:])
            elif rest != "fail" and not __import__("re").fullmatch(r"-?\d+", rest):
                raise Invalid(line)
            raise _Ret()
        return VM.cmd(self, line)


def run_real(fns, var, init, ns="TEST", max_steps=200000, max_depth=3000):
    vm = RVM(fns, ns=ns, max_steps=max_steps, max_depth=max_depth)
    vm.s.update(init)
    vm.run_func(f"{ns}:f")
    return vm


def semantic_failure(body, fns, cert, states, ns="TEST", budget=400, funcs=None):
    """Run the really emitted functions from every state; compare say-trace and the user
    variables with the source-level meaning.  Returns (failure | None, n_runs, n_skipped, max_iters)."""
    var = cert["VAR"]
    runs = skipped = 0
    max_iters = 0
    for init in states:
        it = Interp(init, var, budget, funcs)
        try:
            it.block(body)
        except Diverge:
            skipped += 1
            continue
        runs += 1
        max_iters = max(max_iters, it.iters)
        desc = {f"{h} {o}": v for (h, o), v in init.items()}
        try:
            vm = run_real(fns, var, init, ns)
        except Invalid as e:
            return dict(kind="invalid-command", detail=str(e), init=desc), runs, skipped, max_iters
        except OutOfFuel:
            return dict(kind="emitted-code-does-not-terminate", init=desc, expected_trace=it.trace), runs, skipped, max_iters
        except RecursionError:
            return dict(kind="emitted-code-does-not-terminate", init=desc, expected_trace=it.trace), runs, skipped, max_iters
        if vm.trace != it.trace:
            return dict(kind="wrong-trace", init=desc, expected_trace=it.trace, actual_trace=vm.trace), runs, skipped, max_iters
        user_exp = {k: v for k, v in it.sc.items() if k[0].startswith("$")}
        user_act = {k: v for k, v in vm.s.items() if k[0].startswith("$")}
        # a score that the emitted code merely touched (getOrCreate) is not a difference
        for k in set(user_exp) | set(user_act):
            if user_exp.get(k) != user_act.get(k):
                return dict(kind="wrong-final-score", score=f"{k[0]} {k[1]}", expected=user_exp.get(k),
                            actual=user_act.get(k), init=desc, trace=it.trace), runs, skipped, max_iters
    return None, runs, skipped, max_iters


def states_for(body, cert, values=(0, 1), cap=64, rng=None, extra=(), domains=None, more=None):
    """initial states: every assignment of `values` (or of its own domain) to the program's variables
    (capped, then sampled)"""
    import itertools
    var = cert["VAR"]
    acc = prog_vars(body)
    for b in (more or {}).values():
        prog_vars(b, acc)
    vs = [v for v in acc if not v.startswith("$L")]
    doms = [tuple((domains or {}).get(v, values)) for v in vs]
    total = 1
    for dm in doms:
        total *= len(dm)
    out = []
    if total <= cap:
        for combo in itertools.product(*doms):
            out.append({(v, var): x for v, x in zip(vs, combo) if x is not None})
    else:
        for _ in range(cap):
            out.append({(v, var): x for v, dm in zip(vs, doms) for x in [rng.choice(dm)] if x is not None})
    for e in extra:
        out.append({(v, var): x for v, x in e.items() if x is not None})
    return out


# ------------------------------------------------------------------ generators

class Names:
    """fresh say-texts and per-loop counters"""

    def __init__(self):
        self.n_say = 0
        self.n_loop = 0

    def say(self, tag="s"):
        self.n_say += 1
        return ("say", f"{tag}{self.n_say}")

    def loopvar(self):
        self.n_loop += 1
        return f"$L{self.n_loop}"

    def qvar(self):
        """a loop counter that is NOT excluded from the enumerated initial states (a stale value may make the test true)"""
        self.n_loop += 1
        return f"$q{self.n_loop}"


CVARS = ["$a", "$b", "$c", "$d", "$e", "$g"]


def atomic_cond(v, rng=None):
    """an atomic condition on variable v that is true iff v == 1 when v ranges over {0, 1}"""
    forms = [(v, "==", 1), (v, ">=", 1), (v, ">", 0), (v, "!=", 0)]
    a = forms[0] if rng is None else rng.choice(forms)
    return [("atom", a)]


def or_cond(v, w, rng=None):
    """a condition with precommands: v == 1 || w == 1 (variants)"""
    if rng is None:
        return [("or", [[(v, "==", 1)], [(w, "==", 1)]])]
    k = rng.randrange(4)
    if k == 0:
        return [("or", [[(v, "==", 1)], [(w, ">=", 1)]])]
    if k == 1:
        return [("or", [[(v, "==", 1)], [(w, "==", 1)], [(v, ">", 5)]])]
    if k == 2:
        return [("atom", (w, "<=", 1)), ("or", [[(v, "==", 1)], [(w, "==", 1)]])]
    return [("or", [[(v, "==", 1), (w, "<", 2)], [(w, "==", 1)]]), ("or", [[(v, ">=", 0)], [(w, "==", 7)]])]


# ---- rich conditions (nested || under && under ||, !(a && b), several flags, mixed atoms)

POS_FORMS = 8


def pos(v, k=0):
    """a formula over v alone that is true iff v == 1 when v ranges over {0, 1} (k selects the spelling)"""
    k %= POS_FORMS
    return [A(v, "==", 1), TRUTHY(v), A(v, ">=", 1), MATCHES(v, 1, 9), A(v, "!=", 0), A(v, ">", 0),
            NOT(A(v, "==", 0)), NOT(A(v, "<", 1))][k]


def neg(v, k=0):
    """true iff v == 0 on {0, 1}"""
    k %= 5
    return [A(v, "==", 0), NOT(TRUTHY(v)), A(v, "<", 1), A(v, "!=", 1), MATCHES(v, -3, 0)][k]


RICH = {
    # the two shapes whose lowering needs "has this flag been written before?" to be decided by a set
    "or_and_or": lambda a, b, c, d: OR(a, AND(b, OR(c, d))),                 # a || (b && (c || d))
    "or_notand": lambda a, b, c, d: OR(a, NOT(AND(b, c))),                   # a || !(b && c)
    "and_or_or": lambda a, b, c, d: AND(OR(a, b), OR(c, d)),                 # two flags side by side
    "notand_and": lambda a, b, c, d: AND(NOT(AND(a, b)), c),
    "nor": lambda a, b, c, d: NOT(OR(a, AND(b, c))),                         # De Morgan, || below a !
    "or_or": lambda a, b, c, d: OR(OR(a, b), AND(c, d)),
    "or_or_r": lambda a, b, c, d: OR(a, OR(b, AND(c, d))),
    "not_and_or": lambda a, b, c, d: NOT(AND(a, OR(b, c))),
    "deep": lambda a, b, c, d: OR(AND(a, NOT(AND(b, c))), AND(d, OR(b, NOT(a)))),
    "and_or_notand": lambda a, b, c, d: AND(a, OR(b, NOT(AND(c, d)))),
    "or3_mixed": lambda a, b, c, d: OR(AND(a, b), NOT(OR(c, d)), AND(c, NOT(b))),
    "notnot": lambda a, b, c, d: OR(NOT(NOT(a)), AND(b, NOT(NOT(AND(c, d))))),
    "or_last_group": lambda a, b, c, d: OR(a, b, AND(c, OR(d, NOT(AND(a, b))))),
    "three_flags": lambda a, b, c, d: AND(OR(a, NOT(AND(b, c))), OR(d, AND(b, OR(a, c)))),
}
RICH_KINDS = list(RICH)


def rich(kind, vars_, spell=0):
    """the rich formula `kind` over four variables, atoms in rotating spellings"""
    a, b, c, d = [pos(v, spell + 3 * i) for i, v in enumerate(vars_[:4])]
    return RICH[kind](a, b, c, d)


def f_vars(f):
    out = []
    for a in f_atoms(f):
        for v in (a[0], a[2]):
            if isinstance(v, str) and v not in out:
                out.append(v)
    return out


def falsifier(f, var="v"):
    """assignments (0/1) of the variables of f making it false, as `set` statements (None if there is none)"""
    import itertools
    vs = f_vars(f)
    for combo in itertools.product((1, 0), repeat=len(vs)):
        if not f_true(f, {(v, var): x for v, x in zip(vs, combo)}, var):
            return [("set", v, x) for v, x in zip(vs, combo)]
    return None


def random_formula(rng, vars_, depth, p_leaf=0.1):
    """random formula over the given variables: every connective, arity 2-3, mixed atom kinds"""
    if depth == 0 or rng.random() < p_leaf:
        v = rng.choice(vars_)
        r = rng.random()
        if r < 0.55:
            return pos(v, rng.randrange(POS_FORMS))
        if r < 0.8:
            return neg(v, rng.randrange(5))
        w = rng.choice(vars_)
        return A(v, rng.choice(["==", "<", "<=", ">", ">=", "!="]), w)
    r = rng.random()
    if r < 0.2:
        return NOT(random_formula(rng, vars_, depth - 1, p_leaf))
    n = rng.choice([2, 2, 2, 3])
    return ("&" if r < 0.55 else "|", [random_formula(rng, vars_, depth - 1, p_leaf + 0.2) for _ in range(n)])


def chain_body(kind, i, nm: Names, later_vars, rng=None):
    """body kinds of the exhaustive chain stream"""
    if kind == "one":
        return [nm.say(f"B{i}_")]
    if kind == "two":
        return [nm.say(f"B{i}_"), nm.say(f"B{i}_")]
    if kind == "flip":
        # makes every condition tested later true, and the earlier ones too
        return [("set", v, 1) for v in later_vars] + [nm.say(f"B{i}_")]
    if kind == "flip1":
        return [("set", later_vars[-1] if later_vars else "$a", 1)]
    if kind == "nest":
        # a nested chain that itself ends in an else-if with precommands and no else, then one more command
        inner = ("if", [(atomic_cond("$n"), [nm.say(f"N{i}_")]),
                        (or_cond("$m", "$n"), [nm.say(f"N{i}_")])], None)
        return [inner]
    if kind == "nest2":
        inner = ("if", [(or_cond("$n", "$m"), [nm.say(f"N{i}_"), nm.say(f"N{i}_")])], [nm.say(f"N{i}_")])
        return [nm.say(f"B{i}_"), inner]
    if kind == "nest1":
        # single `if` as the only command: inlined and merged into the guard
        return [("if", [(atomic_cond("$n"), [nm.say(f"N{i}_")])], None)]
    raise ValueError(kind)


BODY_KINDS = ["one", "two", "nest", "flip"]
EXTRA_BODY_KINDS = ["flip1", "nest2", "nest1"]


def make_chain(cond_kinds, body_kinds, else_kind, nm=None, rng=None, vary=False):
    """cond_kinds: 'a' (atomic) / 'o' (|| group) per branch; body_kinds per branch; else_kind or None.
    Branch i tests variable CVARS[i] (and CVARS[i+1] for 'o')."""
    nm = nm or Names()
    n = len(cond_kinds)
    used = []
    conds = []
    for i, ck in enumerate(cond_kinds):
        v, w = CVARS[i], CVARS[(i + 1) % len(CVARS)]
        if ck == "a":
            conds.append(atomic_cond(v, rng if vary else None)); used.append([v])
        else:
            conds.append(or_cond(v, w, rng if vary else None)); used.append([v, w])
    allv = []
    for u in used:
        for v in u:
            if v not in allv:
                allv.append(v)
    branches = []
    for i in range(n):
        branches.append((conds[i], chain_body(body_kinds[i], i, nm, allv, rng)))
    els = None if else_kind is None else chain_body(else_kind, n, nm, allv, rng)
    return [("if", branches, els), nm.say("after")]


def random_cond(rng, vars_, allow_or=True):
    def atom():
        v = rng.choice(vars_)
        if rng.random() < 0.2:
            w = rng.choice(vars_)
            return (v, rng.choice(["==", "<", "<=", ">", ">=", "!="]), w)
        return (v, rng.choice(["==", "==", "!=", "<", "<=", ">", ">="]), rng.choice([0, 1, 1, 2]))
    items = []
    if allow_or and rng.random() < 0.3:
        f = random_formula(rng, vars_, rng.choice([2, 3, 3, 4]))
        return [("atom", f[1])] if f[0] == "A" else [("f", f)]
    for _ in range(1 if rng.random() < 0.7 else 2):
        if allow_or and rng.random() < 0.45:
            items.append(("or", [[atom() for _ in range(1 if rng.random() < 0.75 else 2)]
                                 for _ in range(rng.choice([2, 2, 3]))]))
        else:
            items.append(("atom", atom()))
    return items


def random_body(rng, nm: Names, depth, vars_, loops=True, maxlen=3, bl=False):
    body = []
    for _ in range(rng.choice([1, 1, 2, 2, 3])):
        body.append(random_stmt(rng, nm, depth, vars_, loops, bl))
    return body


def random_braceless_loop_chain(rng, nm: Names, depth, vars_):
    """a chain one of whose bodies is a lone loop (so that it can be written without braces); the counter of a
    while is initialised BEFORE the chain.  -> ("seq", [...])"""
    n = rng.choice([1, 2, 2, 3])
    j = rng.randrange(n + 1)                       # position of the loop body (n = the else)
    lp = random_loop(rng, nm, depth, vars_, kind=rng.choice(["while", "for", "for"]))
    pre = []
    if lp[0] == "seq":
        pre, lp = [lp[1][0]], lp[1][1]
    bodies = [[lp] if i == j else random_body(rng, nm, depth - 1, vars_, True, bl=True) for i in range(n + 1)]
    els = bodies[n] if (j == n or rng.random() < 0.4) else None
    return ("seq", pre + [("if", [(random_cond(rng, vars_), bodies[i]) for i in range(n)], els)])


def random_stmt(rng, nm: Names, depth, vars_, loops=True, bl=False):
    r = rng.random()
    if bl and loops and depth > 0 and r < 0.22:
        return random_braceless_loop_chain(rng, nm, depth, vars_)
    if depth <= 0 or r < 0.3:
        k = rng.random()
        if k < 0.55:
            return nm.say()
        if k < 0.8:
            return ("set", rng.choice(vars_), rng.choice([0, 1, 1, 2]))
        if k < 0.9:
            return ("add", rng.choice(vars_), rng.choice([1, 1, 2]))
        return ("sub", rng.choice(vars_), 1)
    if r < 0.65 or not loops:
        n = rng.choice([1, 1, 2, 2, 3, 4])
        branches = [(random_cond(rng, vars_), random_body(rng, nm, depth - 1, vars_, loops, bl=bl)) for _ in range(n)]
        els = random_body(rng, nm, depth - 1, vars_, loops, bl=bl) if rng.random() < 0.5 else None
        return ("if", branches, els)
    return random_loop(rng, nm, depth, vars_, bl=bl)


def random_loop(rng, nm: Names, depth, vars_, kind=None, cond_kind=None, bl=False):
    """a loop with its own bounded counter $Lk: the condition is `$Lk < N` combined with a random
    condition, and the body increments $Lk (at a random position)."""
    lv = nm.loopvar()
    bound = rng.choice([0, 1, 2, 3])
    kind = kind or rng.choice(["while", "dowhile", "for"])
    cond_kind = cond_kind or rng.choice(["atomic", "and_or", "or", "plain", "rich", "rich"])
    guard = (lv, "<", bound)
    if cond_kind == "rich":
        g = ("A", guard)
        f = random_formula(rng, vars_, rng.choice([2, 3]))
        t = rng.randrange(4)
        if t == 0:
            cond = [("f", AND(g, f))]
        elif t == 1:
            cond = [("f", AND(f, g))]
        elif t == 2:
            f2 = random_formula(rng, vars_, 2)
            cond = [("f", OR(AND(g, f), AND(f2, g)))]
        else:       # !(L >= N || !f)  ==  L < N && f
            cond = [("f", NOT(OR(A(lv, ">=", bound), NOT(f))))]
    elif cond_kind == "atomic" or cond_kind == "plain":
        cond = [("atom", guard)]
    elif cond_kind == "and_or":
        v, w = rng.choice(vars_), rng.choice(vars_)
        cond = [("atom", guard), ("or", [[(v, "==", rng.choice([0, 1]))], [(w, "!=", rng.choice([0, 1]))]])]
        if rng.random() < 0.5:
            cond.reverse()
    else:
        # `$Lk < N && x || $Lk < N && y` : an || group at top level, still bounded by the counter
        v, w = rng.choice(vars_), rng.choice(vars_)
        cond = [("or", [[guard, (v, "==", rng.choice([0, 1]))], [guard, (w, ">=", rng.choice([0, 1]))]])]
    body = random_body(rng, nm, depth - 1, vars_, bl=bl)
    inc = ("add", lv, 1)
    if kind == "for":
        return ("for", [("set", lv, 0)], cond, [inc], body)
    body.insert(rng.randrange(len(body) + 1), inc)
    pre = ("set", lv, 0)
    loop = ("while", cond, body) if kind == "while" else ("dowhile", body, cond)
    return ("seq", [pre, loop])


def flatten_seq(body):
    """random_loop returns ("seq", [...]) for loops that need their counter initialised first"""
    out = []
    for s in body:
        if s[0] == "seq":
            out.extend(flatten_seq(s[1]))
        elif s[0] == "if":
            out.append(("if", [(c, flatten_seq(b)) for c, b in s[1]], None if s[2] is None else flatten_seq(s[2])))
        elif s[0] == "while":
            out.append(("while", s[1], flatten_seq(s[2])))
        elif s[0] == "dowhile":
            out.append(("dowhile", flatten_seq(s[1]), s[2]))
        elif s[0] == "for":
            out.append(("for", s[1], s[2], s[3], flatten_seq(s[4])))
        else:
            out.append(s)
    return out


def random_program(rng, depth=3, loops=True, nvars=3, braceless_loops=False):
    nm = Names()
    vars_ = CVARS[:nvars]
    body = random_body(rng, nm, depth, vars_, loops, bl=braceless_loops)
    body.append(nm.say("end"))
    return flatten_seq(body)


def sprinkle_returns(rng, body, p=0.3):
    """insert `return …;` statements into the branch / else bodies of the chains of `body` (in place), at random
    positions; -> number inserted"""
    n = 0
    for s in body:
        if s[0] == "if":
            for b in [bb for _c, bb in s[1]] + ([s[2]] if s[2] is not None else []):
                n += sprinkle_returns(rng, b, p)
                if rng.random() < p:
                    b.insert(rng.randrange(len(b) + 1), ("ret", rng.choice(RET_FORMS[:5])))
                    n += 1
    return n


def insert_calls(rng, body, callee, n=1):
    """the body with n `callee();` statements inserted at random places (also inside branch and loop bodies)"""
    def places(b, acc):
        acc.append(b)
        for s in b:
            if s[0] == "if":
                for _c, bb in s[1]:
                    places(bb, acc)
                if s[2] is not None:
                    places(s[2], acc)
            elif s[0] == "while":
                places(s[2], acc)
            elif s[0] == "dowhile":
                places(s[1], acc)
            elif s[0] == "for":
                places(s[4], acc)
        return acc
    for _ in range(n):
        b = rng.choice(places(body, []))
        b.insert(rng.randrange(len(b) + 1), ("call", callee))
    return body


def random_pack(rng, depth=2, loops=True, nvars=3, helpers=1):
    """a pack of several user functions: f (the entry point) calls g (which may call h); every function contains
    chains / loops of its own, so that the private-function numbering runs across function boundaries.
    -> dict(prog=, more=, order=)"""
    nm = Names()
    vars_ = CVARS[:nvars]
    names = ["g", "h"][:helpers]
    bodies = {}
    for i, n in reversed(list(enumerate(names))):
        b = flatten_seq(random_body(rng, nm, depth, vars_, loops) + [nm.say(n + "end")])
        if i + 1 < len(names):
            insert_calls(rng, b, names[i + 1], 1)
        bodies[n] = b
    f = flatten_seq(random_body(rng, nm, depth, vars_, loops) + [nm.say("end")])
    insert_calls(rng, f, "g", rng.choice([1, 1, 2]))
    order = ["f"] + names
    rng.shuffle(order)
    return dict(prog=f, more=bodies, order=order)


# ------------------------------------------------------------------ brace-less bodies (strengthening round 3)

def mark_braceless(rng, body, p=0.6):
    """the same tree with one-statement branch / else bodies written without braces (probability p each, where JMC's
    grammar allows it: see NB).  Loop bodies always keep their braces (the grammar demands a block)."""
    def mark(b, is_else=False):
        nb = walk(b)
        if nb_ok(nb, is_else) and rng.random() < p:
            return NB(nb)
        return nb

    def walk(b):
        out = []
        for s in b:
            k = s[0]
            if k == "if":
                out.append(("if", [(c, mark(bb)) for c, bb in s[1]], None if s[2] is None else mark(s[2], True)))
            elif k == "while":
                out.append(("while", s[1], walk(s[2])))
            elif k == "dowhile":
                out.append(("dowhile", walk(s[1]), s[2]))
            elif k == "for":
                out.append(("for", s[1], s[2], s[3], walk(s[4])))
            else:
                out.append(s)
        return out
    return walk(body)


def count_braceless(body):
    n = 0
    for s in body:
        k = s[0]
        if k == "if":
            for _c, b in s[1]:
                n += isinstance(b, NB) + count_braceless(b)
            if s[2] is not None:
                n += isinstance(s[2], NB) + count_braceless(s[2])
        elif k == "while":
            n += count_braceless(s[2])
        elif k == "dowhile":
            n += count_braceless(s[1])
        elif k == "for":
            n += count_braceless(s[4])
    return n


BL_BODIES = ["cmd", "set", "if1", "if1or", "ifdeep", "for", "for_or", "for_ortop", "while", "while_or", "for_chain"]
BL_LOOP_BODIES = [k for k in BL_BODIES if k.startswith(("for", "while"))]
BL_POS = ["lone", "first_else", "else", "elif_last", "elif_else", "elif_mid", "elif_last3", "else3", "all_nb"]
BL_FOLLOW = ["none", "say", "chain", "blchain", "while", "for", "dowhile", "for_or", "blloop"]
BL_ENCL = ["top", "for_body", "while_body", "branch", "dowhile_body", "else_branch"]


def bl_body(kind, nm, tag):
    """-> (statements that must precede the chain, the brace-less body, {variable: domain} of stale counters).
    A `for` counts on a variable that takes part in the enumeration of initial states (0 = the loop test holds on the
    stale value although the initialiser has not run); a `while` counts on a `$L` variable initialised before the chain."""
    say = lambda: nm.say(tag)
    if kind == "cmd":
        return [], NB([say()]), {}
    if kind == "set":                                   # changes a variable the chain tests
        return [], NB([("set", "$a", 0)]), {}
    if kind == "if1":                                   # one line: merged into the guard
        return [], NB([("if", [(atomic_cond("$n"), NB([say()]))], None)]), {}
    if kind == "if1or":                                 # several lines (helper block of the inner condition)
        return [], NB([("if", [(or_cond("$n", "$m"), [say()])], None)]), {}
    if kind == "ifdeep":
        inner = ("if", [(or_cond("$m", "$n"), NB([say()]))], None)
        return [], NB([("if", [(atomic_cond("$n"), NB([inner]))], None)]), {}
    if kind.startswith("for"):
        q = nm.qvar()
        g = (q, "<", 2)
        if kind == "for":
            cond, body = [("atom", g)], [say()]
        elif kind == "for_or":                          # $q < 2 && ($n == 1 || $m != 1)
            cond, body = [("atom", g), ("or", [[("$n", "==", 1)], [("$m", "!=", 1)]])], [say()]
        elif kind == "for_ortop":                       # $q < 2 && $n == 1 || $q < 2 && $m == 0
            cond, body = [("or", [[g, ("$n", "==", 1)], [g, ("$m", "==", 0)]])], [say(), say()]
        else:                                           # a chain inside the loop
            cond = [("atom", g)]
            body = [("if", [(atomic_cond("$n"), NB([say()])), (or_cond("$m", "$n"), [say(), say()])], None)]
        return [], NB([("for", [("set", q, 0)], cond, [("add", q, 1)], body)]), {q: (0, 3)}
    lv = nm.loopvar()
    g = (lv, "<", 2)
    if kind == "while":
        cond = [("atom", g)]
    else:                                               # ($L < 2 && $n == 1) || ($L < 2 && $m != 1)
        cond = [("or", [[g, ("$n", "==", 1)], [g, ("$m", "!=", 1)]])]
    return [("set", lv, 0)], NB([("while", cond, [("add", lv, 1), say()])]), {}


def bl_chain(pos, B, nm, conds, B2=None, B3=None):
    """the chain with the brace-less body B in position `pos`; None when the combination is not expressible"""
    blk = lambda t: [nm.say(t), nm.say(t)]
    one = lambda t: [nm.say(t)]
    c0, c1, c2 = conds
    b_is_if = B[0][0] == "if"
    if pos == "lone":
        return ("if", [(c0, B)], None)
    if pos == "first_else":
        return ("if", [(c0, B)], blk("E"))
    if pos == "else":
        return None if b_is_if else ("if", [(c0, blk("T"))], B)
    if pos == "elif_last":
        return ("if", [(c0, blk("T")), (c1, B)], None)
    if pos == "elif_else":
        return ("if", [(c0, one("T")), (c1, B)], blk("E"))
    if pos == "elif_mid":
        return ("if", [(c0, blk("T")), (c1, B), (c2, one("U"))], None)
    if pos == "elif_last3":
        return ("if", [(c0, NB(one("T"))), (c1, blk("U")), (c2, B)], None)
    if pos == "else3":
        return None if b_is_if else ("if", [(c0, NB(one("T"))), (c1, NB(one("U")))], B)
    if pos == "all_nb":
        if B2 is None or B3 is None or B3[0][0] == "if":
            return None
        return ("if", [(c0, B2), (c1, B)], B3)
    raise ValueError(pos)


def bl_follow(kind, nm):
    """-> (statements before the chain (counter initialisers), statements right after the chain)"""
    if kind == "none":
        return [], []
    if kind == "say":
        return [], [nm.say("F")]
    if kind == "chain":
        return [], [("if", [(atomic_cond("$d"), [nm.say("F"), nm.say("F")])], [nm.say("G")])]
    if kind == "blchain":
        return [], [("if", [(atomic_cond("$d"), NB([nm.say("F")]))], NB([nm.say("G")])), nm.say("H")]
    if kind in ("for", "for_or"):
        q = nm.loopvar()
        cond = [("atom", (q, "<", 2))] if kind == "for" else [("or", [[(q, "<", 2), ("$d", "==", 1)], [(q, "<", 1)]])]
        return [], [("for", [("set", q, 0)], cond, [("add", q, 1)], [nm.say("F")])]
    if kind == "blloop":                 # another brace-less else-if + loop, then a plain loop
        q, r = nm.loopvar(), nm.loopvar()
        lp = lambda v, t: ("for", [("set", v, 0)], [("atom", (v, "<", 2))], [("add", v, 1)], [nm.say(t)])
        return [], [("if", [(atomic_cond("$d"), NB([nm.say("F")])), (atomic_cond("$c"), NB([lp(q, "G")]))], None), lp(r, "H")]
    lv = nm.loopvar()
    body = [nm.say("F"), ("add", lv, 1)]
    c = [("atom", (lv, "<", 2))]
    return [("set", lv, 0)], [("while", c, body) if kind == "while" else ("dowhile", body, c)]


def bl_enclose(kind, stmts, nm):
    if kind == "top":
        return stmts
    if kind == "branch":
        return [("if", [(atomic_cond("$e"), stmts)], [nm.say("X")]), nm.say("end")]
    if kind == "else_branch":
        return [("if", [(atomic_cond("$e"), [nm.say("X"), nm.say("X")])], stmts), nm.say("end")]
    o = nm.loopvar()
    c = [("atom", (o, "<", 2))]
    if kind == "for_body":
        return [("for", [("set", o, 0)], c, [("add", o, 1)], stmts), nm.say("end")]
    inc = ("add", o, 1)
    if kind == "while_body":
        return [("set", o, 0), ("while", c, stmts + [inc]), nm.say("end")]
    return [("set", o, 0), ("dowhile", [inc] + stmts, c), nm.say("end")]


def braceless_items(rng, quick, bodies=None, follows=None, stream="braceless-matrix"):
    """brace-less forms x body kind x chain position x what follows in the same block x enclosing block.
    quick: every (body, position) pair with 3 followers chosen so that every (body, follower) and (position, follower)
    pair occurs; the enclosing block and the condition kinds (atomic / `||`) rotate.  thorough: every triple."""
    bodies = bodies or BL_BODIES
    follows = follows or BL_FOLLOW
    items = []
    n = 0
    for bi, bk in enumerate(bodies):
        for pi, pk in enumerate(BL_POS):
            fsel = follows if not quick else [follows[(bi + pi + 3 * r) % len(follows)] for r in range(3)]
            for fk in dict.fromkeys(fsel):
                n += 1
                nm = Names()
                pre, B, dom = bl_body(bk, nm, "B")
                pre2, B2, dom2 = bl_body(bodies[(bi + 1) % len(bodies)], nm, "C")
                pre3, B3, dom3 = bl_body(["cmd", "for", "while_or", "set", "for_or"][n % 5], nm, "D")
                kinds = [(n >> j) & 1 for j in range(3)]
                conds = [or_cond(CVARS[j], CVARS[j + 1]) if kinds[j] else atomic_cond(CVARS[j]) for j in range(3)]
                ch = bl_chain(pk, B, nm, conds, B2, B3)
                if ch is None:
                    continue
                if pk == "all_nb":
                    pre, dom = pre + pre2 + pre3, {**dom, **dom2, **dom3}
                fpre, fpost = bl_follow(fk, nm)
                stmts = fpre + pre + [ch] + fpost
                encl = BL_ENCL[n % len(BL_ENCL)] if n % 3 else "top"
                prog = bl_enclose(encl, stmts, nm)
                if encl == "top" and fk != "none" and n % 2:
                    prog = prog + [nm.say("end")]
                items.append(dict(prog=prog, cert=n % 2, stream=stream, cap=64, values=dom,
                                  bl=dict(body=bk, pos=pk, follow=fk, encl=encl)))
    return items


# ------------------------------------------------------------------ fast evaluation of case files
# Coq elaborates string literals slowly (~25 KB/s).  The generated files therefore define every
# distinct word once and build every text from them *exactly*:  text = join "\n" (map (join " ") lines).
# The comparison in Coq stays an exact string equality.

import re as _re

_LIT = _re.compile(r'"((?:[^"]|"")*)"')


def share_strings(cases: list[str]) -> tuple[str, list[str]]:
    """Returns (table definitions, rewritten case terms)."""
    words: dict[str, int] = {}
    lines: dict[str, int] = {}

    def word(w):
        if w not in words:
            words[w] = len(words)
        return f"w{words[w]}"

    def line(l):
        if " " not in l:
            return word(l)
        if l not in lines:
            lines[l] = len(lines)
        return f"l{lines[l]}"

    def repl(m):
        raw = m.group(1)
        if "\n" in raw:
            return "(NL [" + "; ".join(line(l) for l in raw.split("\n")) + "])"
        return line(raw)

    new_cases = [_LIT.sub(repl, c) for c in cases]
    defs = ["Definition SP := String.concat \" \".",
            "Definition NL := String.concat (String (Ascii.ascii_of_nat 10) EmptyString)."]
    # lines may introduce new words: materialise them first
    line_defs = []
    for l, i in lines.items():
        line_defs.append(f"Definition l{i} := SP [" + "; ".join(word(w) for w in l.split(" ")) + "].")
    for w, i in words.items():
        defs.append(f'Definition w{i} := "{w}".')
    return "\n".join(defs + line_defs) + "\n", new_cases


def eval_cases_fast(prop: str, header: str, cases: list[str], per_file: int = 300, prefix: str = "cases",
                    timeout: int = 900, clean: bool = True, checker: str = "mismatches"):
    """like lib.eval_cases; returns (mismatching global indices, errors)"""
    from lib import run_coq_files, parse_nat_list
    files = []
    for fi, start in enumerate(range(0, len(cases), per_file)):
        table, chunk = share_strings(cases[start:start + per_file])
        body = header + table + "Definition cases := [\n" + ";\n".join(chunk) + "\n].\n" \
            + f"Eval vm_compute in {checker} cases.\n"
        files.append((f"{prefix}_{fi}.v", body))
    outs = run_coq_files(prop, files, timeout=timeout, clean=clean)
    bad, errs = [], []
    for fi, (ok, out) in enumerate(outs):
        if not ok:
            errs.append(f"{files[fi][0]}: {out[-3000:]}")
            continue
        for i in parse_nat_list(out):
            bad.append(fi * per_file + i)
    return bad, errs


# ------------------------------------------------------------------ the common driver of c04.py / c05.py

def shape_tags(body, tags=None, depth=0):
    """which branches of the model a program exercises (counted for the evidence)"""
    tags = tags if tags is not None else {}

    def hit(t):
        tags[t] = tags.get(t, 0) + 1

    def has_pre(c):
        return cond_pre_lines(c) > 0

    def cond_tags(c, where):
        f = cond_formula(c)
        e, n = f_pre(f)
        rich = f_depth(f) >= 3 or n >= 2 or any(k == "f" for k, _ in c)
        hit(f"{where}_cond_{'rich' if rich else 'simple'}")
        if rich:
            hit(f"rich_flags{min(n, 4)}")
            hit(f"rich_depth{min(f_depth(f), 5)}")
    for s in body:
        k = s[0]
        if k == "if":
            n, els = len(s[1]), s[2]
            hit(f"depth{depth}")
            if n == 1 and els is None:
                hit("single_if" + ("_pre" if has_pre(s[1][0][0]) else ""))
                hit("single_if_inline" if len(s[1][0][1]) == 1 and lines_of(s[1][0][1]) == 1 else "single_if_function")
            else:
                hit(f"chain_n{n}_{'else' if els is not None else 'noelse'}")
                last = els if els is not None else s[1][-1][1]
                hit("last_inline" if lines_of(last) == 1 else "last_function")
                if els is None:
                    hit("last_elif_wrapped_pre" if has_pre(s[1][-1][0]) else "last_elif_merged")
                wrapped = n if els is not None else n - 1
                if wrapped > 1:
                    hit(f"stages{wrapped - 1}")
                for c, _ in s[1]:
                    hit("cond_pre" if has_pre(c) else "cond_atomic")
            for j, (c, _) in enumerate(s[1]):
                cond_tags(c, "if" if j == 0 else "elif_last" if j == n - 1 else "elif_mid")
            for _, b in s[1]:
                shape_tags(b, tags, depth + 1)
            if els is not None:
                shape_tags(els, tags, depth + 1)
        elif k in ("while", "dowhile", "for"):
            c = s[1] if k == "while" else s[2]
            b = s[2] if k == "while" else s[1] if k == "dowhile" else s[4]
            hit(f"{k}_{'pre' if has_pre(c) else 'atomic'}")
            cond_tags(c, k)
            hit(f"loopdepth{depth}")
            shape_tags(b, tags, depth + 1)
    return tags


def lines_of(body):
    """number of emitted lines of a body (1 = it is inlined by add_arrow_function)"""
    n = 0
    for s in body:
        k = s[0]
        if k in ("say", "set", "add", "sub", "call", "ret"):
            n += 1
        elif k == "if":
            if len(s[1]) == 1 and s[2] is None:
                n += cond_pre_lines(s[1][0][0]) + 1
            else:
                n += 3 + cond_pre_lines(s[1][0][0])
        elif k == "while":
            n += cond_pre_lines(s[1]) + 1
        elif k == "dowhile":
            n += 1
        elif k == "for":
            n += len(s[1]) + cond_pre_lines(s[2]) + 1
    return n


def sub_conds(c):
    """simpler conditions: an item dropped, a formula item replaced by a smaller formula"""
    out = []
    if len(c) > 1:
        for t in range(len(c)):
            out.append(c[:t] + c[t + 1:])
    for t, (kind, x) in enumerate(c):
        f = cond_formula([(kind, x)])
        for g in f_smaller(f):
            out.append(c[:t] + [("atom", g[1]) if g[0] == "A" else ("f", g)] + c[t + 1:])
    return out


def sub_programs(body):
    """candidate simplifications of a program (one statement / branch / else removed, a body replaced,
    a condition simplified)"""
    out = []
    for i, s in enumerate(body):
        if len(body) > 1:
            out.append(body[:i] + body[i + 1:])
        k = s[0]

        def put(new):
            out.append(body[:i] + [new] + body[i + 1:])
        if k == "if":
            brs, els = s[1], s[2]
            if els is not None:
                put(("if", brs, None))
            if len(brs) > 1:
                for j in range(len(brs)):
                    put(("if", brs[:j] + brs[j + 1:], els))
            for j, (c, b) in enumerate(brs):
                for nb in sub_programs(b):
                    put(("if", brs[:j] + [(c, nb)] + brs[j + 1:], els))
                for nc in sub_conds(c):
                    put(("if", brs[:j] + [(nc, b)] + brs[j + 1:], els))
            if els is not None:
                for nb in sub_programs(els):
                    put(("if", brs, nb))
            if len(brs) == 1 and els is None:
                out.append(body[:i] + brs[0][1] + body[i + 1:])
        elif k == "expand":
            out.append(body[:i] + s[2] + body[i + 1:])
            if len(s[2]) > 1:
                for j in range(len(s[2])):
                    put(("expand", s[1], s[2][:j] + s[2][j + 1:]))
            for nb in sub_programs(s[2]):
                if nb:
                    put(("expand", s[1], nb))
            for nc in sub_conds(s[1]):
                put(("expand", nc, s[2]))
        elif k == "while":
            out.append(body[:i] + s[2] + body[i + 1:])          # the body once, without the loop
            for nb in sub_programs(s[2]):
                put(("while", s[1], nb))
            for nc in sub_conds(s[1]):
                put(("while", nc, s[2]))
        elif k == "dowhile":
            out.append(body[:i] + s[1] + body[i + 1:])
            for nb in sub_programs(s[1]):
                put(("dowhile", nb, s[2]))
            for nc in sub_conds(s[2]):
                put(("dowhile", s[1], nc))
        elif k == "for":
            out.append(body[:i] + s[1] + s[4] + body[i + 1:])
            for nb in sub_programs(s[4]):
                put(("for", s[1], s[2], s[3], nb))
            for nc in sub_conds(s[2]):
                put(("for", s[1], nc, s[3], s[4]))
    return out


def size_of(body):
    n = 0
    for s in body:
        n += 1
        k = s[0]
        if k == "if":
            n += sum(size_of(b) + len(cond_atoms(c)) for c, b in s[1]) + (size_of(s[2]) if s[2] is not None else 0)
        elif k in ("while", "expand"):
            n += size_of(s[2]) + len(cond_atoms(s[1]))
        elif k == "dowhile":
            n += size_of(s[1]) + len(cond_atoms(s[2]))
        elif k == "for":
            n += size_of(s[4]) + len(cond_atoms(s[2]))
    return n


def minimise(body, cert, fail, rounds=10, per_round=80, more=None, order=None):
    """greedy shrinking of a semantically failing pack (each candidate is recompiled with the real compiler):
    the entry function and the other functions of the pack are shrunk.  -> (body, failure, more)"""
    from lib import compile_batch
    best, best_more, best_fail = body, dict(more or {}), fail

    def src_of(c, m):
        return pack_src(dict(prog=c, more=m, order=order)) if m else prog_src(c)
    for _ in range(rounds):
        cands = [(c, best_more) for c in sub_programs(best) if c]
        for n, b in best_more.items():
            cands += [(best, {**best_more, n: nb}) for nb in sub_programs(b) if nb]
        cands.sort(key=lambda cm: size_of(cm[0]) + sum(size_of(b) for b in cm[1].values()))
        cands = cands[:per_round]
        if not cands:
            break
        res = compile_batch([dict(src=src_of(c, m), cert=cert_text(cert)) for c, m in cands], chunk=20)
        found = None
        for (c, m), r in zip(cands, res):
            if not r["ok"]:
                continue
            init = {tuple(k.split(" ", 1)): v for k, v in best_fail["init"].items()} if "init" in best_fail else {}
            keep = prog_vars(c)
            for b in m.values():
                prog_vars(b, keep)
            init = {k: v for k, v in init.items() if k[0] in keep}
            states = [init] + states_for(c, cert, cap=32, rng=__import__("random").Random(0), more=m)
            try:
                f, *_ = semantic_failure(c, real_functions(r), cert, states, funcs=m)
            except KeyError:          # a call of a function that was shrunk away
                continue
            if f:
                found = (c, m, f)
                break
        if not found:
            break
        best, best_more, best_fail = found
    return best, best_fail, best_more


PROPOSED_FILES = ["reports/misc-known-findings-4.json"]      # proposals not yet merged into known_findings.json


def known_entries(prop):
    """entries of known_findings.json for `prop` plus the proposed ones (reports/…json) the integrator has not merged;
    a proposal is deleted from that file when its fix is committed, so that a regression is a VIOLATION"""
    import json
    from lib import VERIF, known_for
    out = {f["id"]: f for f in known_for(prop)}
    import os
    for rel in ([] if os.environ.get("VERIF_NO_PROPOSED") else PROPOSED_FILES):   # VERIF_NO_PROPOSED=1: the state after the merge
        p = VERIF / rel
        if p.exists():
            try:
                for f in json.loads(p.read_text()).get("findings", []):
                    if f.get("property") == prop:
                        out.setdefault(f["id"], f)
            except ValueError:
                pass
    return out


def unisolated_return(fns, cert):
    """signature of finding C04-return-in-branch in the emitted code: a private if_else function that contains a line
    with the word `return` / `$return` AND ends with the line that sets __if_else__ to 1 — a `return` in the branch body
    leaves the function before the flag is set.  -> names of such functions"""
    flag_line = f"scoreboard players set __if_else__ {cert['VAR']} 1"
    out = []
    for name, text in fns.items():
        if not name.startswith(cert["PRIVATE"] + "/if_else/"):
            continue
        lines = text.split("\n")
        if lines[-1] == flag_line and any(w in ("return", "$return") for l in lines[:-1] for w in l.split(" ")):
            out.append(name)
    return out


def has_dangling_else(body):
    """does the source text of the tree contain `if (a) if (b) x; else …` — a brace-less branch body that is itself an `if`,
    followed by a further part of the same chain?"""
    for s in body:
        k = s[0]
        if k == "if":
            parts = [b for _c, b in s[1]] + ([s[2]] if s[2] is not None else [])
            for j, b in enumerate(parts):
                if j + 1 < len(parts) and isinstance(b, NB) and b and b[0][0] == "if":
                    return True
                if has_dangling_else(b):
                    return True
        elif k == "while" and has_dangling_else(s[2]):
            return True
        elif k == "dowhile" and has_dangling_else(s[1]):
            return True
        elif k == "for" and has_dangling_else(s[4]):
            return True
    return False


def check_programs(ck, items, tier, what):
    """items: list of dict(prog=…, cert=index, stream=…).  Compiles with the real compiler, evaluates the
    correspondence in Coq, runs the search on every case, reports violations.  Returns statistics."""
    from lib import compile_batch, eval_strings
    jobs = [dict(src=jmc_src(it), cert=cert_text(CERTS[it["cert"]]), **({"pack_format": it["pack_format"]} if it.get("pack_format") else {}))
            for it in items]
    results = compile_batch(jobs, chunk=100)
    # `if (a) if (b) x; else y;`: JMC attaches the else to the OUTER if (the trees say so).  A compiler that REFUSES the
    # ambiguous form instead (fixes/C04-dangling-else-diagnostic.patch, optional) is as good for property C04: such cases are dropped
    dangling_refused = [i for i, (it, r) in enumerate(zip(items, results))
                        if (it.get("dangling_else") or has_dangling_else(it["prog"])) and not r["ok"] and r.get("jmc")
                        and "Ambiguous 'else'" in (r.get("msg") or "")]
    if dangling_refused:
        keep = [i for i in range(len(items)) if i not in set(dangling_refused)]
        items, results = [items[i] for i in keep], [results[i] for i in keep]
    terms = [case_term(it, CERTS[it["cert"]], r) for it, r in zip(items, results)]
    bad, errs = eval_cases_fast(ck.prop, COQ_HEADER, terms, per_file=250)
    for e in errs:
        ck.violation(dict(kind="correspondence-file-failed", log=e), no_input=True)
    bad = set(bad)

    # ---- search: the really emitted functions, run from every truth assignment, against the source meaning
    n_runs = n_skipped = 0
    iters_hist = {}
    sem_fail = {}
    values = (0, 1) if tier == "quick" else (0, 1, None)
    for i, (it, r) in enumerate(zip(items, results)):
        if not r["ok"]:
            continue
        cert = CERTS[it["cert"]]
        states = states_for(it["prog"], cert, values=values, cap=max(it.get("cap", 0), 48 if tier == "quick" else 128),
                            rng=ck.rng, domains=it.get("values"), more=it.get("more"))
        # the same states again with stale scratch scores left behind by earlier code
        stale = {("__if_else__", cert["VAR"]): 1, ("__logic__0", cert["VAR"]): 1, ("__logic__1", cert["VAR"]): 1,
                 ("__logic__2", cert["VAR"]): 1}
        states = states + [{**s, **stale} for s in states[::2]]
        f, nr, sk, mi = semantic_failure(it["prog"], real_functions(r), cert, states, funcs=it.get("more"))
        n_runs += nr
        n_skipped += sk
        key = "0" if mi == 0 else "1" if mi == 1 else "2-5" if mi <= 5 else ">5"
        iters_hist[key] = iters_hist.get(key, 0) + 1
        if f:
            sem_fail[i] = f

    # failing / differing cases that are a listed (or proposed, not yet merged) known finding: the emitted code shows the
    # defect's signature AND the whole emitted text is exactly the lowering before the repair (Run.C04.Pinned), so that
    # nothing else is wrong with the case
    kf = known_entries("C04").get("C04-return-in-branch")
    excused = {}
    if kf:
        cand = [i for i in sorted(set(sem_fail) | bad) if results[i]["ok"]
                and unisolated_return(real_functions(results[i]), CERTS[items[i]["cert"]])]
        if cand:
            notp, perrs = eval_cases_fast(ck.prop, COQ_HEADER, [terms[i] for i in cand], per_file=250, prefix="pinned",
                                          clean=False, checker="not_pinned")
            for e in perrs:
                ck.violation(dict(kind="correspondence-file-failed", log=e), no_input=True)
            notp = set(notp) if not perrs else set(range(len(cand)))
            for j, i in enumerate(cand):
                if j not in notp:
                    excused[i] = True
                    ck.known(kf["id"], kf["what"])
    if excused:
        sem_fail = {i: f for i, f in sem_fail.items() if i not in excused}
        bad = {i for i in bad if i not in excused}

    reported = 0
    seen_sig = set()
    for i, f in sem_fail.items():
        it = items[i]
        cert = CERTS[it["cert"]]
        sig = (f["kind"], it["stream"])
        if reported >= 3 or sig in seen_sig:
            continue
        seen_sig.add(sig)
        reported += 1
        small, sf, smore = (it["prog"], f, it.get("more")) if it.get("src") else \
            minimise(it["prog"], cert, f, more=it.get("more"), order=it.get("order"))
        ck.violation(dict(kind="semantic-failure", what=what, source=it.get("src") or jmc_src(dict(it, prog=small, more=smore)), jmc_txt=cert,
                          program=small, more=smore or None, failure=sf, original_source=jmc_src(it), stream=it["stream"],
                          n_failing_cases=len(sem_fail), text_differs_from_model=(i in bad),
                          note="the functions emitted by the real compiler, run in mcvm from `init`, "
                               "against the JavaScript meaning of the source"))
    silent = sorted(i for i in bad if i not in sem_fail)
    if silent and not sem_fail:
        show = silent[:3]
        try:
            model_out = eval_strings(ck.prop, COQ_HEADER, [f"model_text ({terms[i]})" for i in show], name="show.v")
        except Exception as e:  # noqa
            model_out = [str(e)] * len(show)
        ck.violation(dict(kind="correspondence-differs",
                          theorem=f"the {ck.prop} theorems no longer speak about the code: emitted text differs from the model",
                          cases=[dict(source=jmc_src(items[i]), real=(results[i]["files"] if results[i]["ok"] else results[i]),
                                      model=m) for i, m in zip(show, model_out)],
                          n_differing=len(silent)), no_input=True)
    elif silent:
        ck.cov["text_differs_without_semantic_failure"] = len(silent)

    tags = {}
    for it in items:
        shape_tags(it["prog"], tags)
    streams = {}
    for it in items:
        streams[it["stream"]] = streams.get(it["stream"], 0) + 1
    return dict(results=results, bad=bad, sem_fail=sem_fail, n_runs=n_runs, n_skipped=n_skipped, tags=tags,
                streams=streams, iters_hist=iters_hist, known_return_in_branch=len(excused), dangling_else_refused=len(dangling_refused),
                n_errors=sum(1 for r in results if not r["ok"]))


def jmc_src(it):
    return it.get("src") or (pack_src(it) if it.get("more") else prog_src(it["prog"]))


def replay_file(path, prop):
    """re-run exactly the stored input against lib.REPO; print expected / actual"""
    import json
    from lib import compile_batch, REPO
    rp = json.loads(open(path).read())
    if rp.get("kind") != "semantic-failure":
        print(f"replay {path}: kind={rp.get('kind')} (no concrete input stored); see the file")
        return 1
    cert = rp["jmc_txt"]
    res = compile_batch([dict(src=rp["source"], cert=cert_text(cert))])[0]
    print(f"replay property={prop} repo={REPO}\n--- source\n{rp['source']}")
    if not res["ok"]:
        print("compiler raised:", res["exc"], res["msg"][:300])
        return 1
    init = {tuple(k.split(" ", 1)): v for k, v in rp["failure"].get("init", {}).items()}
    body = to_tuples(rp["program"])
    more = {n: to_tuples(b) for n, b in (rp.get("more") or {}).items()}
    f, *_ = semantic_failure(body, real_functions(res), cert, [init], funcs=more)
    it = Interp(init, cert["VAR"], funcs=more)
    try:
        it.block(body)
        print("--- init", rp["failure"].get("init"), "\n--- expected trace", it.trace)
    except Diverge:
        print("source program diverges from this state")
    if f:
        print("--- actual  ", {k: v for k, v in f.items() if k != "init"})
        print("STILL FAILS")
        return 1
    print("--- actual trace equals expected: no longer fails")
    return 0


def to_tuples(x):
    """JSON round trip turns tuples into lists; restore the tuple/list structure of program trees"""
    def stmt(s):
        k = s[0]
        if k in ("say", "set", "add", "sub", "call"):
            return tuple(s)
        if k == "ret":
            return ("ret", s[1] if isinstance(s[1], str) else tuple(s[1]))
        if k == "if":
            return ("if", [(cond(c), body(b)) for c, b in s[1]], None if s[2] is None else body(s[2]))
        if k in ("while", "expand"):
            return (k, cond(s[1]), body(s[2]))
        if k == "dowhile":
            return ("dowhile", body(s[1]), cond(s[2]))
        if k == "for":
            return ("for", body(s[1]), cond(s[2]), body(s[3]), body(s[4]))
        raise ValueError(k)

    def atom(a):
        return (a[0], a[1], tuple(a[2]) if isinstance(a[2], list) else a[2])

    def form(f):
        if f[0] == "A":
            return ("A", atom(f[1]))
        if f[0] == "!":
            return ("!", form(f[1]))
        return (f[0], [form(x) for x in f[1]])

    def cond(c):
        return [("atom", atom(x)) if k == "atom" else ("or", [[atom(a) for a in conj] for conj in x]) if k == "or"
                else ("f", form(x)) for k, x in c]

    def body(b):
        return [stmt(s) for s in b]
    return body(x)
