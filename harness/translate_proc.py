"""C12 translator: regenerates, from the jmc source (Python `ast`, fail-closed),

  * the universe of process-global fields: Header fields (annotations + assignments in __clear),
    DataPack class attributes that are assigned at run time, the JMC.python environment;
  * the step list of each entry point, in source order:
      CLI      terminal_commands.compile_  ->  compiling.compile_jmc
      TEST     test_compile.JMCTestPack.build
      PYJMC    api/_py_jmc.PyJMC.__init__  ->  PyJMC.__build
    (Header.clear() expanded into the assignments of Header.__clear, read_cert into its guard and
    DataPack assignments with their default source and condition, Lexer(...) into the reset of the
    JMC.python environment — if Lexer.__init__ performs one — followed by the compiler phases);
  * the table of sites where a `set` is iterated, with element type and how the order is used.

`translate(repo)` -> dict; `coq_text(t)` -> coq/Gen/C12/ProcTable.v.
"""
from __future__ import annotations

import ast
import re
from pathlib import Path


class Untranslatable(Exception):
    pass


def parse(p: Path) -> ast.Module:
    return ast.parse(p.read_text())


def find_class(tree, name):
    for n in ast.walk(tree):
        if isinstance(n, ast.ClassDef) and n.name == name:
            return n
    raise Untranslatable(f"class {name} not found")


def find_func(node, name):
    for n in node.body:
        if isinstance(n, (ast.FunctionDef, ast.AsyncFunctionDef)) and n.name == name:
            return n
    raise Untranslatable(f"function {name} not found in {getattr(node, 'name', 'module')}")


def body_no_doc(fn):
    b = fn.body
    if b and isinstance(b[0], ast.Expr) and isinstance(b[0].value, ast.Constant) and isinstance(b[0].value.value, str):
        b = b[1:]
    return b


def is_docstring(st):
    return isinstance(st, ast.Expr) and isinstance(st.value, ast.Constant) and isinstance(st.value.value, str)


# ----------------------------------------------------------------------------- Header

def const_expr(e: ast.AST) -> bool:
    """an expression whose value is a fresh constant of the program"""
    if isinstance(e, ast.Constant):
        return True
    if isinstance(e, (ast.List, ast.Tuple, ast.Set)):
        return all(const_expr(x) for x in e.elts)
    if isinstance(e, ast.Dict):
        return all(k is not None and const_expr(k) and const_expr(v) for k, v in zip(e.keys, e.values))
    if isinstance(e, ast.Call) and isinstance(e.func, ast.Name) and e.func.id in ("set", "dict", "list") and not e.args and not e.keywords:
        return True
    if copied_constant(e) is not None:
        return True         # MODULE_CONSTANT.copy(), set(MODULE_CONSTANT), {*MODULE_CONSTANT}: a fresh shallow copy
    return False


def copied_constant(e: ast.AST) -> str | None:
    """NAME if `e` builds a fresh shallow copy of the module constant NAME"""
    if (isinstance(e, ast.Call) and isinstance(e.func, ast.Attribute) and e.func.attr == "copy" and not e.args and not e.keywords
            and isinstance(e.func.value, ast.Name) and e.func.value.id.isupper()):
        return e.func.value.id
    if (isinstance(e, ast.Call) and isinstance(e.func, ast.Name) and e.func.id in ("set", "list", "dict") and len(e.args) == 1 and not e.keywords
            and isinstance(e.args[0], ast.Name) and e.args[0].id.isupper()):
        return e.args[0].id
    if isinstance(e, (ast.Set, ast.List)) and len(e.elts) == 1 and isinstance(e.elts[0], ast.Starred) \
            and isinstance(e.elts[0].value, ast.Name) and e.elts[0].value.id.isupper():
        return e.elts[0].value.id
    return None


MUTATING_METHODS = {"add", "update", "discard", "remove", "pop", "clear", "append", "extend", "insert", "setdefault", "popitem", "sort",
                    "reverse", "difference_update", "intersection_update", "symmetric_difference_update", "__setitem__", "__delitem__",
                    "__ior__", "__iand__", "__isub__", "__ixor__", "__iadd__"}


def module_constant(src: Path, header_tree: ast.Module, name: str) -> tuple[str, ast.AST]:
    """(module file, value) of the module-level constant `name` used in header.py (defined there or imported from a sibling module)"""
    for st in header_tree.body:
        if isinstance(st, ast.Assign) and len(st.targets) == 1 and isinstance(st.targets[0], ast.Name) and st.targets[0].id == name:
            return "compile/header.py", st.value
        if isinstance(st, ast.ImportFrom) and st.level == 1 and st.module and any((a.asname or a.name) == name for a in st.names):
            orig = [a.name for a in st.names if (a.asname or a.name) == name][0]
            rel = "compile/" + st.module.replace(".", "/") + ".py"
            for s2 in parse(src / rel).body:
                if isinstance(s2, (ast.Assign, ast.AnnAssign)):
                    tg = s2.targets[0] if isinstance(s2, ast.Assign) and len(s2.targets) == 1 else getattr(s2, "target", None)
                    if isinstance(tg, ast.Name) and tg.id == orig and s2.value is not None:
                        return rel, s2.value
    raise Untranslatable(f"Header.__clear: module constant {name} not found")


def constant_never_mutated(src: Path, name: str) -> None:
    """no statement of the package mutates the module constant through its NAME (a reset `obj.f = NAME.copy()` is a fresh value
    only as long as NAME itself keeps its literal value); aliases (`x = NAME`) are errors too"""
    for p in sorted(src.rglob("*.py")):
        rel = p.relative_to(src).as_posix()
        for n in ast.walk(parse(p)):
            if isinstance(n, ast.Call) and isinstance(n.func, ast.Attribute) and isinstance(n.func.value, ast.Name) \
                    and n.func.value.id == name and n.func.attr in MUTATING_METHODS:
                raise Untranslatable(f"{rel}:{n.lineno}: {name}.{n.func.attr}(…) mutates a constant that Header.__clear copies")
            if isinstance(n, (ast.AugAssign, ast.Delete, ast.Assign, ast.AnnAssign)):
                tgs = n.targets if isinstance(n, (ast.Assign, ast.Delete)) else [n.target]
                for tg in tgs:
                    if isinstance(tg, ast.Subscript) and isinstance(tg.value, ast.Name) and tg.value.id == name:
                        raise Untranslatable(f"{rel}:{n.lineno}: item assignment on the constant {name}")
                    if isinstance(n, ast.AugAssign) and isinstance(tg, ast.Name) and tg.id == name:
                        raise Untranslatable(f"{rel}:{n.lineno}: augmented assignment on the constant {name}")
            if isinstance(n, (ast.Assign, ast.AnnAssign)) and isinstance(n.value, ast.Name) and n.value.id == name:
                tg = n.targets[0] if isinstance(n, ast.Assign) else n.target
                if not (isinstance(tg, ast.Name) and tg.id == name):
                    raise Untranslatable(f"{rel}:{n.lineno}: {ast.unparse(tg)} = {name} aliases a constant that Header.__clear copies")


def reset_kind(e: ast.AST, src: Path, header_tree: ast.Module) -> dict:
    """what kind of value a reset assigns: a mutable container (set / dict / list: an aliased or missing reset leaks CONTENT
    into later compiles) or an immutable scalar"""
    txt = ast.unparse(e)
    name = copied_constant(e)
    if name is None and isinstance(e, ast.Call) and isinstance(e.func, ast.Name) and e.func.id in ("set", "dict", "list"):
        return dict(kind=e.func.id, mutable=True, text=txt)
    if name is None and isinstance(e, (ast.Set, ast.Dict, ast.List)):
        return dict(kind={ast.Set: "set", ast.Dict: "dict", ast.List: "list"}[type(e)], mutable=True, text=txt)
    if name is not None:
        where, val = module_constant(src, header_tree, name)
        # a SHALLOW copy is a fresh value only if the constant is a flat literal of immutable constants
        if not (isinstance(val, (ast.Set, ast.List, ast.Dict)) and const_expr(val)
                and all(isinstance(x, ast.Constant) for x in (val.elts if not isinstance(val, ast.Dict) else list(val.keys) + list(val.values)))):
            raise Untranslatable(f"Header.__clear: {txt}: {name} ({where}) is not a flat literal of constants (a shallow copy would share its parts)")
        constant_never_mutated(src, name)
        return dict(kind={ast.Set: "set", ast.Dict: "dict", ast.List: "list"}[type(val)], mutable=True, text=txt, copies=f"{where}:{name}")
    return dict(kind="scalar", mutable=False, text=txt)


def read_header(src: Path) -> dict:
    tree = parse(src / "compile/header.py")
    cls = find_class(tree, "Header")
    annotated = []
    for st in cls.body:
        if isinstance(st, ast.AnnAssign) and isinstance(st.target, ast.Name):
            annotated.append((st.target.id, ast.unparse(st.annotation)))
    clear = find_func(cls, "_Header__clear") if any(getattr(n, "name", "") == "_Header__clear" for n in cls.body) else find_func(cls, "__clear")
    if [a.arg for a in clear.args.args] != ["obj"]:
        raise Untranslatable("Header.__clear signature")
    cleared = []
    resets = {}
    for st in body_no_doc(clear):
        if not (isinstance(st, ast.Assign) and len(st.targets) == 1 and isinstance(st.targets[0], ast.Attribute)
                and isinstance(st.targets[0].value, ast.Name) and st.targets[0].value.id == "obj"):
            raise Untranslatable(f"Header.__clear: statement {ast.unparse(st)[:60]}")
        if not const_expr(st.value):
            raise Untranslatable(f"Header.__clear: {ast.unparse(st)} is not a constant reset")
        cleared.append(st.targets[0].attr)
        resets[st.targets[0].attr] = reset_kind(st.value, src, tree)
    clr = find_func(cls, "clear")
    if [ast.unparse(s) for s in body_no_doc(clr)] != ["cls.__clear(cls())"]:
        raise Untranslatable("Header.clear is not `cls.__clear(cls())`")
    init = find_func(cls, "__init__")
    if [ast.unparse(s) for s in body_no_doc(init)] != ["self.__clear(self)"]:
        raise Untranslatable("Header.__init__ is not `self.__clear(self)`")
    names = [a for a, _ in annotated]
    fields = names + [c for c in cleared if c not in names]
    return dict(fields=fields, cleared=cleared, annotations=dict(annotated), resets=resets)


# ----------------------------------------------------------------------------- DataPack names / read_cert

def runtime_class_stores(src: Path, clsname: str) -> dict[str, list[str]]:
    """attr -> [file:function] for every `ClsName.attr = …` store in the package; setattr(ClsName…) is an error"""
    out: dict[str, list[str]] = {}
    for p in sorted(src.rglob("*.py")):
        tree = parse(p)
        rel = p.relative_to(src).as_posix()
        for fn in [n for n in ast.walk(tree) if isinstance(n, (ast.FunctionDef, ast.AsyncFunctionDef, ast.Module))]:
            for st in ast.iter_child_nodes(fn) if isinstance(fn, ast.Module) else ast.walk(fn):
                targets = []
                if isinstance(st, ast.Assign):
                    targets = st.targets
                elif isinstance(st, (ast.AugAssign, ast.AnnAssign)):
                    targets = [st.target]
                for t in targets:
                    for tt in ast.walk(t):
                        if isinstance(tt, ast.Attribute) and isinstance(tt.ctx, ast.Store) and isinstance(tt.value, ast.Name) \
                                and tt.value.id == clsname:
                            where = f"{rel}:{getattr(fn, 'name', '<module>')}"
                            if where not in out.setdefault(tt.attr, []):
                                out[tt.attr].append(where)
        for n in ast.walk(tree):
            if isinstance(n, ast.Call) and isinstance(n.func, ast.Name) and n.func.id in ("setattr", "delattr") and n.args \
                    and isinstance(n.args[0], ast.Name) and n.args[0].id == clsname:
                raise Untranslatable(f"{rel}: setattr({clsname}, …)")
    return out


def read_get_cert(tree) -> dict[str, str]:
    fn = find_func(tree, "get_cert")
    b = body_no_doc(fn)
    if len(b) != 1 or not isinstance(b[0], ast.Return) or not isinstance(b[0].value, ast.Dict):
        raise Untranslatable("get_cert is not `return {…}`")
    out = {}
    for k, v in zip(b[0].value.keys, b[0].value.values):
        if not (isinstance(k, ast.Constant) and isinstance(v, ast.Attribute) and isinstance(v.value, ast.Name) and v.value.id == "DataPack"):
            raise Untranslatable(f"get_cert entry {ast.unparse(k)}: {ast.unparse(v)}")
        out[k.value] = v.attr
    return out


LOCAL_CALLS_OK = {"Path", "get_cert", "string_to_cert_config", "make_cert", "JMCBuildError", "dict", "open", "read", "is_dir", "is_file",
                  "get", "copy"}


def read_read_cert(src: Path) -> dict:
    tree = parse(src / "compile/compiling.py")
    keymap = read_get_cert(tree)
    module_dicts = {}
    for st in tree.body:
        if isinstance(st, ast.Assign) and len(st.targets) == 1 and isinstance(st.targets[0], ast.Name) and isinstance(st.value, ast.Dict) \
                and const_expr(st.value):
            module_dicts[st.targets[0].id] = {k.value: v.value for k, v in zip(st.value.keys, st.value.values)}
    fn = find_func(tree, "read_cert")
    # every call in read_cert must be local/IO (no unknown function that could touch process state)
    for n in ast.walk(fn):
        if isinstance(n, ast.Call):
            name = n.func.id if isinstance(n.func, ast.Name) else n.func.attr if isinstance(n.func, ast.Attribute) else None
            if name not in LOCAL_CALLS_OK:
                raise Untranslatable(f"read_cert calls {ast.unparse(n.func)}")
    defaults_src = {}       # local name -> 'prev' | 'const'

    def classify_default_holder(value: ast.AST) -> str:
        if isinstance(value, ast.Call) and isinstance(value.func, ast.Name) and value.func.id == "get_cert" and not value.args:
            return "prev"
        if isinstance(value, ast.Dict) and const_expr(value):
            return "const"
        if isinstance(value, ast.Call) and isinstance(value.func, ast.Name) and value.func.id == "dict" and len(value.args) == 1 \
                and isinstance(value.args[0], ast.Name) and value.args[0].id in module_dicts:
            return "const"
        if isinstance(value, ast.Call) and isinstance(value.func, ast.Attribute) and value.func.attr == "copy" \
                and isinstance(value.func.value, ast.Name) and value.func.value.id in module_dicts:
            return "const"
        if isinstance(value, ast.Name) and value.id in module_dicts:
            return "const"
        raise Untranslatable(f"read_cert: default holder {ast.unparse(value)}")

    steps = []
    has_guard = [False]

    def walk(stmts, cond):
        for st in stmts:
            if is_docstring(st):
                continue
            if isinstance(st, ast.Raise):
                has_guard[0] = True
                continue
            if isinstance(st, ast.If):
                c = ast.unparse(st.test)
                walk(st.body, cond + [c])
                walk(st.orelse, cond + ["not (" + c + ")"])
                continue
            if isinstance(st, ast.Try):
                walk(st.body, cond)
                for h in st.handlers:
                    walk(h.body, cond)
                walk(st.orelse, cond)
                walk(st.finalbody, cond)
                continue
            if isinstance(st, ast.With):
                walk(st.body, cond)
                continue
            if isinstance(st, ast.Return):
                continue
            if isinstance(st, ast.Expr) and isinstance(st.value, ast.Call):
                continue            # make_cert(...) etc. (checked above)
            if isinstance(st, (ast.Assign, ast.AnnAssign)):
                targets = st.targets if isinstance(st, ast.Assign) else [st.target]
                value = st.value
                if len(targets) == 1 and isinstance(targets[0], ast.Name):
                    if targets[0].id == "old_cert_config":
                        defaults_src["old_cert_config"] = classify_default_holder(value)
                    continue        # other locals
                if len(targets) == 1 and isinstance(targets[0], ast.Attribute) and isinstance(targets[0].value, ast.Name) \
                        and targets[0].value.id == "DataPack":
                    attr = targets[0].attr
                    # cert_config.get("KEY", <default>)
                    if not (isinstance(value, ast.Call) and isinstance(value.func, ast.Attribute) and value.func.attr == "get"
                            and len(value.args) == 2 and isinstance(value.args[0], ast.Constant)):
                        raise Untranslatable(f"read_cert: {ast.unparse(st)}")
                    key = value.args[0].value
                    if keymap.get(key) != attr:
                        raise Untranslatable(f"read_cert: key {key} assigned to DataPack.{attr} but get_cert maps it to {keymap.get(key)}")
                    d = value.args[1]
                    if isinstance(d, ast.Constant):
                        srcv = ("input",)
                    elif isinstance(d, ast.Subscript) and isinstance(d.value, ast.Name) and isinstance(d.slice, ast.Constant):
                        holder = d.value.id
                        if holder in module_dicts:
                            kind = "const"
                        elif holder in defaults_src:
                            kind = defaults_src[holder]
                        else:
                            raise Untranslatable(f"read_cert: default {ast.unparse(d)}")
                        if kind == "const":
                            srcv = ("input",)
                        else:
                            if d.slice.value not in keymap:
                                raise Untranslatable(f"read_cert: default key {d.slice.value}")
                            srcv = ("prev", keymap[d.slice.value])
                    else:
                        raise Untranslatable(f"read_cert: default {ast.unparse(d)}")
                    steps.append(dict(attr=attr, key=key, src=srcv, cond=list(cond)))
                    continue
            raise Untranslatable(f"read_cert: statement {ast.unparse(st)[:80]}")

    walk(body_no_doc(fn), [])
    return dict(keymap=keymap, assigns=steps, guard=has_guard[0])


# ----------------------------------------------------------------------------- JMC.python reset

def read_pyenv(src: Path) -> dict:
    tree = parse(src / "compile/command/builtin_function/utils/isolated.py")
    env = find_class(tree, "IsolatedEnvironment")
    content = find_class(tree, "Content")
    gc = find_func(content, "get_content")
    gc_ok = any(ast.unparse(s) in ("self.__content = []", "self.__content.clear()") for s in body_no_doc(gc))
    reset_ok = False
    for n in env.body:
        if isinstance(n, ast.FunctionDef) and n.name == "reset":
            lines = [ast.unparse(s) for s in body_no_doc(n)]
            reset_ok = gc_ok and "self.exec_global.clear()" in lines and "self.content.get_content()" in lines and len(lines) == 2
    # where is the module-level environment and who resets it
    jc = parse(src / "compile/command/builtin_function/jmc_command.py")
    inst = [st.targets[0].id for st in jc.body if isinstance(st, ast.Assign) and isinstance(st.value, ast.Call)
            and isinstance(st.value.func, ast.Name) and st.value.func.id == "IsolatedEnvironment"]
    if inst != ["ISOLATED_ENVIRONMENT"]:
        raise Untranslatable(f"jmc_command.py: IsolatedEnvironment instances {inst}")
    return dict(reset_method=reset_ok)


def lexer_init_steps(src: Path, pyenv: dict) -> list:
    """Lexer.__init__: [reset of the JMC.python environment, if it stands before DataPack(...)] + the compiler phase"""
    tree = parse(src / "compile/lexer.py")
    init = find_func(find_class(tree, "Lexer"), "__init__")
    steps = []
    for st in body_no_doc(init):
        txt = ast.unparse(st)
        if txt == "ISOLATED_ENVIRONMENT.reset()":
            if not pyenv["reset_method"]:
                raise Untranslatable("Lexer.__init__ calls ISOLATED_ENVIRONMENT.reset() but IsolatedEnvironment.reset does not clear exec_global and content")
            steps += [("assign", "PyEnv", ("const",)), ("assign", "PyPending", ("const",))]
            continue
        if "DataPack(" in txt:
            break
    return steps + [("run", "lexer", "RAll")]


# ----------------------------------------------------------------------------- entry points

SKIP_CALLS = {"logger.info", "logger.debug", "logger.warning", "pprint", "register_message", "perf_counter", "dumps"}


def call_name(e: ast.AST) -> str | None:
    if isinstance(e, ast.Call):
        return ast.unparse(e.func)
    return None


class EntryWalker:
    def __init__(self, hdr, cert, lexer_steps, header_only):
        self.hdr, self.cert, self.lexer_steps, self.header_only = hdr, cert, lexer_steps, header_only

    def clear_steps(self):
        return [("assign", ("HF", f), ("const",)) for f in self.hdr["cleared"]]

    def cert_steps(self):
        out = [("guard", "read_cert")] if self.cert["guard"] else []
        for a in self.cert["assigns"]:
            s = ("input",) if a["src"][0] == "input" else ("prev", ("DF", a["src"][1]))
            if a["cond"]:
                out.append(("assign_when", " and ".join(a["cond"]), ("DF", a["attr"]), s))
            else:
                out.append(("assign", ("DF", a["attr"]), s))
        return out

    def stmt(self, st, inline) -> list:
        """steps of one statement of an entry function; `inline` maps callee text -> function returning steps"""
        if is_docstring(st) or isinstance(st, (ast.Pass, ast.Return)):
            if isinstance(st, ast.Return) and st.value is not None and isinstance(st.value, ast.Call):
                return self.expr(st.value, inline)
            return []
        if isinstance(st, (ast.Raise, ast.Import, ast.ImportFrom)):
            return []
        if isinstance(st, ast.If):
            # `if debug: logger…`, `if not global_data.config: ask; return`, `if built is None: raise`
            inner = []
            for s in st.body + st.orelse:
                inner += self.stmt(s, inline)
            if inner:
                raise Untranslatable(f"conditional global effect: {ast.unparse(st)[:80]}")
            return []
        if isinstance(st, ast.Try):
            out = []
            for s in st.body:
                out += self.stmt(s, inline)
            for h in st.handlers:
                for s in h.body:
                    if self.stmt(s, inline):
                        raise Untranslatable("global effect in except handler")
            return out
        if isinstance(st, ast.For):
            for s in st.body:
                if self.stmt(s, inline):
                    raise Untranslatable("global effect in loop")
            return []
        if isinstance(st, ast.Expr):
            return self.expr(st.value, inline)
        if isinstance(st, (ast.Assign, ast.AnnAssign)):
            targets = st.targets if isinstance(st, ast.Assign) else [st.target]
            if len(targets) == 1 and ast.unparse(targets[0]) == "Header().envs":
                return [("assign", ("HF", "envs"), ("input",))]
            for t in targets:
                for tt in ast.walk(t):
                    if isinstance(tt, ast.Attribute) and isinstance(tt.value, ast.Call) and call_name(tt.value) == "Header":
                        raise Untranslatable(f"assignment to Header().{tt.attr}")
                    if isinstance(tt, ast.Attribute) and isinstance(tt.value, ast.Name) and tt.value.id in ("DataPack", "Header"):
                        raise Untranslatable(f"assignment to {tt.value.id}.{tt.attr}")
            return self.expr(st.value, inline) if st.value is not None else []
        raise Untranslatable(f"entry point statement {ast.unparse(st)[:80]}")

    def expr(self, e, inline) -> list:
        out = []
        # evaluation order: arguments before the call — we only need the calls with global effects, in source order
        calls = [n for n in ast.walk(e) if isinstance(n, ast.Call)]
        calls.sort(key=lambda c: (c.end_lineno, c.end_col_offset))
        for c in calls:
            nm = call_name(c)
            if nm == "Header.clear":
                out += self.clear_steps()
            elif nm == "read_header":
                out.append(("run", "read_header", self.header_only if isinstance(self.header_only, tuple) else
                            "RHeaderOnly" if self.header_only else "RAll"))
            elif nm == "read_cert":
                out += self.cert_steps()
            elif nm == "Lexer":
                out += self.lexer_steps
            elif nm == "build":
                out.append(("run", "build", "RAll"))
            elif nm in inline:
                out += inline[nm]()
            elif nm in SKIP_CALLS or nm is None or nm in AMBIENT_CALLS:
                pass            # writes of ambient process state are listed (and judged) by read_ambient_writes
            else:
                base = nm.split(".")[-1]
                if base in ("Configuration", "GlobalData", "Path", "Header", "copy", "toJSON", "cert_config_to_string", "list", "float",
                            "as_posix", "items", "relative_to", "append", "Resource", "Core", "join", "ValueError", "ask_and_save",
                            "error_report", "handle_exception", "exception", "format_exc"):
                    continue
                raise Untranslatable(f"entry point calls {nm}")
        return out

    def function(self, fn, inline) -> list:
        out = []
        for st in body_no_doc(fn):
            out += self.stmt(st, inline)
        return out


# ----------------------------------------------------------------------------- does header parsing see only the Header?

NAME_ATTRS = ("load_name", "tick_name", "private_name", "var_name", "int_name", "storage_name")


def mentions_names(node: ast.AST) -> list[str]:
    bad = []
    for n in ast.walk(node):
        if isinstance(n, ast.Attribute) and n.attr in NAME_ATTRS:
            bad.append(ast.unparse(n))
        if isinstance(n, ast.Name) and n.id in ("ISOLATED_ENVIRONMENT",):
            bad.append(n.id)
        if isinstance(n, ast.Attribute) and isinstance(n.value, ast.Name) and n.value.id == "DataPack":
            bad.append(ast.unparse(n))
    return bad


def header_parse_header_only(src: Path) -> tuple[bool, list[str]]:
    """header_parse.py, and every package function/class it imports (with the same-module functions those call),
    mention neither a jmc.txt name attribute nor the JMC.python environment"""
    why = []
    hp = parse(src / "compile/header_parse.py")
    why += [f"header_parse.py: {b}" for b in mentions_names(hp)]
    for st in hp.body:
        if isinstance(st, ast.ImportFrom) and st.level >= 1 and st.module:
            modpath = src / "compile" / (st.module.replace(".", "/") + ".py")
            if st.level == 2:
                continue
            if not modpath.exists():
                continue
            mod = parse(modpath)
            defs = {n.name: n for n in mod.body if isinstance(n, (ast.FunctionDef, ast.ClassDef))}
            todo = [a.name for a in st.names]
            seen = set()
            while todo:
                nm = todo.pop()
                if nm in seen or nm not in defs:
                    continue
                seen.add(nm)
                why += [f"{st.module}.{nm}: {b}" for b in mentions_names(defs[nm])]
                for n in ast.walk(defs[nm]):
                    if isinstance(n, ast.Name) and n.id in defs:
                        todo.append(n.id)
                    # module-private helpers are reached through their mangled/unmangled name
                    if isinstance(n, ast.Name) and n.id.startswith("__") and n.id in defs:
                        todo.append(n.id)
    return (not why), why


# ----------------------------------------------------------------------------- round 4: what can a phase READ?  (closure over the package)
# `header_parse_header_only` looks at header_parse.py and the names it imports.  A check that reads the jmc.txt names while the header is
# parsed can also sit in compiling.read_header itself, behind a function-local import, behind get_cert(), in a method of a class the phase
# uses, or behind getattr(DataPack, ...).  `phase_reads` starts from the phase's function and follows every package-level definition that
# reachable code refers to BY NAME (functions, classes with all their methods, module-level assignments; imports at any level and position,
# re-exports, module aliases) and reports what the reachable code mentions: a jmc.txt name attribute on any receiver, the name `DataPack`
# used at run time (not in an annotation), the JMC.python environment, the working directory.  Calls through an attribute of an unknown
# object are not followed (the run-time read tracer of c12_run.py covers those: every class-level name read before read_cert is recorded).

class Package:
    def __init__(self, src: Path):
        self.src = src
        self.trees = {}
        for p_ in sorted(src.rglob("*.py")):
            rel = p_.relative_to(src).as_posix()
            if rel.startswith("tests/"):
                continue
            try:
                self.trees[rel] = parse(p_)
            except SyntaxError as e:
                raise Untranslatable(f"{rel}: {e}")
        self.defs = {}      # rel -> {name: node}
        self.imports = {}   # rel -> {name: (rel2 | None, orig | None)}   orig None = the name IS module rel2
        for rel, tree in self.trees.items():
            d = {}
            for st in tree.body:
                if isinstance(st, (ast.FunctionDef, ast.AsyncFunctionDef, ast.ClassDef)):
                    d[st.name] = st
                elif isinstance(st, ast.Assign):
                    for tg in st.targets:
                        if isinstance(tg, ast.Name):
                            d[tg.id] = st
                elif isinstance(st, ast.AnnAssign) and isinstance(st.target, ast.Name) and st.value is not None:
                    d[st.target.id] = st
            self.defs[rel] = d
            imp = {}
            for n in ast.walk(tree):
                if isinstance(n, ast.ImportFrom):
                    base = self.resolve_from(rel, n.level, n.module)
                    for a in n.names:
                        nm = a.asname or a.name
                        if base is None:
                            continue
                        sub = self.module_file((base + "/" + a.name) if base else a.name)
                        modf = self.module_file(base)
                        if modf is not None and (a.name in self.defs_of(modf) or sub is None):
                            imp[nm] = (modf, a.name)
                        elif sub is not None:
                            imp[nm] = (sub, None)
                elif isinstance(n, ast.Import):
                    for a in n.names:
                        if a.name == "jmc" or a.name.startswith("jmc."):
                            f = self.module_file("/".join(a.name.split(".")[1:]))
                            if f is not None and a.asname:
                                imp[a.asname] = (f, None)
            self.imports[rel] = imp

    def defs_of(self, rel):
        # may be asked before self.defs[rel] is filled (import cycle in the scan order): compute on demand
        if rel not in self.defs:
            tree = self.trees.get(rel)
            return {getattr(st, "name", None) for st in (tree.body if tree else [])} | \
                {tg.id for st in (tree.body if tree else []) if isinstance(st, ast.Assign) for tg in st.targets if isinstance(tg, ast.Name)}
        return self.defs[rel]

    def resolve_from(self, rel, level, module):
        """package-relative folder path ('' = jmc) of `from <level dots><module> import …`, None if outside the package"""
        parts = rel.split("/")[:-1]
        if level == 0:
            if module is None or not (module == "jmc" or module.startswith("jmc.")):
                return None
            return "/".join(module.split(".")[1:])
        up = parts[:len(parts) - (level - 1)] if level > 1 else parts
        if level - 1 > len(parts):
            return None
        return "/".join(up + (module.split(".") if module else []))

    def module_file(self, path):
        if path is None:
            return None
        for cand in ([path + ".py"] if path else []) + [(path + "/" if path else "") + "__init__.py"]:
            if cand in self.trees:
                return cand
        return None

    def lookup(self, rel, name, depth=0):
        """(rel2, node) of the package-level definition `name` denotes in module rel (following imports / re-exports), or ('module', rel2)"""
        if depth > 6:
            return None
        if name in self.defs.get(rel, {}):
            return (rel, self.defs[rel][name])
        if name in self.imports.get(rel, {}):
            rel2, orig = self.imports[rel][name]
            if orig is None:
                return ("module", rel2)
            return self.lookup(rel2, orig, depth + 1)
        return None


def runtime_nodes(node):
    """every node under `node` except annotations (which are not evaluated on a read path that matters)"""
    skip = set()
    for n in ast.walk(node):
        if isinstance(n, (ast.FunctionDef, ast.AsyncFunctionDef)):
            if n.returns is not None:
                skip.update(id(x) for x in ast.walk(n.returns))
            for a in n.args.args + n.args.kwonlyargs + n.args.posonlyargs + [x for x in (n.args.vararg, n.args.kwarg) if x]:
                if a.annotation is not None:
                    skip.update(id(x) for x in ast.walk(a.annotation))
        if isinstance(n, ast.AnnAssign):
            skip.update(id(x) for x in ast.walk(n.annotation))
    return [n for n in ast.walk(node) if id(n) not in skip]


def phase_reads(pkg: Package, rel: str, func: str, stop=()) -> dict:
    """what the code reachable from function `func` of module `rel` mentions (see above).  `stop`: names not followed (the next phases)."""
    start = pkg.lookup(rel, func)
    if start is None or start[0] == "module":
        raise Untranslatable(f"{rel}: function {func} not found")
    todo, seen = [start], set()
    names, pyenv, cwd, why = set(), False, False, []
    while todo:
        r, node = todo.pop()
        if id(node) in seen:
            continue
        seen.add(id(node))
        label = f"{r}:{getattr(node, 'name', None) or ast.unparse(node)[:30]}"
        for n in runtime_nodes(node):
            if isinstance(n, ast.Attribute) and n.attr in NAME_ATTRS and isinstance(n.ctx, ast.Load):
                names.add(n.attr)
                why.append(f"{label}:{n.lineno}: {ast.unparse(n)}")
            elif isinstance(n, ast.Constant) and isinstance(n.value, str) and n.value in NAME_ATTRS:
                names.add(n.value)          # getattr(x, "private_name")
                why.append(f"{label}:{n.lineno}: {n.value!r}")
            elif isinstance(n, ast.Name) and isinstance(n.ctx, ast.Load):
                if n.id == "DataPack":
                    names.update(NAME_ATTRS)
                    why.append(f"{label}:{n.lineno}: DataPack (used at run time)")
                elif n.id == "ISOLATED_ENVIRONMENT":
                    pyenv = True
                    why.append(f"{label}:{n.lineno}: ISOLATED_ENVIRONMENT")
                if n.id in stop:
                    continue
                hit = pkg.lookup(r, n.id)
                if hit is not None and hit[0] != "module":
                    todo.append(hit)
            elif isinstance(n, ast.Attribute) and isinstance(n.value, ast.Name) and isinstance(n.ctx, ast.Load):
                hit = pkg.lookup(r, n.value.id)
                if hit is not None and hit[0] == "module":       # module_alias.name
                    h2 = pkg.lookup(hit[1], n.attr)
                    if h2 is not None and h2[0] != "module":
                        todo.append(h2)
                if ast.unparse(n) in ("os.getcwd", "Path.cwd"):
                    cwd = True
                if n.attr == "DataPack":
                    names.update(NAME_ATTRS)
                    why.append(f"{label}:{n.lineno}: {ast.unparse(n)} (used at run time)")
    return dict(names=sorted(names), pyenv=pyenv, cwd=cwd, why=why[:12], definitions_reached=len(seen))


# the calls that make up a compile may only be made by the three modelled entry points (a fourth entry point needs its own step list)
ENTRY_CALLS = {"Lexer": {"compile/compiling.py:compile_jmc", "compile/test_compile.py:build", "api/_py_jmc.py:__build"},
               "read_header": {"compile/compiling.py:compile_jmc", "compile/test_compile.py:build", "api/_py_jmc.py:__build"},
               "read_cert": {"compile/compiling.py:compile_jmc", "compile/test_compile.py:build", "api/_py_jmc.py:__build"},
               "Header.clear": {"compile/compiling.py:compile_jmc", "compile/test_compile.py:build", "api/_py_jmc.py:__build"},
               "compile_jmc": {"terminal_commands.py:compile_"},
               "parse_header": {"compile/compiling.py:read_header"}}


def check_entry_callers(pkg: Package) -> None:
    for rel, tree in pkg.trees.items():
        for fn in [n for n in ast.walk(tree) if isinstance(n, (ast.FunctionDef, ast.AsyncFunctionDef))]:
            for n in ast.walk(fn):
                nm = call_name(n) if isinstance(n, ast.Call) else None
                if nm in ENTRY_CALLS and f"{rel}:{fn.name}" not in ENTRY_CALLS[nm]:
                    inner = [f2 for f2 in ast.walk(fn) if f2 is not fn and isinstance(f2, (ast.FunctionDef, ast.AsyncFunctionDef)) and n in list(ast.walk(f2))]
                    if inner:
                        continue        # reported for the inner function
                    raise Untranslatable(f"{rel}:{fn.name}:{n.lineno} calls {nm}(…): a compile entry point that the model does not have")


# ----------------------------------------------------------------------------- round 4: writes of AMBIENT process state
# A compile can see the working directory, os.environ, sys.path, the imported modules, the signal handlers, the locale, the warnings
# filters and the logging configuration; it must leave them as it found them, on every way out (C12_ambient_preserved needs
# `preserves_along`).  Every statement of the package that writes one of them is listed; on a compile path (jmc/compile, jmc/api) the write
# must sit in a `try` whose `finally` performs a write of the same kind again (the restore), or itself in a `finally`.

AMBIENT = ["cwd", "environ", "sys.path", "sys.modules", "signal", "locale", "warnings", "logging"]
AMBIENT_CALLS = {
    "os.chdir": "cwd", "os.fchdir": "cwd", "chdir": "cwd", "contextlib.chdir": "cwd",
    "os.putenv": "environ", "os.unsetenv": "environ", "os.environ.update": "environ", "os.environ.pop": "environ", "os.environ.setdefault": "environ",
    "os.environ.clear": "environ", "environ.update": "environ", "environ.pop": "environ", "environ.setdefault": "environ", "putenv": "environ",
    "sys.path.insert": "sys.path", "sys.path.append": "sys.path", "sys.path.extend": "sys.path", "sys.path.remove": "sys.path", "sys.path.pop": "sys.path",
    "site.addsitedir": "sys.path", "sys.modules.pop": "sys.modules", "sys.modules.update": "sys.modules", "importlib.reload": "sys.modules",
    "importlib.import_module": "sys.modules", "__import__": "sys.modules", "import_module": "sys.modules",
    "signal.signal": "signal", "signal.alarm": "signal", "signal.setitimer": "signal",
    "locale.setlocale": "locale", "setlocale": "locale",
    "warnings.simplefilter": "warnings", "warnings.filterwarnings": "warnings", "warnings.resetwarnings": "warnings", "simplefilter": "warnings",
    "filterwarnings": "warnings",
    "logging.basicConfig": "logging", "logging.disable": "logging", "logging.setLoggerClass": "logging", "logging.captureWarnings": "logging",
    "sys.setrecursionlimit": "sys.path", "sys.settrace": "signal", "sys.setprofile": "signal", "os.umask": "cwd", "time.tzset": "locale",
}
AMBIENT_STORE_PREFIX = {"os.environ": "environ", "environ": "environ", "sys.path": "sys.path", "sys.modules": "sys.modules", "sys.stdout": "logging",
                        "sys.stderr": "logging", "sys.excepthook": "signal", "sys.argv": "environ"}
COMPILE_PATH_PREFIXES = ("compile/", "api/")
# functions of the compile package that run when a module is IMPORTED, not when a project is compiled (checked: every call stands at module level)
AMBIENT_IMPORT_TIME = {("compile/log.py", "Logger"): "logger factory: `logger = Logger(__name__)` at the top of every module"}


def only_called_at_module_level(pkg: "Package", name: str) -> bool:
    for rel, tree in pkg.trees.items():
        for fn in [n for n in ast.walk(tree) if isinstance(n, (ast.FunctionDef, ast.AsyncFunctionDef, ast.Lambda))]:
            for n in ast.walk(fn):
                if isinstance(n, ast.Call) and call_name(n) in (name, "log." + name):
                    return False
    return True


def read_ambient_writes(pkg: Package) -> list[dict]:
    out = []
    for rel, tree in pkg.trees.items():
        parents = {}
        for n in ast.walk(tree):
            for ch in ast.iter_child_nodes(n):
                parents[ch] = n

        def enclosing(n):
            fn = None
            tries = []          # (Try node, in_finally)
            q = n
            while q in parents:
                par = parents[q]
                if isinstance(par, ast.Try):
                    tries.append((par, any(q is x for x in par.finalbody)))
                if fn is None and isinstance(par, (ast.FunctionDef, ast.AsyncFunctionDef)):
                    fn = par
                q = par
            return fn, tries

        def add(n, what, fieldname):
            fn, tries = enclosing(n)
            restored = False
            for tr, in_finally in tries:
                if in_finally:
                    restored = True
                    break
                for x in tr.finalbody:
                    for y in ast.walk(x):
                        if kind_of(y) == fieldname:
                            restored = True
            if isinstance(parents.get(n), ast.withitem):       # `with contextlib.chdir(...)`: restored by the context manager
                restored = True
            fname = fn.name if fn is not None else "<module>"
            import_time = (rel, fname) in AMBIENT_IMPORT_TIME and only_called_at_module_level(pkg, fname)
            out.append(dict(file=rel, func=fname, line=n.lineno, text=ast.unparse(n)[:70], field=fieldname,
                            on_compile_path=rel.startswith(COMPILE_PATH_PREFIXES) and fn is not None and not import_time, restored=restored,
                            **(dict(import_time=AMBIENT_IMPORT_TIME[(rel, fname)]) if import_time else {})))

        def kind_of(n):
            if isinstance(n, ast.Call):
                nm = call_name(n)
                if nm in AMBIENT_CALLS:
                    return AMBIENT_CALLS[nm]
                if nm and nm.endswith((".addHandler", ".removeHandler", ".setLevel")) and "logg" in nm.lower():
                    return "logging"
            if isinstance(n, (ast.Assign, ast.AugAssign, ast.AnnAssign, ast.Delete)):
                tgs = n.targets if isinstance(n, (ast.Assign, ast.Delete)) else [n.target]
                for tg in tgs:
                    base = tg.value if isinstance(tg, ast.Subscript) else tg
                    txt = ast.unparse(base)
                    if txt in AMBIENT_STORE_PREFIX and (isinstance(tg, ast.Subscript) or isinstance(base, ast.Attribute)):
                        return AMBIENT_STORE_PREFIX[txt]
            return None
        for n in ast.walk(tree):
            k = kind_of(n)
            if k:
                add(n, ast.unparse(n)[:70], k)
    out.sort(key=lambda d: (d["file"], d["line"]))
    return out


# ----------------------------------------------------------------------------- set iteration sites

ORDER_FREE_CALLS = {"sorted", "len", "min", "max", "sum", "any", "all", "set", "frozenset", "bool"}
ORDERED_CALLS = {"list", "tuple", "enumerate", "iter", "next", "join", "reversed", "zip", "map", "filter", "repr", "str"}

# further ordered iterations over a str/Path set that cannot reach the output, with the reason (reviewed by hand);
# loops that only delete / fill a set / raise a constant are recognised structurally (loop_cannot_reach_output)
NO_OUTPUT_SITES: dict = {}


OWNER_RECEIVERS = {
    "Header": lambda r: r in ("header", "Header()", "obj"),
    "DataPack": lambda r: r.endswith("datapack"),
}


def set_attrs(src: Path) -> dict[str, tuple[str, str]]:
    """attribute names annotated `set[T]` at class level or as `self.x: set[T]` -> (T, owner class)"""
    out = {}
    for p in sorted(src.rglob("*.py")):
        tree = parse(p)
        for cls in [n for n in ast.walk(tree) if isinstance(n, ast.ClassDef)]:
            for n in ast.walk(cls):
                if isinstance(n, ast.AnnAssign):
                    m = re.match(r"^set\[(.*)\]$", ast.unparse(n.annotation))
                    if not m:
                        continue
                    if isinstance(n.target, ast.Name) and n in cls.body:
                        out[n.target.id] = (m.group(1), cls.name)
                    elif isinstance(n.target, ast.Attribute) and isinstance(n.target.value, ast.Name) and n.target.value.id == "self":
                        out[n.target.attr] = (m.group(1), cls.name)
            for st in cls.body:     # class-level set literals (e.g. _VARIANTS = {...})
                if isinstance(st, ast.Assign) and len(st.targets) == 1 and isinstance(st.targets[0], ast.Name) and isinstance(st.value, ast.Set):
                    ts = {type(e.value).__name__ if isinstance(e, ast.Constant) else "?" for e in st.value.elts}
                    out[st.targets[0].id] = (ts.pop() if len(ts) == 1 else "mixed", cls.name)
    return out


def local_sets(fn, attrs=None, cls_name=None) -> dict[str, str]:
    """names that are sets inside this function: annotated parameters/locals, assigned a set expression or a known set attribute"""
    out = {}
    if attrs:
        for n in ast.walk(fn):
            if isinstance(n, ast.Assign) and len(n.targets) == 1 and isinstance(n.targets[0], ast.Name) and isinstance(n.value, ast.Attribute):
                t = set_elem_type(n.value, attrs, {}, cls_name)
                if t is not None:
                    out[n.targets[0].id] = t
    for n in ast.walk(fn):
        if isinstance(n, ast.arg) and n.annotation is not None:
            m = re.match(r"^set\[(.*)\]$", ast.unparse(n.annotation))
            if m:
                out[n.arg] = m.group(1)
        if isinstance(n, ast.AnnAssign) and isinstance(n.target, ast.Name):
            m = re.match(r"^set\[(.*)\]$", ast.unparse(n.annotation))
            if m:
                out[n.target.id] = m.group(1)
        if isinstance(n, ast.Assign) and len(n.targets) == 1 and isinstance(n.targets[0], ast.Name):
            v = n.value
            if isinstance(v, (ast.Set, ast.SetComp)) or (isinstance(v, ast.Call) and isinstance(v.func, ast.Name) and v.func.id in ("set", "frozenset")):
                out.setdefault(n.targets[0].id, "?")
    return out


def set_elem_type(e: ast.AST, attrs, locs, cls_name) -> str | None:
    """element type if `e` is (syntactically) a set"""
    if isinstance(e, ast.Set):
        ts = {type(x.value).__name__ if isinstance(x, ast.Constant) else "?" for x in e.elts}
        return ts.pop() if len(ts) == 1 else "mixed"
    if isinstance(e, ast.SetComp):
        return "?"
    if isinstance(e, ast.Call) and isinstance(e.func, ast.Name) and e.func.id in ("set", "frozenset"):
        return "?"
    if isinstance(e, ast.BinOp) and isinstance(e.op, (ast.BitOr, ast.BitAnd, ast.Sub, ast.BitXor)):
        a, b = set_elem_type(e.left, attrs, locs, cls_name), set_elem_type(e.right, attrs, locs, cls_name)
        return a or b
    if isinstance(e, ast.Attribute) and e.attr in attrs:
        elem, owner = attrs[e.attr]
        recv = ast.unparse(e.value)
        if recv in ("self", "cls"):
            return elem if cls_name == owner else None
        ok = OWNER_RECEIVERS.get(owner)
        if ok is None or ok(recv):
            return elem
        return None
    if isinstance(e, ast.Name) and e.id in locs:
        return locs[e.id]
    return None


SIDE_EFFECT_ONLY_CALLS = {"rmtree", "add", "unlink", "rmdir", "isdir", "is_dir", "is_file", "glob", "JMCBuildError"}


def loop_cannot_reach_output(loop: ast.For) -> str | None:
    """a `for` whose body only deletes files/folders, fills a set, skips, or raises a CONSTANT message: the iteration order
    cannot reach emitted files or diagnostics.  Returns the reason, or None."""
    def ok(st) -> bool:
        if isinstance(st, (ast.Continue, ast.Pass)):
            return True
        if isinstance(st, ast.Raise):
            e = st.exc
            return isinstance(e, ast.Call) and all(isinstance(a, ast.Constant) for a in e.args) and not e.keywords
        if isinstance(st, ast.If):
            return calls_ok(st.test) and all(ok(x) for x in st.body + st.orelse)
        if isinstance(st, ast.Try):
            return all(ok(x) for x in st.body + st.orelse + st.finalbody) and all(all(ok(x) for x in h.body) for h in st.handlers)
        if isinstance(st, ast.For):
            return calls_ok(st.iter) and all(ok(x) for x in st.body + st.orelse)
        if isinstance(st, ast.Expr) and isinstance(st.value, ast.Call):
            return calls_ok(st.value)
        return False

    def calls_ok(e) -> bool:
        for n in ast.walk(e):
            if isinstance(n, ast.Call):
                nm = n.func.id if isinstance(n.func, ast.Name) else n.func.attr if isinstance(n.func, ast.Attribute) else None
                if nm not in SIDE_EFFECT_ONLY_CALLS:
                    return False
            if isinstance(n, (ast.JoinedStr, ast.Yield, ast.YieldFrom, ast.NamedExpr)):
                return False
        return True

    if all(ok(st) for st in loop.body + loop.orelse):
        return "the loop only deletes files/folders, fills a set, skips or raises a constant message"
    return None


def read_set_sites(src: Path) -> list[dict]:
    attrs = set_attrs(src)
    sites = []
    for p in sorted(src.rglob("*.py")):
        rel = p.relative_to(src).as_posix()
        tree = parse(p)
        parents = {}
        for n in ast.walk(tree):
            for ch in ast.iter_child_nodes(n):
                parents[ch] = n
        module_sets = {}
        for st in tree.body:
            if isinstance(st, ast.Assign) and len(st.targets) == 1 and isinstance(st.targets[0], ast.Name) and isinstance(st.value, ast.Set):
                module_sets[st.targets[0].id] = "str"
        loc_cache = {}

        def ctx(n):
            fn, cls = None, None
            while n in parents:
                n = parents[n]
                if fn is None and isinstance(n, (ast.FunctionDef, ast.AsyncFunctionDef)):
                    fn = n
                if cls is None and isinstance(n, ast.ClassDef):
                    cls = n.name
            return fn, cls

        def add(node, it, use):
            fn, cls = ctx(node)
            if fn is not None and fn not in loc_cache:
                loc_cache[fn] = {**module_sets, **local_sets(fn, attrs, cls)}
            locs = loc_cache[fn] if fn is not None else module_sets
            t = set_elem_type(it, attrs, locs, cls)
            if t is None:
                return
            site = dict(file=rel, func=fn.name if fn is not None else "<module>", line=min(node.lineno, it.lineno), end_line=it.end_lineno,
                        expr=ast.unparse(it), elem=t, use=use,
                        # may the harness evaluate the expression in the running frame to count the elements?  (no calls: no side effects)
                        evaluable=not any(isinstance(x, (ast.Call, ast.Await, ast.Yield, ast.YieldFrom, ast.NamedExpr, ast.Lambda,
                                                         ast.ListComp, ast.SetComp, ast.DictComp, ast.GeneratorExp)) for x in ast.walk(it)))
            if isinstance(node, ast.For):
                why = loop_cannot_reach_output(node)
                if why:
                    site["no_output"] = why
            sites.append(site)

        for n in ast.walk(tree):
            if isinstance(n, ast.For):
                add(n, n.iter, "for")
            elif isinstance(n, (ast.ListComp, ast.GeneratorExp, ast.DictComp, ast.SetComp)):
                for g in n.generators:
                    par = parents.get(n)
                    use = "comp"
                    if isinstance(n, ast.SetComp):
                        use = "to_set"
                    elif isinstance(par, ast.Call) and isinstance(par.func, ast.Name) and par.func.id in ORDER_FREE_CALLS:
                        use = "order_free:" + par.func.id
                    add(n, g.iter, use)
            elif isinstance(n, ast.Call):
                fname = n.func.id if isinstance(n.func, ast.Name) else n.func.attr if isinstance(n.func, ast.Attribute) else None
                if fname in ("set", "frozenset"):
                    continue
                if fname == "pop" and isinstance(n.func, ast.Attribute) and not n.args and not n.keywords:
                    add(n, n.func.value, "call:pop")        # set.pop(): "an arbitrary element" = the first in hash order
                    continue
                if fname in ORDER_FREE_CALLS:
                    for a in n.args[:1]:
                        add(n, a, "order_free:" + fname)
                elif fname in ORDERED_CALLS:
                    for a in n.args[:1]:
                        add(n, a, "call:" + fname)
            elif isinstance(n, ast.Starred):
                add(n, n.value, "star")
            elif isinstance(n, ast.FormattedValue):
                add(n, n.value, "format")
    for s in sites:
        if s["use"].startswith("order_free") or s["use"] == "to_set":
            s["cls"] = "UOrderFree"
        elif s["elem"] == "int":
            s["cls"] = "UIntOrdered"
        elif s.get("no_output") or (s["file"], s["func"], s["expr"]) in NO_OUTPUT_SITES:
            s["cls"] = "UNoOutput"
            s["reason"] = s.get("no_output") or NO_OUTPUT_SITES[(s["file"], s["func"], s["expr"])]
        else:
            s["cls"] = "USeedOrdered"
    return sites


# ----------------------------------------------------------------------------- where do the elements of an iterated set come from?
# (strengthening round 3)  The classification of an iteration site rests on what the set can hold (`set[int]` iterates in a
# seed-independent order only while every element IS an int).  For every set that an iteration site mentions, list the code paths that
# put elements into it: `.add(x)` / `.update(xs)` / `|=` / a non-empty assignment — and, when such a statement sits in a method that
# inserts one of its own parameters (`def add_int(self, integer): self.ints.add(integer)`), every CALL of that method instead.
# The pool of c12.py must reach each of them (measured by line tracing) in a compile whose iteration sees >= 2 elements.

def read_set_insertions(src: Path, sites: list[dict], attrs: dict) -> list[dict]:
    wanted = {a for s in sites for a in attrs if re.search(r"\b%s\b" % re.escape(a), s["expr"])}
    local_wanted = {}

    def set_names(e):
        """local names that ARE the iterated set (the whole expression or an operand of a set operator), not receivers of an attribute"""
        if isinstance(e, ast.Name):
            return {e.id}
        if isinstance(e, ast.BinOp) and isinstance(e.op, (ast.BitOr, ast.BitAnd, ast.Sub, ast.BitXor)):
            return set_names(e.left) | set_names(e.right)
        return set()
    for s in sites:
        for nm in set_names(ast.parse(s["expr"], mode="eval").body):
            local_wanted.setdefault((s["file"], s["func"]), set()).add(nm)
    direct, wrappers = [], {}
    trees = {p.relative_to(src).as_posix(): parse(p) for p in sorted(src.rglob("*.py"))}
    # a local that is just another name of a set attribute (`valid_condition_kinds = Header().conditions`): follow the attribute
    for (rel, fname), names in list(local_wanted.items()):
        for n in ast.walk(trees[rel]):
            if isinstance(n, (ast.FunctionDef, ast.AsyncFunctionDef)) and n.name == fname:
                for a in ast.walk(n):
                    if isinstance(a, ast.Assign) and len(a.targets) == 1 and isinstance(a.targets[0], ast.Name) and a.targets[0].id in names \
                            and isinstance(a.value, ast.Attribute) and a.value.attr in attrs:
                        wanted.add(a.value.attr)
                        names.discard(a.targets[0].id)
    for rel, tree in trees.items():
        parents = {}
        for n in ast.walk(tree):
            for ch in ast.iter_child_nodes(n):
                parents[ch] = n

        def ctx(n):
            fn, cls = None, None
            while n in parents:
                n = parents[n]
                if fn is None and isinstance(n, (ast.FunctionDef, ast.AsyncFunctionDef)):
                    fn = n
                if cls is None and isinstance(n, ast.ClassDef):
                    cls = n.name
            return fn, cls

        def target_set(e, fn, cls):
            """name of the wanted set `e` denotes, or None"""
            if isinstance(e, ast.Attribute) and e.attr in wanted:
                owner = attrs[e.attr][1]
                recv = ast.unparse(e.value)
                if recv in ("self", "cls"):
                    return f"{owner}.{e.attr}" if cls == owner else None
                ok = OWNER_RECEIVERS.get(owner)
                return f"{owner}.{e.attr}" if ok is None or ok(recv) else None
            if isinstance(e, ast.Name) and fn is not None and e.id in local_wanted.get((rel, fn.name), ()):
                return f"{rel}:{fn.name}:{e.id}"
            return None

        for n in ast.walk(tree):
            ins = None
            if isinstance(n, ast.Call) and isinstance(n.func, ast.Attribute) and n.func.attr in ("add", "update") and n.args:
                fn, cls = ctx(n)
                st = target_set(n.func.value, fn, cls)
                if st:
                    ins = (st, n, n.args[0], fn, cls)
            elif isinstance(n, ast.AugAssign) and isinstance(n.op, ast.BitOr):
                fn, cls = ctx(n)
                st = target_set(n.target, fn, cls)
                if st:
                    ins = (st, n, n.value, fn, cls)
            elif isinstance(n, (ast.Assign, ast.AnnAssign)) and getattr(n, "value", None) is not None:
                fn, cls = ctx(n)
                for tg in (n.targets if isinstance(n, ast.Assign) else [n.target]):
                    st = target_set(tg, fn, cls)
                    v = n.value
                    empty = (isinstance(v, ast.Call) and isinstance(v.func, ast.Name) and v.func.id in ("set", "frozenset") and not v.args) \
                        or (isinstance(v, ast.Set) and not v.elts)
                    if st and not empty:
                        ins = (st, n, v, fn, cls)
            if ins is None:
                continue
            st, node, val, fn, cls = ins
            params = [a.arg for a in fn.args.args] if fn is not None else []
            if isinstance(val, ast.Name) and val.id in params and cls is not None and val.id != "self":
                wrappers.setdefault(fn.name, []).append((st, rel, cls, params.index(val.id), val.id))
                continue
            direct.append(dict(set=st, file=rel, func=fn.name if fn is not None else "<module>", line=node.lineno, end_line=node.end_lineno,
                               text=ast.unparse(node)[:90], value=ast.unparse(val)[:60], via="direct"))
    out = list(direct)
    for rel, tree in trees.items():
        parents = {}
        for n in ast.walk(tree):
            for ch in ast.iter_child_nodes(n):
                parents[ch] = n
        for n in ast.walk(tree):
            if isinstance(n, ast.Call) and isinstance(n.func, ast.Attribute) and n.func.attr in wrappers:
                q = n
                fn = None
                while q in parents:
                    q = parents[q]
                    if isinstance(q, (ast.FunctionDef, ast.AsyncFunctionDef)):
                        fn = q
                        break
                for st, wrel, wcls, pidx, pname in wrappers[n.func.attr]:
                    arg = None
                    if len(n.args) >= pidx:            # parameter index counts `self`
                        arg = n.args[pidx - 1] if pidx >= 1 and len(n.args) >= pidx else None
                    for kw in n.keywords:
                        if kw.arg == pname:
                            arg = kw.value
                    out.append(dict(set=st, file=rel, func=fn.name if fn is not None else "<module>", line=n.lineno, end_line=n.end_lineno,
                                    text=ast.unparse(n)[:90], value=ast.unparse(arg)[:60] if arg is not None else "?", via=f"{wcls}.{n.func.attr}"))
    out.sort(key=lambda d: (d["set"], d["file"], d["line"]))
    return out


# ----------------------------------------------------------------------------- all together

def translate(repo: Path) -> dict:
    src = Path(repo) / "src" / "jmc"
    hdr = read_header(src)
    stores = runtime_class_stores(src, "DataPack")
    cert = read_read_cert(src)
    for attr, where in stores.items():
        bad = [w for w in where if w != "compile/compiling.py:read_cert"]
        if bad:
            raise Untranslatable(f"DataPack.{attr} is also assigned in {bad}")
    assigned = {a["attr"] for a in cert["assigns"]}
    if set(stores) != assigned:
        raise Untranslatable(f"DataPack attributes stored {sorted(stores)} vs read_cert assignments {sorted(assigned)}")
    hstores = runtime_class_stores(src, "Header")
    if hstores:
        raise Untranslatable(f"class-level stores on Header: {hstores}")
    pyenv = read_pyenv(src)
    lex = lexer_init_steps(src, pyenv)
    header_only, why = header_parse_header_only(src)
    # round 4: the read set of the header phase by closure over the package, from compiling.read_header
    pkg = Package(src)
    check_entry_callers(pkg)
    hreads = phase_reads(pkg, "compile/compiling.py", "read_header")
    why = why + [x for x in hreads["why"] if x not in why]
    hnames = sorted(set(hreads["names"]) | {a for a in NAME_ATTRS if any(("." + a) in x for x in why)})
    if not header_only and not hnames and not hreads["pyenv"]:
        hnames = list(NAME_ATTRS)       # the older syntactic check objects to something the closure does not see: stay conservative
    header_rs = ("RHeaderPlus", [("OS", a) for a in AMBIENT] + [("DF", a) for a in hnames if a in NAME_ATTRS]
                 + (["PyEnv", "PyPending"] if hreads["pyenv"] or any("ISOLATED_ENVIRONMENT" in x for x in why) else []))
    header_only = not hnames and not hreads["pyenv"] and header_only
    w = EntryWalker(hdr, cert, lex, header_rs)

    comp = parse(src / "compile/compiling.py")
    compile_jmc = find_func(comp, "compile_jmc")
    cj = lambda: w.function(compile_jmc, {})
    tc = parse(src / "terminal_commands.py")
    cli = w.function(find_func(tc, "compile_"), {"compile_jmc": cj})
    tp = parse(src / "compile/test_compile.py")
    test = w.function(find_func(find_class(tp, "JMCTestPack"), "build"), {})
    pj = parse(src / "api/_py_jmc.py")
    pcls = find_class(pj, "PyJMC")
    pb = lambda: w.function(find_func(pcls, "__build"), {})
    pyjmc = w.function(find_func(pcls, "__init__"), {"self.__build": pb})

    fields = [("HF", f) for f in hdr["fields"]] + [("DF", a) for a in sorted(assigned)] + ["PyEnv", "PyPending"] + [("OS", a) for a in AMBIENT]
    unknown = [a for a in hnames if ("DF", a) not in fields]
    if unknown:
        raise Untranslatable(f"header phase reads DataPack.{unknown} which read_cert does not assign")
    sites_, attrs_ = read_set_sites(src), set_attrs(src)
    return dict(header=hdr, cert=cert, pyenv=pyenv, fields=fields, header_only=header_only, header_only_why=why,
                header_phase_reads=dict(names=hnames, pyenv=hreads["pyenv"], cwd=hreads["cwd"], definitions_reached=hreads["definitions_reached"]),
                ambient=[("OS", a) for a in AMBIENT], ambient_writes=read_ambient_writes(pkg), header_readset=header_rs,
                simple=all(st[0] in ("guard", "run") or (st[0] == "assign" and st[2][0] in ("const", "input")) for l_ in (cli, test, pyjmc) for st in l_),
                entries=dict(CLI=cli, TEST=test, PYJMC=pyjmc), set_sites=sites_, set_attrs=attrs_,
                set_insertions=read_set_insertions(src, sites_, attrs_),
                container_fields=[f for f in hdr["cleared"] if hdr["resets"][f]["mutable"]])


# ----------------------------------------------------------------------------- Coq output

def cstr(s: str) -> str:
    return '"' + s.replace('"', '""') + '"'


def cfield(f) -> str:
    if isinstance(f, tuple):
        return f"({f[0]} {cstr(f[1])})"
    return f


def csrc(s) -> str:
    if s[0] == "const":
        return "SrcConst"
    if s[0] == "input":
        return "SrcInput"
    return f"(SrcInputOrPrev {cfield(s[1])})"


def cstep(st) -> str:
    if st[0] == "assign":
        return f"Assign {cfield(st[1])} {csrc(st[2])}"
    if st[0] == "assign_when":
        return f"AssignWhen {cstr(st[1])} {cfield(st[2])} {csrc(st[3])}"
    if st[0] == "guard":
        return f"Guard {cstr(st[1])}"
    if isinstance(st[2], tuple):
        if st[1] == "read_header":
            return f"Run {cstr(st[1])} ({st[2][0]} header_reads)"
        return f"Run {cstr(st[1])} ({st[2][0]} [" + "; ".join(cfield(f) for f in st[2][1]) + "])"
    return f"Run {cstr(st[1])} {st[2]}"


def coq_text(t: dict) -> str:
    L = ["(* REGENERATED on every run by harness/translate_proc.py from the jmc source — do not edit. *)",
         "From Coq Require Import String List Bool.", "From JMCV Require Import Model.Proc Run.C12.",
         "Import ListNotations.", "Open Scope string_scope.", ""]
    L.append("Definition U : list field := [" + "; ".join(cfield(f) for f in t["fields"]) + "].")
    L.append("(* what the code reachable from compiling.read_header can see besides the Header's fields *)")
    L.append("Definition header_reads : list field := [" + "; ".join(cfield(f) for f in t["header_readset"][1]) + "].")
    for name, steps in t["entries"].items():
        L.append(f"Definition steps_{name} : list step := [\n  " + ";\n  ".join(cstep(s) for s in steps) + "\n].")
    L.append("Definition entries : list (string * list step) := [(\"CLI\", steps_CLI); (\"TEST\", steps_TEST); (\"PYJMC\", steps_PYJMC)].")
    L.append("Definition ambient : list field := [" + "; ".join(cfield(f) for f in t["ambient"]) + "].")
    L.append("Definition ambient_writes : list ambient_write := [\n  " + ";\n  ".join(
        f"mkAmbientWrite {cstr(w['file'] + ':' + w['func'] + ':' + str(w['line']) + ': ' + w['text'])} {cfield(('OS', w['field']))} "
        f"{'true' if w['on_compile_path'] else 'false'} {'true' if w['restored'] else 'false'}" for w in t["ambient_writes"]) + "\n].")
    L.append("Definition set_sites : list set_site := [\n  " + ";\n  ".join(
        f"mkSetSite {cstr(s['file'] + ':' + s['func'] + ':' + s['expr'][:60])} {s['cls']}" for s in t["set_sites"]) + "\n].")
    return "\n".join(L) + "\n"


if __name__ == "__main__":
    import sys
    tt = translate(Path(sys.argv[1] if len(sys.argv) > 1 else "/repo"))
    print(coq_text(tt))
    print("(* header_only:", tt["header_only"], tt["header_only_why"][:5], "*)")
    for s in tt["set_sites"]:
        print("(*", s, "*)")
    for s in tt["set_insertions"]:
        print("(* insertion", s, "*)")
