"""C15, strengthening round 1 (second part): layout runs INSIDE every kind of bracket of every statement kind.

The statement-kind inventory of jmc (lexer_func_content.py: commands, variable operations, NBT operations, flow control,
function calls, built-in functions; command/nbt_operation.py: paths, filters, indices, slices, type casts;
command/condition.py; command/utils.py: argument kinds) crossed with the brackets each kind can contain.  In every
statement the mark `¦` stands at a place INSIDE a bracket where a layout run is legal; the corpus program has ONE blank
there, so the re-layouts of c15_layout turn each of them into line breaks, tabs and comments (glued or not).

An entry is (bracket kind, statement, needs): `needs` names a fix of a defect of the pinned tree that the statement
would hit (see reports/C15.md, round 1): it is part of the corpus only if the tree has that fix (probed), the finding is
listed in known_findings.json, or VERIF_C15_DEMAND=1 (demonstration).
"""
from __future__ import annotations

MARK = "¦"

INSIDE = [
    # ---- NBT paths: filters, indices, slices, type casts (command/nbt_operation.py)
    ("nbt_path_filter", '$x = @s::Inventory[¦{¦Slot¦:¦0b¦}¦].tag.x;', None),
    ("nbt_path_filter", '@s::Inventory[¦{Slot:0b}¦].tag.x = 1b;', None),
    ("nbt_path_filter", '::a.b[¦{¦k¦:¦1¦}¦].c = @s::Inventory[¦{Slot:0b}¦].tag;', None),
    ("nbt_path_filter", 'data modify storage a:b x set from entity @s Inventory[¦{¦Slot¦:¦0b¦,¦id¦:¦"minecraft:stone"¦}¦].tag;', None),
    ("nbt_path_index", '$x = @s::arr[¦0¦];', None),
    ("nbt_path_index", '@s::tag.list[¦0¦] = $x;', None),
    ("nbt_path_index", '@s::a.b[¦-1¦] += 1;', None),
    ("nbt_path_index", '::a ?= @s::b[¦0¦];', None),
    ("nbt_path_index", '$x = data get entity @s Pos[¦1¦];', None),
    ("nbt_path_index", 'execute store result score $x __variable__ run data get entity @s Pos[¦0¦];', None),
    ("nbt_slice", '::s = ::b.y[0:¦3];', "raw-bracket-text"),
    ("nbt_slice", '::s = ::b.y[2:¦];', "raw-bracket-text"),
    ("nbt_slice", '::s = ::b.y[-3:¦-1];', "raw-bracket-text"),
    ("nbt_slice", '::s = @s::name[1:¦4];', "raw-bracket-text"),
    ("nbt_slice_as_path", '::s = ::b.y[¦2:5¦];', None),
    ("nbt_type_cast", '@s::a = (¦int¦) $x;', "raw-bracket-text"),
    ("nbt_type_cast", '@s::a = 2 * (¦float¦) $x;', "raw-bracket-text"),
    # ---- selectors
    ("selector_args", 'kill @e[¦type¦=¦pig¦,¦limit¦=¦1¦,¦sort=nearest¦];', None),
    ("selector_args", 'kill @e[¦type=!player¦,¦distance=..5¦,¦nbt={¦OnGround¦:¦1b¦}¦];', None),
    ("selector_args", 'kill @e[¦scores¦=¦{¦obj¦=¦1..5¦,¦o2=3¦}¦];', None),
    ("selector_args", 'kill @e[¦tag=a¦][¦tag=b¦];', None),
    ("selector_args", 'data get entity @e[¦type=pig¦,¦limit=1¦].foo;', None),
    ("selector_args", 'scoreboard players operation @e[¦type=pig¦,¦limit=1¦] obj += #c obj;', None),
    ("selector_in_execute", 'execute as @a[¦tag=x¦] at @s if block ~ ~-1 ~ stone run {¦say "a";¦say "b";¦}', None),
    ("selector_in_execute", 'execute if entity @s[¦scores={¦obj=1..5¦}¦] run say "x";', None),
    ("selector_of_objective", 'obj:@e[¦type=pig¦,¦limit=1¦] += $x;', None),
    ("selector_of_objective", '$x = obj:@s[¦tag=a¦];', None),
    # ---- block states / item components / NBT and JSON payloads of vanilla commands
    ("block_state", 'execute if block ~ ~ ~ chest[¦facing¦=¦north¦]{¦Items¦:¦[]¦} run say "c";', None),
    ("block_state", 'setblock ~ ~ ~ chest[¦facing=north¦]{¦Items:[]¦} replace;', None),
    ("item_components", 'give @s stone[¦custom_name¦=¦\'"x"\'¦,¦lore¦=¦[¦\'"a"\'¦,¦\'"b"\'¦]¦] 2;', None),
    ("nbt_payload", 'give @s diamond_sword{¦Enchantments¦:¦[¦{¦id¦:¦"sharpness"¦,¦lvl¦:¦5s¦}¦]¦} 1;', None),
    ("nbt_payload", 'summon zombie ~ ~ ~ {¦IsBaby¦:¦1b¦,¦ArmorItems¦:¦[¦{}¦,¦{}¦,¦{}¦,¦{¦id:"stone"¦,¦Count:1b¦}¦]¦};', None),
    ("nbt_payload", 'particle dust{¦color¦:¦[¦1.0¦,¦0.0¦,¦0.0¦]¦,¦scale¦:¦1¦} ~ ~ ~ 0 0 0 0 1;', None),
    ("nbt_payload", 'data modify storage a:b x set value {¦a¦:¦1b¦,¦b¦:¦[¦1¦,¦2¦,¦3¦]¦,¦c¦:¦"str"¦,¦d¦:¦{¦e¦:¦1.5f¦}¦};', None),
    ("json_payload", 'tellraw @a {¦"text"¦:¦"hello"¦,¦"color"¦:¦"red"¦,¦"extra"¦:¦[¦{¦"text":"!"¦}¦]¦};', None),
    ("json_payload", 'tellraw @a [¦{"text":"a"}¦,¦{"selector":"@s"}¦,¦" b "¦];', None),
    ("vanilla_macro", 'tp @s $(¦x¦) $(¦y¦) $(¦z¦);', None),
    ("vanilla_macro", '$v = (const) $(¦my¦);', None),
    ("to_string_args", 'tellraw @a $x.toString(¦color¦=¦red¦,¦bold¦=¦true¦);', None),
    ("to_string_args", 'tellraw @a @s::name.toString(¦color=red¦);', None),
    # ---- arguments of functions and built-ins (command/utils.py: verify_args)
    ("call_args", 'lz(¦hello¦,¦5¦);', None),
    ("call_kwargs", 'lz(¦a¦=¦hello¦,¦b¦=¦5¦);', None),
    ("builtin_args", '$y = Math.sqrt(¦$x¦);', None),
    ("builtin_args", '$r = Math.random(¦1¦,¦10¦);', None),
    ("builtin_kwargs", '$r = Math.random(¦min¦=¦1¦,¦max¦=¦10¦);', None),
    ("builtin_string_arg", 'Text.tellraw(¦@a¦,¦"hello &<red,bold>world"¦);', None),
    ("builtin_selector_arg", 'Text.title(¦@a[¦tag=x¦]¦,¦"title"¦);', None),
    ("builtin_string_arg", 'printf(¦"value &<$x>"¦);', None),
    ("builtin_scoreboard_arg", '$r = Math.random(obj:@s,¦$y);', None),
    ("builtin_scoreboard_arg", '$y = Math.sqrt(obj:@s[¦tag¦=¦a¦]);', "scoreboard-argument"),
    ("builtin_scoreboard_arg", '$r = Math.random(¦min¦=¦obj:@e[¦type=pig¦,¦limit=1¦]¦,¦max=5¦);', "scoreboard-argument"),
    ("arrow_function", 'Hardcode.repeat(¦(¦i¦)¦=>¦{¦say "index $i";¦tp @s ~ ~$i ~;¦}¦,¦start¦=¦1¦,¦stop¦=¦4¦,¦step¦=¦1¦);', None),
    ("arrow_function", 'Hardcode.switch(¦$x¦,¦(i) => {¦say "case $i";¦}¦,¦count=3¦);', None),
    ("list_argument", 'Hardcode.repeatList((v, i) => { say "$v $i"; }, strings=[¦"a"¦,¦"b"¦,¦"c"¦]);', None),
    # ---- conditions and flow-control headers (command/condition.py, command/_flow_control.py)
    ("condition", 'if (¦$x¦==¦1¦) {¦say "one";¦}', None),
    ("condition", 'if (¦$x > 1¦&&¦$y <= 3¦) { say "both"; } else {¦say "no";¦}', None),
    ("condition_matches", 'if (¦$x matches 1..5¦) { say "r"; }', None),
    ("condition_nested", 'if (¦entity @s[¦tag=a¦]¦||¦!(¦$x != $y¦)¦) { say "c"; }', None),
    ("condition_nested", 'if (¦(¦$a == 1¦||¦$b == 2¦)¦&&¦entity @e[¦type=pig¦,¦limit=1¦]¦) { say "grp"; }', None),
    ("condition", 'if (¦block ~ ~ ~ #minecraft:logs¦) { say "log"; }', None),
    ("condition", 'if (¦!$flag¦) { say "nf"; }', None),
    ("condition", 'if (¦$x >= $y¦) say "short";', None),
    ("condition_objective", 'if (¦obj:@s[¦tag=a¦] > 3¦) { say "o"; }', None),
    ("condition_objective", 'if (¦$x == obj:@e[¦type=pig¦,¦limit=1¦]¦) { say "o"; }', None),
    ("while_header", 'while (¦$i < 10¦) {¦$i++;¦say "loop";¦}', None),
    ("while_header", 'do {¦$i--;¦} while (¦$i > 0¦);', None),
    ("for_header", 'for (¦$i = 0¦;¦$i < 5¦;¦$i++¦) {¦say "f";¦}', None),
    ("switch_header", 'switch (¦$x¦) {¦case 1:¦say "1";¦case 2:¦say "2";¦}', None),
    ("switch_header", 'switch (¦obj:@s[¦tag=a¦]¦) { case 1: say "1"; }', None),
    ("expression_parens", '$x := (¦$y + 3¦) * 2 - $z / 4;', None),
    ("expression_parens", '$x := $a + (¦$b - (¦$c * 2¦)¦);', None),
    ("block_body", 'execute as @a at @s run {¦if (¦$x == 1¦) {¦say "nested if";¦}¦$x++;¦}', None),
]

# top-level statements (load section)
INSIDE_TOP = [
    ("async_header", 'async while (¦true¦) {¦say "x";¦} 1s;', "raw-bracket-text"),
    ("async_header", 'async while (¦$x < 3¦) {¦say "x";¦} 1s;', None),
    ("async_header", 'async for (¦$i=0¦;¦true¦;¦$i++¦) {¦say "x";¦} 1t;', None),
    ("js_object", 'Trigger.setup(¦help¦,¦{¦1¦:¦(¦)¦=>¦{¦say "h1";¦}¦,¦2¦:¦()=>{ say "h2"; }¦}¦);', None),
    ("builtin_args", 'Timer.add(¦obj2¦,¦runOnce¦,¦@a¦,¦() => {¦say "done";¦}¦);', None),
    ("list_argument", 'Item.create(¦myitem¦,¦carrot_on_a_stick¦,¦"&<gold>Wand"¦,¦[¦"&<gray>lore"¦,¦"l2"¦]¦,¦nbt={¦a¦:¦1b¦}¦);', None),
    ("class_body", 'class k3 {¦function g() {¦say "g";¦}¦}', None),
    ("function_params", '@lazy function lz2(¦a¦,¦b¦) {¦say "$a $b";¦}\nfunction u() { lz2(¦1¦,¦2¦); }', None),
]

# canonical probes: does the tree have the fix?  (program, predicate on the compiled functions' text)
FIX_PROBES = {
    "scoreboard-argument": ('function t() { $y = Math.sqrt(obj:@s[ tag=a ]); }', lambda out: "@s[tag=a] obj" in out),
    "raw-bracket-text": ('function t() { ::s = ::b.y[0: // c\n 3]; }', lambda out: "b.y 0 3" in out and "//" not in out),
}
FINDING_OF = {"scoreboard-argument": "C15-scoreboard-argument-raw-bracket", "raw-bracket-text": "C15-comment-in-raw-bracket-text"}


# what of an entry is withheld while its fix is missing: only the re-layouts that add comments, or the whole entry
SCOPE = {"raw-bracket-text": "comments", "scoreboard-argument": "all"}
COMMENT_LAYOUTS = {"trailing_comments", "mixed_comments", "glued_comments", "glued_some", "nasty_comments"}


def programs(prelude: str, enabled):
    """-> list of dict(src, kind, needs, no_comments) for the entries whose `needs` is None or in `enabled`; an entry whose
    missing fix concerns comments only stays in the corpus with `no_comments` set (whitespace re-layouts only)"""
    out = []
    for top, entries in ((False, INSIDE), (True, INSIDE_TOP)):
        for kind, stmt, needs in entries:
            ok = needs is None or needs in enabled
            if not ok and SCOPE[needs] == "all":
                continue
            src = stmt.replace(MARK, " ") + "\n" if top else prelude + "function t() {\n    " + stmt.replace(MARK, " ") + "\n}\n"
            out.append(dict(src=src, kind=kind, needs=needs, marks=stmt.count(MARK), no_comments=not ok))
    return out
