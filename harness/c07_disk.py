"""c07_disk.py — REAL disk builds for property C07 (strengthening round 4): `compile_jmc` / the steps of
compile/compiling.py into a real output directory, first build and rebuilds into the same output, with a `#copy` folder,
`#static` folders, pre-existing output content and custom jmc.txt names; the DataPack operations of every build are logged by
harness/optrace.py's wrappers and the output directory is read back before and after each build.

Executed with the repo interpreter (PYTHONPATH=<repo>/src) by harness/c07.py.  stdin: JSON {"jobs": [...]}, stdout: JSON list.

job = {"ns": str, "pack_format": str, "entry": "compile_jmc" | "steps",
       "init": [[relpath, text], ...],            # files in the output directory before the first build (jmc.txt with custom names, ...)
       "copy": null | [[relpath, text], ...],     # files of <project>/cp, the folder `#copy "cp"` names
       "builds": [{"src": str, "header": null | str,
                   "touch": null | [[relpath, text], ...],      # files the user writes into the output directory before this build
                   "remove": null | [relpath, ...],             # files / folders the user deletes from the output directory before this build
                   "copy_touch": null | [[relpath, text], ...], # ... into the #copy folder
                   "copy_remove": null | [relpath, ...],
                   "pack_format": null | str}, ...]}
result = {"builds": [{"ok": bool, "exc", "jmc", "msg", "frame",
                      "before": {relpath: text}, "after": {relpath: text},      # every regular file of the output directory
                      "copy": null | {relpath: text},                           # the #copy folder as it is when the build starts (null: no #copy in effect)
                      "statics": [relpath | null, ...],                         # #static folders relative to the output directory (null: outside of it)
                      "is_delete": bool,                                        # data/<ns> was a directory when the build started
                      "nometa": bool, "ops": [...], "cfg": {...} | null, "unsupported": [...]}, ...]}
Everything happens under a private tempfile.mkdtemp() that is removed afterwards.
"""
import json
import logging
import os
import shutil
import signal
import sys
import tempfile
from pathlib import Path

sys.path.insert(0, os.path.dirname(os.path.abspath(__file__)))
import optrace  # noqa: E402   (the DataPack wrappers; nothing of the repo is edited)

T = optrace.T


def read_tree(root: Path) -> dict:
    out = {}
    if not root.is_dir():
        return out
    for dirpath, _dirs, files in os.walk(root):
        for f in files:
            p = Path(dirpath) / f
            try:
                out[p.relative_to(root).as_posix()] = p.read_text(encoding="utf-8", errors="replace")
            except OSError:
                out[p.relative_to(root).as_posix()] = "<unreadable>"
    return out


def put(root: Path, items):
    for rel, text in items or []:
        p = root / rel
        p.parent.mkdir(parents=True, exist_ok=True)
        p.write_text(text, encoding="utf-8")


def take(root: Path, rels):
    for rel in rels or []:
        p = root / rel
        if p.is_dir():
            shutil.rmtree(p)
        elif p.exists():
            p.unlink()


def rel_to(root: Path, p: Path):
    try:
        return Path(os.path.abspath(p)).relative_to(os.path.abspath(root)).as_posix()
    except ValueError:
        return None


def one_build(job, b, tmp: Path, jmc_excs):
    from jmc.terminal import Configuration, GlobalData
    from jmc.compile import compiling
    from jmc.compile.header import Header
    proj, out, cp = tmp / "proj", tmp / "out", tmp / "proj" / "cp"
    put(out, b.get("touch"))
    take(out, b.get("remove"))
    put(cp, b.get("copy_touch"))
    take(cp, b.get("copy_remove"))
    (proj / "main.jmc").write_text(b["src"], encoding="utf-8")
    hj = proj / "main.hjmc"
    if b.get("header") is not None:
        hj.write_text(b["header"], encoding="utf-8")
    elif hj.exists():
        hj.unlink()
    before = read_tree(out)
    is_delete = (out / "data" / job["ns"]).is_dir()
    T.ops, T.active, T.fid, T.keep, T.unsupported, T.cfg = [], False, {}, [], [], None
    cfg = Configuration(GlobalData(), namespace=job["ns"], description="c07 disk", pack_format=str(b.get("pack_format") or job["pack_format"]),
                        target=proj / "main.jmc", output=out)
    signal.alarm(30)
    try:
        Header().envs = list(b.get("envs") or [])      # what terminal_commands.compile_ does before compile_jmc
        if job.get("entry") == "steps":
            # the steps of compile_jmc spelled out (what an embedding tool calls): header, certificate, lexer, build
            Header.clear()
            compiling.read_header(cfg)
            is_del, cert_config, cert_file = compiling.read_cert(cfg)
            from jmc.compile.lexer import Lexer
            lexer = Lexer(cfg)
            compiling.build(lexer.datapack, cfg, is_del, cert_config, cert_file)
        else:
            compiling.compile_jmc(cfg)
        res = {"ok": True}
    except optrace._Timeout:
        res = {"ok": False, "exc": "Timeout", "jmc": False, "msg": "", "frame": None}
    except BaseException as e:  # noqa
        signal.alarm(0)
        res = {"ok": False, "exc": type(e).__name__, "jmc": isinstance(e, jmc_excs), "msg": str(e)[:2000],
               "frame": optrace.innermost_jmc_frame(e.__traceback__)}
    finally:
        signal.alarm(0)
        T.active = False
    h = Header()
    res["before"], res["after"] = before, read_tree(out)
    res["is_delete"] = is_delete
    res["copy"] = read_tree(Path(h.copy)) if h.copy is not None else None
    res["copy_is_cp"] = h.copy is None or os.path.abspath(h.copy) == os.path.abspath(cp)
    res["statics"] = [rel_to(out, s) for s in sorted(h.statics)]
    res["nometa"] = bool(h.nometa)
    res["ops"] = optrace.finish_ops()
    res["cfg"] = T.cfg
    res["unsupported"] = sorted(set(T.unsupported) - {"#copy"})
    return res


def run_job(job, jmc_excs):
    tmp = Path(tempfile.mkdtemp(prefix="c07disk_"))
    try:
        (tmp / "proj").mkdir()
        put(tmp / "out", job.get("init"))
        if job.get("copy") is not None:
            (tmp / "proj" / "cp").mkdir()
            put(tmp / "proj" / "cp", job["copy"])
        return {"builds": [one_build(job, b, tmp, jmc_excs) for b in job["builds"]]}
    finally:
        shutil.rmtree(tmp, ignore_errors=True)


def main():
    logging.disable(logging.CRITICAL)
    req = json.load(sys.stdin)
    real_stdout = sys.stdout
    sys.stdout = open(os.devnull, "w")
    sys.stderr = open(os.devnull, "w")
    from jmc.terminal import GlobalData
    GlobalData().init("x", "jmc_config.json")
    optrace.install()
    jmc_excs = optrace.jmc_exception_classes()
    signal.signal(signal.SIGALRM, optrace._alarm)
    cwd = os.getcwd()
    scratch = tempfile.mkdtemp(prefix="c07disk_cwd_")
    os.chdir(scratch)
    try:
        out = [run_job(j, jmc_excs) for j in req["jobs"]]
    finally:
        os.chdir(cwd)
        shutil.rmtree(scratch, ignore_errors=True)
    sys.stdout = real_stdout
    json.dump(out, sys.stdout)


if __name__ == "__main__":
    main()
