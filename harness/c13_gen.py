"""Generated input streams of the C13 check that are not single edits of a corpus program (triage round 5).

Every stream yields jobs `dict(src, header, pack_format)` with a label `(stream, cell)`; the check runs all of them in the
thorough tier and a seeded, cell-stratified sample in the quick tier (every cell at least once).

 header_forms      every header directive of the tree under test (read from header_parse.py) x argument lists from a small
                   alphabet (0, 1, 2 tokens) x spacing / trailing-comment forms, and the directive-less forms `#`, `# `,
                   `#//`, `# //`; alone and between two valid lines; over four sources that use / do not use the name
 nested_decls      a declaration (function, decorated function, class, new, import) at EVERY gap of every block statement
                   (if / else-if / else, while, do-while, for, switch cases, execute run {}, expand, arrow function,
                   async, with): before, between the parts (`do {} HERE while ()`, `if {} HERE else {}`), first / last
                   inside each block, after
 builtin_matrix    every built-in of the registry of the tree under test (c13_run.py op "builtins") x every parameter x
                   a value grammar (values of every ArgType, odd shapes of each) in keyword and positional form, plus call
                   shapes (no bracket, empty, blank, duplicate / unknown keyword, `k=`, `=v`, `k==v`, too many arguments)
 arithmetic        compile-time arithmetic sites (`Hardcode.calc(E)` in a string / as a value, in Hardcode.repeat and @lazy
                   bodies, `EVAL(E)`, `#define K EVAL(E)`, `:=` and its compound forms, `Hardcode.repeat(start=E)`) x E from
                   a grammar: exhaustively all token strings up to length 3 over {0 1 2 ( ) + - * / % ** //}, a list of
                   degenerate forms (`1/0`, `()`, `(1+)`, `1 2`, `1%0`, `0**-1`, `9**9**9` ...), random deeper expressions
 stress            the hang detector's own inputs: size-parameterised programs whose cost could be super-linear (towers of
                   powers, huge exponents / literals, long operator and condition chains, deep brackets, long else-if
                   chains, many cases / statements / list elements, nested Hardcode.repeat); run under a longer alarm;
                   the wall time per program is recorded in the evidence
"""
from __future__ import annotations

import re
from pathlib import Path

# ------------------------------------------------------------------------------------------------ header forms
FALLBACK_DIRECTIVES = ["define", "deepdefine", "bind", "credit", "include", "command", "del", "override", "uninstall", "static",
                       "nometa", "enum", "env", "forcebst", "show_private_command", "link", "resource"]
HEADER_ARGS = ["X", "X(a)", "X(a, b)", "X()", "X (a)", "(", ")", "()", "(a)", "1", "-1", '"s"', "'s'", "x y", "=", "#", ",", "$x", "@s",
               "{}", "[]", "EVAL", "NOT", "__namespace__", "__UUID__", "minecraft", "give", "\\", "X.Y", "a:b", "-", "1 2 3", ";",
               "X;", "`m`", "..", "*"]
HEADER_ARGS2 = ["X", "X(a)", "()", "1", "-1", '"s"', "=", "#", ",", "EVAL", "x y", "a", "(a) a", "EVAL(1/0)", "EVAL(9**9**9)",
                "EVAL()", "X X", "//", "\\"]
HEADER_SOURCES = ['function f() { say "a"; }', 'function f() { $v = X; }', '$v = X(1);', 'X(1, 2);']


def directives(repo: Path) -> list[str]:
    """directive names the header parser of the tree under test compares against"""
    try:
        text = (repo / "src" / "jmc" / "compile" / "header_parse.py").read_text(encoding="utf-8")
    except OSError:
        return list(FALLBACK_DIRECTIVES)
    found = []
    for m in re.finditer(r"directive_token\.string\s*(?:==\s*\"([A-Za-z_]+)\"|in\s*[\(\{\[]([^\)\}\]]*)[\)\}\]])", text):
        names = [m.group(1)] if m.group(1) else re.findall(r"\"([A-Za-z_]+)\"", m.group(2))
        for n in names:
            if n not in found:
                found.append(n)
    for n in FALLBACK_DIRECTIVES:
        if n not in found:
            found.append(n)
    return found


def header_forms(repo: Path):
    ds = directives(repo) + ["", "zz", "Define", "define2"]
    lines = []
    for d in ds:
        base = "#" + d
        lines += [(d, "bare", base), (d, "bare", "# " + d), (d, "bare", base + " "), (d, "bare", base + "//c"),
                  (d, "bare", base + " // c"), (d, "bare", "#\t" + d + "\t"), (d, "bare", " " + base), (d, "bare", base + "\r")]
        for a in HEADER_ARGS:
            lines.append((d, "1:" + a, base + " " + a))
        for a in HEADER_ARGS[:12]:
            lines.append((d, "1c:" + a, base + " " + a + " // c"))
            lines.append((d, "1g:" + a, base + a))
        for a in HEADER_ARGS2:
            for b in HEADER_ARGS2:
                lines.append((d, "2:" + a + "|" + b, base + " " + a + " " + b))
    for n, (d, form, line) in enumerate(lines):
        for k, src in enumerate(HEADER_SOURCES):
            hdr = line if (n + k) % 2 == 0 else "#define A 1\n" + line + "\n#define B A"
            yield ("header_forms", (d, form.split(":")[0], k)), dict(src=src, header=hdr, pack_format=None)


# ------------------------------------------------------------------------------------------------ nested declarations
DECLS = ['function n() {}', 'function n() { say "n"; }', 'function n() { if ($q == 1) { say "n"; } }', '@lazy function n(a) { say "$a"; }',
         '@add(__tick__) function n() { say "n"; }', '@add(__tick__) function n() {}', 'class c {}', 'class c { function n() { say "n"; } }',
         'new advancements(n) {}', 'new advancements(n) { "criteria": {} }', 'import "x";', 'function n() {', 'function n()',
         'function n', 'function', '@lazy', '@lazy function n() {}', 'new', 'class', 'function n() { do { say "n"; } }',
         'function n() { if ($q == 1) { say "n"; } else }']
# block statements as lists of parts; a declaration is put at every gap (between parts), parts that end in `{` open a block
BLOCKS = {
    "if": ['if ($x == 1) {', 'say "a";', '}'],
    "if-else": ['if ($x == 1) {', 'say "a";', '}', 'else {', 'say "b";', '}'],
    "if-elif-else": ['if ($x == 1) {', 'say "a";', '}', 'else if ($x == 2) {', 'say "b";', '}', 'else {', 'say "c";', '}'],
    "if-or": ['if ($x == 1 || $y == 2) {', 'say "a";', '}', 'else if ($x == 2 || $y == 3) {', 'say "b";', '}'],
    "while": ['while ($x < 3) {', '$x++;', '}'],
    "do-while": ['do {', '$x++;', '}', 'while ($x < 3);'],
    "for": ['for ($i = 0; $i < 3; $i++) {', 'say "i";', '}'],
    "switch": ['switch ($x) {', 'case 1:', 'say "a";', 'break;', 'case 2:', 'say "b";', '}'],
    "execute-run": ['execute as @a run {', 'say "a";', '}'],
    "execute-expand": ['execute as @a expand {', 'say "a";', 'say "b";', '}'],
    "arrow": ['Hardcode.repeat((i) => {', 'say "$i";', '}', ', start=0, stop=2);'],
    "async-while": ['async while ($x < 3) {', '$x++;', '}', '1t;'],
    "with": ['execute as @a run {', 'say "a";', '}', 'with ::p;'],
    "return-run": ['return run {', 'say "a";', '}'],
    "nested-if-do": ['if ($x == 1) {', 'do {', '$x++;', '}', 'while ($x < 3);', '}'],
    "schedule": ['schedule 1t {', 'say "a";', '}'],
}


def nested_decls():
    for bname, parts in BLOCKS.items():
        for g in range(len(parts) + 1):
            for dn, d in enumerate(DECLS):
                body = " ".join(parts[:g] + [d] + parts[g:])
                yield ("nested_decls", (bname, g, "fn")), dict(src="function f() { " + body + ' say "z"; }', header=None, pack_format=None)
                if dn < 11:
                    yield ("nested_decls", (bname, g, "load")), dict(src=body + ' say "z";', header=None, pack_format=None)
                    yield ("nested_decls", (bname, g, "class")), dict(src="class k { function f() { " + body + " } }", header=None,
                                                                      pack_format=None)


# ------------------------------------------------------------------------------------------------ built-in argument matrix
ARROW = '() => { say "cb"; }'
BASE_VALUE = dict(KEYWORD="kw", STRING='"s"', INTEGER="1", FLOAT="1.5", SELECTOR="@s", FUNC=ARROW, ARROW_FUNC=ARROW, _FUNC_CALL=ARROW,
                  LIST='["a"]', JS_OBJECT='{"a": "b"}', JSON='{"a": 1}', NBT="::p", SCOREBOARD="$v", SCOREBOARD_INT="$v",
                  COMPONENT="[a=1]", ANY="x")
# parameter names whose KEYWORD / list / object value is checked against a vocabulary or a shape: (built-in prefix, parameter) -> value
BASE_BY_NAME = {
    ("", "mode"): "normal", ("GUI.template", "mode"): "entity", ("Timer.add", "mode"): "runOnce", ("", "align"): "corner",
    ("", "local"): "false", ("", "src"): "true", ("", "allowMissing"): "false", ("", "interpret"): "false", ("", "jmc"): "false",
    ("Advancement", "type"): "everything", ("", "criteria"): "dummy", ("", "variant"): "oak", ("", "itemType"): "stone", ("Item.createUse", "itemType"): "carrot_on_a_stick",
    ("", "mobType"): "pig", ("GUI.register", "item"): "stone", ("", "nbt"): None, ("Item", "nbt"): "{a: 1}", ("GUI", "nbt"): "{a: 1}",
    ("", "functionMap"): '{1: () => { say "a"; }}', ("", "triggers"): '{1: () => { say "a"; }, 2: () => { say "b"; }}',
    ("", "properties"): "{color: red}", ("GUI.registers", "items"): "[stone, dirt]", ("", "template"): '["sas"]',
    ("", "stringLists"): '[["a", "b"]]', ("TextProp", "function"): "() => { tp @s ~ ~ ~; }", ("", "startAtEye"): "true",
    ("", "stopAtEntity"): "true", ("", "stopAtBlock"): "true", ("", "isFrontGlow"): "false", ("", "isBackGlow"): "false",
    ("", "pythonCode"): "`emit('say 1')`", ("", "regex"): '".*"', ("", "slot"): '"weapon.mainhand"', ("", "pos"): '"~ ~ ~"',
    ("", "recipe"): '{"type": "minecraft:crafting_shapeless", "ingredients": [{"item": "minecraft:oak_planks"}], "result": {"item": "minecraft:diamond", "count": 1}}',
    ("Item.summon", "nbt"): "{a: 1}", ("", "color"): '"white"', ("", "functionColor"): '"aqua"', ("", "removeFrom"): "@e",
    ("", "texts"): '["a", "b"]', ("", "lore"): '["l1", "l2"]', ("", "component"): "[a=1]", ("", "baseItem"): "knowledge_book",
    ("", "count"): "2", ("", "spread"): "4", ("", "spreadXZ"): "4", ("", "spreadY"): "2", ("", "stop"): "3", ("", "start"): "1",
    ("", "xMax"): "2", ("", "yMax"): "2", ("", "zMax"): "2", ("", "max"): "9", ("", "tick"): "5", ("", "cache"): "5",
}


def base_value(builtin: str, param: str, argtype: str) -> str:
    best = None
    for (prefix, p_), v in BASE_BY_NAME.items():
        if p_ == param and builtin.startswith(prefix) and v is not None and (best is None or len(prefix) > len(best[0])):
            best = (prefix, v)
    return best[1] if best else BASE_VALUE.get(argtype, "x")


VALUES = ["", "kw", "kw.kw", "a:b", "KW", "k-w", '"s"', '""', '"&<"', '"&<red,bold>t"', '"a\\nb"', "'s'", "`m`", '"$(m)"', "1", "-1", "0",
          "1.5", "-1.5", "1.", ".5", "-", "- 1", "2147483648", "-2147483649", "99999999999999999999", "1e5", "0x10", "007", "1b", "1.5f",
          "true", "$v", "$", "$v.w", "obj:@s", "obj:@a[tag=x]", "obj:", ":@s", "@s", "@a[tag=x]", "@", "@e[", "@s[]", "@x", "[]", "[ ]",
          "[1]", "[1, 2]", '["a", "b"]', '["a", 1]', "[[1]]", '[["a"], ["b"]]', "[,]", "[a=1]", "[a=1, b={c:2}]", "{}", "{ }", "{a:1}",
          '{"a": 1}', '{"a": {"b": [1]}}', '{"a"}', "{a:}", '{1: () => { say "x"; }}', '{"a": () => { say "x"; }}', "()", "(x)", "(1)",
          "() => {}", "() => { }", ARROW, '(a) => { say "$a"; }', '(a, b) => { say "$a"; }', "() =>", "=> {}", '() => { say "x" }',
          "() => { function n() {} }", "f", "f()", "f.g", "x y", "x, y", "k=v", "=", "==", "1 + 2", "1 - ", "Hardcode.calc(1+1)",
          "EVAL(1)", "::", "::p", "::a.b[0]", "::a[{b:1}]", "@s::a", "[0, 0, 0]::a", "a:b::c", "~ ~ ~", "~", "^1", "#x", "..", "1..2", "*",
          "!", "\\", ";", "function", "if", "with", "run", '"("', '"[a"', '"*"', '"\\\\"', '"a b"', '"{"',
          '"&<s>"', '"$v"', '"@s"', '{"id": i}', '{"a": [}', '["&<s(x)>"]']
SHAPES = ["{N};", "{N}();", "{N}( );", "{N}(,);", "{N}(//c\n);", "{N}({P});", "{N}({K});", "{N}({K}, {K});", "{N}({K}, zz=1);",
          "{N}({P}, 1, 2, 3, 4, 5, 6, 7, 8, 9, 10, 11, 12);", "{N}({K0}=);", "{N}(={V0});", "{N}({K0}=={V0});", "{N}({K0}={V0}={V0});",
          "{N}({K}) {N}({K});", "{N}({K})();", "{N}({K}) with ::p;", "{N}({K}) {{}}", "{N}({K},);", "{N}(,{K});", "{N}[{K}];", "{N}{{{K}}};",
          "{N}({K}", "{N}.x({K});", "{N} ({K});", "{N}\n({K});", "{N}({P}, {K});", "{N}({K0}={V0}, {P});"]


# built-ins whose argument is only looked at when ANOTHER statement uses what they define: (name prefix, text in front,
# text behind); the base values are KEYWORD `kw`, STRING `"s"`
AROUND = [
    ("TextProps.", "", ' function u() { Text.tellraw(@a, "&<s(x)>b &<s(1), bold>c"); }'),
    ("TextProp.", "", ' function u() { Text.tellraw(@a, "&<s>a &<s, red>b"); }'),
    ("Item.create", "", ' function u() { Item.give(kw); Item.summon(kw); Item.replaceEntity(kw, @s, "weapon.mainhand"); Item.clear(kw); }'),
    ("GUI.template", "", ' GUI.register(kw, "a", stone); GUI.create(kw); function u() { GUI.run(kw); }'),
    ("GUI.register", 'GUI.template(kw, ["sas"], entity); ', ' GUI.create(kw); function u() { GUI.run(kw); }'),
    ("GUI.create", 'GUI.template(kw, ["sas"], entity); GUI.register(kw, "s", stone); ', ' function u() { GUI.run(kw); }'),
    ("Debug.watch", "", ' function u() { $v = 1; $v += 2; obj:@s = 3; $v := $v * 2; }'),
    ("Timer.add", "", ' function u() { Timer.set(kw, @s, 5); if (Timer.isOver(kw)) { say "x"; } }'),
    ("Team.add", "", ' function u() { Team.prefix(kw, "p"); Team.suffix(kw, "s"); }'),
    ("Bossbar.add", "", ' function u() { Bossbar.setName(kw, "n"); }'),
    ("Scoreboard.add", "", ' function u() { kw:@s = 1; }'),
    ("Predicate.locations", "", ' function u() { if (predicate s) { say "x"; } }'),
]


def _wrap(b, call):
    for prefix, front, behind in AROUND:
        if b["name"].startswith(prefix):
            return front + _wrap0(b, call) + behind
    return _wrap0(b, call)


def _wrap0(b, call):
    t = b["type"]
    if t in ("LOAD_ONLY", "LOAD_ONCE"):
        return call
    if t == "BOOL_FUNCTION":
        c = call.rstrip()
        c = c[:-1] if c.endswith(";") else c
        return 'function f() { if (' + c + ') { say "t"; } }'
    if t == "VARIABLE_OPERATION":
        return "function f() { $r = " + call + " }"
    return "function f() { " + call + " }"


def builtin_matrix(registry):
    for b in registry:
        name, args = b["name"], list(b["args"].items())
        base = {k: base_value(name, k, t) for k, t in args}
        kw = ", ".join(f"{k}={v}" for k, v in base.items())
        pos = ", ".join(base.values())
        k0 = args[0][0] if args else "zz"
        v0 = base.get(k0, "1")
        for sh in SHAPES:
            call = sh.replace("{N}", name).replace("{K0}", k0).replace("{V0}", v0).replace("{K}", kw).replace("{P}", pos) \
                     .replace("{{", "{").replace("}}", "}")
            yield ("builtin_matrix", (name, "shape", sh)), dict(src=_wrap(b, call), header=None, pack_format=None)
        for i, (k, t) in enumerate(args):
            for v in VALUES:
                a = dict(base)
                a[k] = v
                call_kw = name + "(" + ", ".join(f"{kk}={vv}" for kk, vv in a.items()) + ");"
                yield ("builtin_matrix", (name, k, t, "kw", v)), dict(src=_wrap(b, call_kw), header=None, pack_format=None)
                call_pos = name + "(" + ", ".join(list(a.values())[:i + 1]) + ");"
                yield ("builtin_matrix", (name, k, t, "pos", v)), dict(src=_wrap(b, call_pos), header=None, pack_format=None)
        if name.startswith("TextProp"):      # a property defined without / with an index, used the other way round
            for use in ('Text.tellraw(@a, "&<s(x)>b");', 'Text.tellraw(@a, "&<s>a");', 'Text.tellraw(@a, "&<s()>a");',
                        'Text.title(@a, "&<s, s>a");', 'Text.tellraw(@a, "&<!s>a &<s(>b");'):
                for form, a_ in (("kw", kw), ("pos", pos)):
                    yield ("builtin_matrix", (name, "context", form + ":" + use)), dict(
                        src=name + "(" + a_ + "); function u() { " + use + " }", header=None, pack_format=None)
        # the same call under execute / as a value / as a condition (wrong-context forms)
        for ctx in ("execute as @a run %s", "$r = %s", "if (%s) { say \"t\"; }", "return %s", "%s", "execute if %s run say \"t\";"):
            call = name + "(" + kw + ")" + ("" if ctx.startswith(("if", "execute if")) else ";")
            yield ("builtin_matrix", (name, "context", ctx)), dict(src="function f() { " + ctx % call + " }", header=None, pack_format=None)


# ------------------------------------------------------------------------------------------------ arithmetic
ARITH_TOKENS = ["0", "1", "2", "(", ")", "+", "-", "*", "/", "%", "**", "//", " "]
DEGENERATE = ["", " ", "()", "( )", "(())", "(1+)", "(+1)", "(1 2)", "1 2", "(1%0)", "1%0", "1/0", "1//0", "1\\0", "(1/0)", "0/0", "0**-1", "0**0",
              "9**9**9", "(9**9)**9", "9**(9**9)", "2**99999999", "2**9999", "10**4300", "10**4299", "99**4000", "-2**99999999",
              "(-2)**99999999", "3**99999999", "(-3)**99999999", "(0-7)**77777777", "1**99999999999", "0**99999999999", "(-1)**99999999999", "2**-99999999", "(1/3)**-9999", "(1/2)**9999",
              "10**400/3", "10**400*1.5", "10**400/10**399", "(-8)**(1/3)", "(-8)**0.5", "((-8)**(1/2))%2", "((-8)**(1/2))//1", "2**0.5",
              "1e5", "1e999", "1e999-1e999", "1.5", "1.", ".5", "007", "0x10", "0b1", "1_000", "1j", "1 if 1 else 2", "1,2", "(1,2)", "[1]",
              "{1}", "a", "x+1", "$i", "$i+", "N", "-", "--", "---1", "-(-(-1))", "+", "++1", "~1", "1<<2", "1>>2", "1&2", "1|2", "1^2",
              "1@2", "1<2", "1==1", "not 1", "1 and 2", "*1", "**1", "1**", "1*", "/1", "%1", "1%", "1+*2", "1*/2", "1***2", "1////2",
              "1/\\2", "(1", "1)", ")(", "((1)", "(1))", "1+(2", "2(3)", "(1)(2)", "1 (2)", "(1)()", "1.__class__", "__import__('os')",
              "1\n+\n2", "1\t+2", "1;2", "1#2", "'1'", "\"1\"", "1\"", "9" * 5000, "1" + "0" * 4300, "(" * 50 + "1" + ")" * 50,
              "(" * 300 + "1" + ")" * 300, "-" * 300 + "1", "1" + "+1" * 300, "1" + "+1" * 3000, "2" + "**2" * 10, "2" + "**2" * 5, "2" + "*2" * 2000,
              "9**9999*9**9999*9**9999", "1" + "*9**4500" * 100]
ARITH_SITES = [
    ("calc-string", None, 'Hardcode.repeat((i) => { say "v=Hardcode.calc(%s)"; }, start=1, stop=3);'),
    ("calc-value", None, 'Hardcode.repeat((i) => { $m = Hardcode.calc(%s); }, start=1, stop=3);'),
    ("calc-index", None, 'Hardcode.repeat((i) => { $m = Hardcode.calc($i + %s); }, start=1, stop=2);'),
    ("calc-lazy", None, '@lazy function l(a) { say "Hardcode.calc(%s)"; } function f() { l(1); }'),
    ("calc-switch", None, 'function f() { Hardcode.switch($v, (i) => { say "Hardcode.calc(%s)"; }, count=2); }'),
    ("calc-macro", "#define N 5", 'Hardcode.repeat((i) => { say "Hardcode.calc(N * %s)"; }, start=1, stop=2);'),
    ("eval", "#bind EVAL", "function f() { $x = EVAL(%s); }"),
    ("eval-define", "#bind EVAL\n#define K EVAL(%s)", "function f() { $x = K; }"),
    ("eval-deep", "#bind EVAL\n#deepdefine T(x) EVAL(x * %s)", "function f() { $x = T(3); }"),
    ("eval-arg", "#bind EVAL", "function f() { $r = Math.random(min=EVAL(%s), max=9); }"),
    ("not", "#bind NOT", "function f() { $x = NOT(%s); }"),
    ("expr", None, "function f() { $x := %s; }"),
    ("expr-var", None, "function f() { $x := $y + %s; }"),
    ("expr-compound", None, "function f() { $x :*= %s; }"),
    ("expr-pow", None, "function f() { $x := $y ** %s; }"),
    ("repeat-start", None, 'Hardcode.repeat((i) => { say "$i"; }, start=%s, stop=3);'),
    ("assign", None, "function f() { $x = %s; }"),
    ("cond", None, 'function f() { if ($x == %s) { say "t"; } }'),
]


def gen_expr(rng, depth=0):
    r = rng.random()
    if depth > 3 or r < 0.3:
        return rng.choice(["0", "1", "2", "3", "10", "-1", "99", "2147483647", "4294967296", "007", "1.5"])
    if r < 0.45:
        return "(" + gen_expr(rng, depth + 1) + ")"
    if r < 0.52:
        return rng.choice(["-", "+", "--", "~", ""]) + gen_expr(rng, depth + 1)
    if r < 0.58:     # degenerate piece
        return rng.choice(["", "()", "(", ")", "1 2", "+", "**", "/0", "%0"])
    op = rng.choice(["+", "-", "*", "/", "%", "**", "//", "\\", " ", "* *", "/ /"])
    sp = rng.choice(["", " "])
    return gen_expr(rng, depth + 1) + sp + op + sp + gen_expr(rng, depth + 1)


def arithmetic(rng, n_random):
    exprs = [("degenerate", e) for e in DEGENERATE]
    small = [""]
    for _ in range(3):
        small = [s + t for s in small for t in ARITH_TOKENS]
        exprs += [("exhaustive", s) for s in small]
    exprs += [("random", gen_expr(rng)) for _ in range(n_random)]
    seen = set()
    for kind, e in exprs:
        if e in seen:
            continue
        seen.add(e)
        for sname, hdr, tmpl in ARITH_SITES:
            if "\"" in e and "calc-string" in sname:
                continue
            if kind == "exhaustive" and sname not in ("calc-string", "calc-value", "eval", "expr", "eval-define", "expr-compound"):
                continue
            src = tmpl.replace("%s", e)
            header = hdr.replace("%s", e) if hdr else hdr
            yield ("arithmetic", (sname, kind, len(e) if kind == "exhaustive" else e[:12])), dict(src=src, header=header, pack_format=None)


# ------------------------------------------------------------------------------------------------ stress (hang detector)
def stress(tier: str):
    """(name, size, job): cost of every one of these should be (near-)linear in `size`"""
    k = 1 if tier == "quick" else 4
    out = []

    def add(name, size, src, header=None):
        out.append((name, size, dict(src=src, header=header, pack_format=None)))

    rep = 'Hardcode.repeat((i) => { say "Hardcode.calc(%s)"; }, start=1, stop=2);'
    pows = ["9**9**9", "(-3)**999999999", "(2**9999)**9999", "1" + "*9**4507" * 300, "2**999999999", "10**10**10", "2**(2**40)", "-2**2**31", "3**3**3**3",
            "7**77777777%5", "2**2**2**2**2**2", "(9**9999)*(9**9999)*(9**9999)*(9**9999)", "9" * 20000, "2" + "**2" * 8]
    for e in pows[:4 if tier == "quick" else None]:      # (every one that hangs costs a whole alarm)
        add("pow:calc:" + e[:24], len(e), rep % e)
        add("pow:eval:" + e[:24], len(e), "function f() { $x = EVAL(%s); }" % e, "#bind EVAL")
        add("pow:expr:" + e[:24], len(e), "function f() { $x := %s; }" % e)
        if tier != "quick":     # (a huge constant exponent: the listed finding C13-unbounded-count; every one costs a whole alarm)
            add("pow:expr-var:" + e[:24], len(e), "function f() { $x := $y ** (%s); }" % e)
    for e in ["$y ** 2147483647", "$y ** 99999999", "$y ** 4294967296", "$y * 2147483647 ** 2147483647", "2 ** $y"][:5 if tier != "quick" else 2]:
        add("pow:var:" + e, len(e), "function f() { $x := %s; }" % e)
    for n in (100 * k, 400 * k):
        add("chain:expr-plus", n, "function f() { $x := 1" + " + 1" * n + "; }")
        add("chain:expr-vars", n, "function f() { $x := $a" + " + $a" * n + "; }")
        add("chain:expr-mul-vars", n, "function f() { $x := $a" + " * $b" * n + "; }")
        add("chain:calc", n, rep % ("1" + "+1" * n))
        add("chain:eval", n, "function f() { $x = EVAL(1" + "+1" * n + "); }", "#bind EVAL")
        add("chain:and", n, "function f() { if ($a == 1" + " && $a == 1" * n + ') { say "t"; } }')
        add("chain:or", n, "function f() { if ($a == 1" + " || $a == 1" * n + ') { say "t"; } }')
        add("chain:and-or", n, "function f() { if (" + " || ".join("($a == 1 && $b == 2)" for _ in range(n)) + ') { say "t"; } }')
        add("chain:not", min(n, 150), "function f() { if (" + "!" * min(n, 150) + '$a == 1) { say "t"; } }')
        add("chain:else-if", n, "function f() { if ($a == 0) { say \"0\"; }" + "".join(' else if ($a == %d) { say "x"; }' % i for i in range(1, n)) + " }")
        add("many:statements", 10 * n, "function f() { " + 'say "x"; ' * (10 * n) + "}")
        add("many:functions", n, "".join('function f%d() { say "x"; } ' % i for i in range(n)))
        add("many:cases", n, "function f() { switch ($x) { " + "".join('case %d: say "x"; break; ' % i for i in range(1, n + 1)) + "} }")
        add("many:list", 10 * n, "function f() { tellraw @a [" + ", ".join('"a"' for _ in range(10 * n)) + "]; }")
        add("many:args", n, "function f() { Text.tellraw(@a, " + ", ".join('"a"' for _ in range(n)) + "); }")
        add("many:macro-uses", 5 * n, "function f() { " + "say A; " * (5 * n) + "}", "#define A \"a\"")
        add("many:header-lines", n, 'function f() { say "a"; }', "\n".join("#define A%d %d" % (i, i) for i in range(n)))
        add("long:string", 100 * n, 'function f() { say "' + "a" * (100 * n) + '"; }')
        add("long:formatted", 10 * n, 'function f() { Text.tellraw(@a, "' + "&<red>a" * (2 * n) + '"); }')
        add("long:keyword", 100 * n, "function f() { say " + "a" * (100 * n) + "; }")
        add("long:path", n, "function f() { ::a" + ".b" * n + " = 1; }")
        add("long:minus", n, "function f() { $x = " + "-" * n + "1; }")
        add("long:selector", n, "function f() { say @a[" + ",".join("tag=t%d" % i for i in range(n)) + "]; }")
    for d in (30 * k, 90 * k):
        add("deep:paren-expr", d, "function f() { $x := " + "(" * d + "1" + ")" * d + "; }")
        add("deep:calc", d, rep % ("(" * d + "1" + ")" * d))
        add("deep:nbt", d, "function f() { ::a = " + "{a:" * d + "1" + "}" * d + "; }")
        add("deep:json", d, "new advancements(a) " + '{"a":' * d + "1" + "}" * d)
        add("deep:arrow", min(d, 60), "function f() { " + "Hardcode.repeat((i) => { " * min(d, 60) + 'say "x";' + " }, start=0, stop=1);" * min(d, 60) + " }")
        add("deep:execute", d, "function f() { " + "execute as @a run { " * d + 'say "x";' + " }" * d + " }")
        add("deep:macro", d, "function f() { $x = A%d; }" % (d - 1), "#define A0 1\n" + "\n".join("#define A%d A%d" % (i, i - 1) for i in range(1, d)))
    for n in (8 * (1 + k // 2), 16 * (1 + k // 2)):
        add("nested:repeat3", n ** 3, 'Hardcode.repeat((a) => { Hardcode.repeat((b) => { Hardcode.repeat((c) => { say "$a $b $c"; }, start=0, stop=%d); }, '
                                    'start=0, stop=%d); }, start=0, stop=%d);' % (n, n, n))
        add("nested:macro-fanout", 2 ** min(n // 2, 14), "function f() { say A%d; }" % min(n // 2, 14),
            "#define A0 \"a\"\n" + "\n".join("#define A%d A%d A%d" % (i, i - 1, i - 1) for i in range(1, min(n // 2, 14) + 1)))
    return out


# ------------------------------------------------------------------------------------------------ quick-tier sampling
_HUGE_POWER = re.compile(r"\*\*[\s(]*-?\d{5,}|\*\*[^;\"]*\*\*|\d{300,}")


def quick_sample(stream: str, items: list, rng) -> list:
    """seeded sample for the quick tier; always: every cheap exhaustive part, and one member of every cell"""
    if stream == "nested_decls":
        return items
    keep, cells, huge = [], {}, {}
    for it in items:
        (st, cell), job = it
        if stream == "header_forms":
            always = cell[1] != "2"                                   # bare forms and one-argument forms: all
            key = (cell[0], cell[2])                                  # two-argument forms: per (directive, source)
            quota = 6
        elif stream == "builtin_matrix":
            always = cell[1] in ("shape", "context")
            key = (cell[0], cell[1]) if not always else None          # per (built-in, parameter)
            quota = 10
        else:   # arithmetic
            if cell[1] == "degenerate" and _HUGE_POWER.search(job["src"] + (job["header"] or "")):
                # candidates for an unbounded power: each costs a whole alarm where it hangs - three sites per expression,
                # one Hardcode.calc site, one EVAL site, one `:=` site (the sites that evaluate)
                fam = "calc" if cell[0].startswith("calc") else "eval" if cell[0].startswith("eval") else "expr" if cell[0].startswith("expr") else None
                if fam:
                    huge.setdefault((job["src"].count("*") and cell[2], fam), []).append(it)
                continue
            always = cell[1] == "degenerate" or (cell[1] == "exhaustive" and isinstance(cell[2], int) and cell[2] <= 2)
            key = (cell[0], cell[1])
            quota = 40 if cell[1] == "exhaustive" else 10
        if always:
            keep.append(it)
        else:
            cells.setdefault(key, (quota, []))[1].append(it)
    extra = []
    for n, key in enumerate(sorted(huge, key=str)):
        members = huge[key]
        extra.append(members[n % len(members)])
    for key in sorted(cells, key=str):
        quota, members = cells[key]
        extra += rng.sample(members, min(quota, len(members)))
    if stream == "builtin_matrix":
        # and every (ArgType of the parameter, value, keyword/positional) at least once over all built-ins
        seen = {(c[2], c[4], c[3]) for (st, c), _ in extra if len(c) == 5}
        rest = [it for it in items if len(it[0][1]) == 5]
        rng.shuffle(rest)
        for it in rest:
            c = it[0][1]
            if (c[2], c[4], c[3]) not in seen:
                seen.add((c[2], c[4], c[3]))
                extra.append(it)
    return keep + extra
