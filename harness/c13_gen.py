"""Generated input streams of the C13 check that are not single edits of a corpus program (triage round 5).

Every stream yields jobs `dict(src, header, pack_format)` with a label `(stream, cell)`; the check runs all of them in the
thorough tier and a seeded, cell-stratified sample in the quick tier (every cell at least once).

 header_forms      every header directive of the tree under test (read from header_parse.py) x argument lists from a small
                   alphabet (0, 1, 2 tokens) x spacing / trailing-comment forms, and the directive-less forms `#`, `# `,
                   `#//`, `# //`; alone and between two valid lines; over four sources that use / do not use the name
 nested_decls      a declaration (function, decorated function, class, new, import) at EVERY gap of every block statement
                   (if / else-if / else, while, do-while, for, switch cases, execute run {}, expand, arrow function,
                   async, with): before, between the parts (`do {} HERE while ()`, `if {} HERE else {}`), first / last
                   inside each block, after
 builtin_matrix    every built-in of the registry of the tree under test (c13_run.py op "builtins") x every parameter x
                   a value grammar (values of every ArgType, odd shapes of each) in keyword and positional form, plus call
                   shapes (no bracket, empty, blank, duplicate / unknown keyword, `k=`, `=v`, `k==v`, too many arguments)
 arithmetic        compile-time arithmetic sites (`Hardcode.calc(E)` in a string / as a value, in Hardcode.repeat and @lazy
                   bodies, `EVAL(E)`, `#define K EVAL(E)`, `:=` and its compound forms, `Hardcode.repeat(start=E)`) x E from
                   a grammar: exhaustively all token strings up to length 3 over {0 1 2 ( ) + - * / % ** //}, a list of
                   degenerate forms (`1/0`, `()`, `(1+)`, `1 2`, `1%0`, `0**-1`, `9**9**9` ...), random deeper expressions
 vanilla_macros    (strengthening round 4) vanilla macro tokens `$(name)` at EVERY operand position of every condition form
                   (score / entity / block / data / predicate / custom comparisons / boolean combinations) under every
                   construct that takes a condition (`if`, `$if`, `while`, `do..while`, `for`, `async while`, `execute if /
                   unless` with and without brackets, `$execute`), of selectors, scores, NBT paths, function-call arguments
                   and `$`-prefixed statements (`$say`, `$tp`, `$execute`, `$data`, `$function` ...): 1..3 macros per
                   construct, in every spelling (bare, connected suffix `$(p)_x`, connected prefix `a$(p)`, two in a row
                   `$(a)$(b)`, with a gap `$ (a)`, empty, nested, unbalanced, inside strings / ranges / paths)
 custom_commands   (round 4) `#command W` for the words the command optimiser / first-argument logic looks at (`as`, `run`,
                   `execute`, `return`, `positioned` ...) x short statements that start with / contain W
 self_reference    (round 4) compile-time expansions that refer to themselves: @lazy / @if functions calling themselves directly,
                   through each other, inside blocks / execute / arguments; `#deepdefine` macros that expand to themselves
                   (directly, mutually, inside brackets, with fan-out), `#define` chains
 new_json          (round 4) `new <type>(name) [extends (..)] [stringify (paths)] <json>`: paths through objects, lists,
                   numbers, strings, null x JSON shapes
 builtin_pairs     (round 4) TWO arguments of a built-in varied together: arrow-function arity x list / object shapes, and
                   small grids over every pair of integer parameters (`count` below `begin_at`, `stop` below `start` ...)
 stress            the hang detector's own inputs: size-parameterised programs whose cost could be super-linear (towers of
                   powers, huge exponents / literals, long operator and condition chains, deep brackets, long else-if
                   chains, many cases / statements / list elements, nested Hardcode.repeat); run under a longer alarm;
                   the wall time per program is recorded in the evidence
"""
from __future__ import annotations

import re
from pathlib import Path

# ------------------------------------------------------------------------------------------------ header forms
FALLBACK_DIRECTIVES = ["define", "deepdefine", "bind", "credit", "include", "command", "del", "override", "uninstall", "static",
                       "nometa", "enum", "env", "forcebst", "show_private_command", "link", "resource"]
HEADER_ARGS = ["X", "X(a)", "X(a, b)", "X()", "X (a)", "(", ")", "()", "(a)", "1", "-1", '"s"', "'s'", "x y", "=", "#", ",", "$x", "@s",
               "{}", "[]", "EVAL", "NOT", "__namespace__", "__UUID__", "minecraft", "give", "\\", "X.Y", "a:b", "-", "1 2 3", ";",
               "X;", "`m`", "..", "*"]
HEADER_ARGS2 = ["X", "X(a)", "()", "1", "-1", '"s"', "=", "#", ",", "EVAL", "x y", "a", "(a) a", "EVAL(1/0)", "EVAL(9**9**9)",
                "EVAL()", "X X", "//", "\\"]
HEADER_SOURCES = ['function f() { say "a"; }', 'function f() { $v = X; }', '$v = X(1);', 'X(1, 2);']


def directives(repo: Path) -> list[str]:
    """directive names the header parser of the tree under test compares against"""
    try:
        text = (repo / "src" / "jmc" / "compile" / "header_parse.py").read_text(encoding="utf-8")
    except OSError:
        return list(FALLBACK_DIRECTIVES)
    found = []
    for m in re.finditer(r"directive_token\.string\s*(?:==\s*\"([A-Za-z_]+)\"|in\s*[\(\{\[]([^\)\}\]]*)[\)\}\]])", text):
        names = [m.group(1)] if m.group(1) else re.findall(r"\"([A-Za-z_]+)\"", m.group(2))
        for n in names:
            if n not in found:
                found.append(n)
    for n in FALLBACK_DIRECTIVES:
        if n not in found:
            found.append(n)
    return found


def header_forms(repo: Path):
    ds = directives(repo) + ["", "zz", "Define", "define2"]
    lines = []
    for d in ds:
        base = "#" + d
        lines += [(d, "bare", base), (d, "bare", "# " + d), (d, "bare", base + " "), (d, "bare", base + "//c"),
                  (d, "bare", base + " // c"), (d, "bare", "#\t" + d + "\t"), (d, "bare", " " + base), (d, "bare", base + "\r")]
        for a in HEADER_ARGS:
            lines.append((d, "1:" + a, base + " " + a))
        for a in HEADER_ARGS[:12]:
            lines.append((d, "1c:" + a, base + " " + a + " // c"))
            lines.append((d, "1g:" + a, base + a))
        for a in HEADER_ARGS2:
            for b in HEADER_ARGS2:
                lines.append((d, "2:" + a + "|" + b, base + " " + a + " " + b))
    for n, (d, form, line) in enumerate(lines):
        for k, src in enumerate(HEADER_SOURCES):
            hdr = line if (n + k) % 2 == 0 else "#define A 1\n" + line + "\n#define B A"
            yield ("header_forms", (d, form.split(":")[0], k)), dict(src=src, header=hdr, pack_format=None)


# ------------------------------------------------------------------------------------------------ nested declarations
DECLS = ['function n() {}', 'function n() { say "n"; }', 'function n() { if ($q == 1) { say "n"; } }', '@lazy function n(a) { say "$a"; }',
         '@add(__tick__) function n() { say "n"; }', '@add(__tick__) function n() {}', 'class c {}', 'class c { function n() { say "n"; } }',
         'new advancements(n) {}', 'new advancements(n) { "criteria": {} }', 'import "x";', 'function n() {', 'function n()',
         'function n', 'function', '@lazy', '@lazy function n() {}', 'new', 'class', 'function n() { do { say "n"; } }',
         'function n() { if ($q == 1) { say "n"; } else }']
# block statements as lists of parts; a declaration is put at every gap (between parts), parts that end in `{` open a block
BLOCKS = {
    "if": ['if ($x == 1) {', 'say "a";', '}'],
    "if-else": ['if ($x == 1) {', 'say "a";', '}', 'else {', 'say "b";', '}'],
    "if-elif-else": ['if ($x == 1) {', 'say "a";', '}', 'else if ($x == 2) {', 'say "b";', '}', 'else {', 'say "c";', '}'],
    "if-or": ['if ($x == 1 || $y == 2) {', 'say "a";', '}', 'else if ($x == 2 || $y == 3) {', 'say "b";', '}'],
    "while": ['while ($x < 3) {', '$x++;', '}'],
    "do-while": ['do {', '$x++;', '}', 'while ($x < 3);'],
    "for": ['for ($i = 0; $i < 3; $i++) {', 'say "i";', '}'],
    "switch": ['switch ($x) {', 'case 1:', 'say "a";', 'break;', 'case 2:', 'say "b";', '}'],
    "execute-run": ['execute as @a run {', 'say "a";', '}'],
    "execute-expand": ['execute as @a expand {', 'say "a";', 'say "b";', '}'],
    "arrow": ['Hardcode.repeat((i) => {', 'say "$i";', '}', ', start=0, stop=2);'],
    "async-while": ['async while ($x < 3) {', '$x++;', '}', '1t;'],
    "with": ['execute as @a run {', 'say "a";', '}', 'with ::p;'],
    "return-run": ['return run {', 'say "a";', '}'],
    "nested-if-do": ['if ($x == 1) {', 'do {', '$x++;', '}', 'while ($x < 3);', '}'],
    "schedule": ['schedule 1t {', 'say "a";', '}'],
}


def nested_decls():
    for bname, parts in BLOCKS.items():
        for g in range(len(parts) + 1):
            for dn, d in enumerate(DECLS):
                body = " ".join(parts[:g] + [d] + parts[g:])
                yield ("nested_decls", (bname, g, "fn")), dict(src="function f() { " + body + ' say "z"; }', header=None, pack_format=None)
                if dn < 11:
                    yield ("nested_decls", (bname, g, "load")), dict(src=body + ' say "z";', header=None, pack_format=None)
                    yield ("nested_decls", (bname, g, "class")), dict(src="class k { function f() { " + body + " } }", header=None,
                                                                      pack_format=None)


# ------------------------------------------------------------------------------------------------ built-in argument matrix
ARROW = '() => { say "cb"; }'
BASE_VALUE = dict(KEYWORD="kw", STRING='"s"', INTEGER="1", FLOAT="1.5", SELECTOR="@s", FUNC=ARROW, ARROW_FUNC=ARROW, _FUNC_CALL=ARROW,
                  LIST='["a"]', JS_OBJECT='{"a": "b"}', JSON='{"a": 1}', NBT="::p", SCOREBOARD="$v", SCOREBOARD_INT="$v",
                  COMPONENT="[a=1]", ANY="x")
# parameter names whose KEYWORD / list / object value is checked against a vocabulary or a shape: (built-in prefix, parameter) -> value
BASE_BY_NAME = {
    ("", "mode"): "normal", ("GUI.template", "mode"): "entity", ("Timer.add", "mode"): "runOnce", ("", "align"): "corner",
    ("", "local"): "false", ("", "src"): "true", ("", "allowMissing"): "false", ("", "interpret"): "false", ("", "jmc"): "false",
    ("Advancement", "type"): "everything", ("", "criteria"): "dummy", ("", "variant"): "oak", ("", "itemType"): "stone", ("Item.createUse", "itemType"): "carrot_on_a_stick",
    ("", "mobType"): "pig", ("GUI.register", "item"): "stone", ("", "nbt"): None, ("Item", "nbt"): "{a: 1}", ("GUI", "nbt"): "{a: 1}",
    ("", "functionMap"): '{1: () => { say "a"; }}', ("", "triggers"): '{1: () => { say "a"; }, 2: () => { say "b"; }}',
    ("", "properties"): "{color: red}", ("GUI.registers", "items"): "[stone, dirt]", ("", "template"): '["sas"]',
    ("", "stringLists"): '[["a", "b"]]', ("TextProp", "function"): "() => { tp @s ~ ~ ~; }", ("", "startAtEye"): "true",
    ("", "stopAtEntity"): "true", ("", "stopAtBlock"): "true", ("", "isFrontGlow"): "false", ("", "isBackGlow"): "false",
    ("", "pythonCode"): "`emit('say 1')`", ("", "regex"): '".*"', ("", "slot"): '"weapon.mainhand"', ("", "pos"): '"~ ~ ~"',
    ("", "recipe"): '{"type": "minecraft:crafting_shapeless", "ingredients": [{"item": "minecraft:oak_planks"}], "result": {"item": "minecraft:diamond", "count": 1}}',
    ("Item.summon", "nbt"): "{a: 1}", ("", "color"): '"white"', ("", "functionColor"): '"aqua"', ("", "removeFrom"): "@e",
    ("", "texts"): '["a", "b"]', ("", "lore"): '["l1", "l2"]', ("", "component"): "[a=1]", ("", "baseItem"): "knowledge_book",
    ("", "count"): "2", ("", "spread"): "4", ("", "spreadXZ"): "4", ("", "spreadY"): "2", ("", "stop"): "3", ("", "start"): "1",
    ("", "xMax"): "2", ("", "yMax"): "2", ("", "zMax"): "2", ("", "max"): "9", ("", "tick"): "5", ("", "cache"): "5",
}


def base_value(builtin: str, param: str, argtype: str) -> str:
    best = None
    for (prefix, p_), v in BASE_BY_NAME.items():
        if p_ == param and builtin.startswith(prefix) and v is not None and (best is None or len(prefix) > len(best[0])):
            best = (prefix, v)
    return best[1] if best else BASE_VALUE.get(argtype, "x")


VALUES = ["", "kw", "kw.kw", "a:b", "KW", "k-w", '"s"', '""', '"&<"', '"&<red,bold>t"', '"a\\nb"', "'s'", "`m`", '"$(m)"', "1", "-1", "0",
          "1.5", "-1.5", "1.", ".5", "-", "- 1", "2147483648", "-2147483649", "99999999999999999999", "1e5", "0x10", "007", "1b", "1.5f",
          "true", "$v", "$", "$v.w", "obj:@s", "obj:@a[tag=x]", "obj:", ":@s", "@s", "@a[tag=x]", "@", "@e[", "@s[]", "@x", "[]", "[ ]",
          "[1]", "[1, 2]", '["a", "b"]', '["a", 1]', "[[1]]", '[["a"], ["b"]]', "[,]", "[a=1]", "[a=1, b={c:2}]", "{}", "{ }", "{a:1}",
          '{"a": 1}', '{"a": {"b": [1]}}', '{"a"}', "{a:}", '{1: () => { say "x"; }}', '{"a": () => { say "x"; }}', "()", "(x)", "(1)",
          "() => {}", "() => { }", ARROW, '(a) => { say "$a"; }', '(a, b) => { say "$a"; }', "() =>", "=> {}", '() => { say "x" }',
          "() => { function n() {} }", "f", "f()", "f.g", "x y", "x, y", "k=v", "=", "==", "1 + 2", "1 - ", "Hardcode.calc(1+1)",
          "EVAL(1)", "::", "::p", "::a.b[0]", "::a[{b:1}]", "@s::a", "[0, 0, 0]::a", "a:b::c", "~ ~ ~", "~", "^1", "#x", "..", "1..2", "*",
          "!", "\\", ";", "function", "if", "with", "run", '"("', '"[a"', '"*"', '"\\\\"', '"a b"', '"{"',
          '"&<s>"', '"$v"', '"@s"', '{"id": i}', '{"a": [}', '["&<s(x)>"]']
SHAPES = ["{N};", "{N}();", "{N}( );", "{N}(,);", "{N}(//c\n);", "{N}({P});", "{N}({K});", "{N}({K}, {K});", "{N}({K}, zz=1);",
          "{N}({P}, 1, 2, 3, 4, 5, 6, 7, 8, 9, 10, 11, 12);", "{N}({K0}=);", "{N}(={V0});", "{N}({K0}=={V0});", "{N}({K0}={V0}={V0});",
          "{N}({K}) {N}({K});", "{N}({K})();", "{N}({K}) with ::p;", "{N}({K}) {{}}", "{N}({K},);", "{N}(,{K});", "{N}[{K}];", "{N}{{{K}}};",
          "{N}({K}", "{N}.x({K});", "{N} ({K});", "{N}\n({K});", "{N}({P}, {K});", "{N}({K0}={V0}, {P});"]


# built-ins whose argument is only looked at when ANOTHER statement uses what they define: (name prefix, text in front,
# text behind); the base values are KEYWORD `kw`, STRING `"s"`
AROUND = [
    ("TextProps.", "", ' function u() { Text.tellraw(@a, "&<s(x)>b &<s(1), bold>c"); }'),
    ("TextProp.", "", ' function u() { Text.tellraw(@a, "&<s>a &<s, red>b"); }'),
    ("Item.create", "", ' function u() { Item.give(kw); Item.summon(kw); Item.replaceEntity(kw, @s, "weapon.mainhand"); Item.clear(kw); }'),
    ("GUI.template", "", ' GUI.register(kw, "a", stone); GUI.create(kw); function u() { GUI.run(kw); }'),
    ("GUI.register", 'GUI.template(kw, ["sas"], entity); ', ' GUI.create(kw); function u() { GUI.run(kw); }'),
    ("GUI.create", 'GUI.template(kw, ["sas"], entity); GUI.register(kw, "s", stone); ', ' function u() { GUI.run(kw); }'),
    ("Debug.watch", "", ' function u() { $v = 1; $v += 2; obj:@s = 3; $v := $v * 2; }'),
    ("Timer.add", "", ' function u() { Timer.set(kw, @s, 5); if (Timer.isOver(kw)) { say "x"; } }'),
    ("Team.add", "", ' function u() { Team.prefix(kw, "p"); Team.suffix(kw, "s"); }'),
    ("Bossbar.add", "", ' function u() { Bossbar.setName(kw, "n"); }'),
    ("Scoreboard.add", "", ' function u() { kw:@s = 1; }'),
    ("Predicate.locations", "", ' function u() { if (predicate s) { say "x"; } }'),
]


def _wrap(b, call):
    for prefix, front, behind in AROUND:
        if b["name"].startswith(prefix):
            return front + _wrap0(b, call) + behind
    return _wrap0(b, call)


def _wrap0(b, call):
    t = b["type"]
    if t in ("LOAD_ONLY", "LOAD_ONCE"):
        return call
    if t == "BOOL_FUNCTION":
        c = call.rstrip()
        c = c[:-1] if c.endswith(";") else c
        return 'function f() { if (' + c + ') { say "t"; } }'
    if t == "VARIABLE_OPERATION":
        return "function f() { $r = " + call + " }"
    return "function f() { " + call + " }"


def builtin_matrix(registry):
    for b in registry:
        name, args = b["name"], list(b["args"].items())
        base = {k: base_value(name, k, t) for k, t in args}
        kw = ", ".join(f"{k}={v}" for k, v in base.items())
        pos = ", ".join(base.values())
        k0 = args[0][0] if args else "zz"
        v0 = base.get(k0, "1")
        for sh in SHAPES:
            call = sh.replace("{N}", name).replace("{K0}", k0).replace("{V0}", v0).replace("{K}", kw).replace("{P}", pos) \
                     .replace("{{", "{").replace("}}", "}")
            yield ("builtin_matrix", (name, "shape", sh)), dict(src=_wrap(b, call), header=None, pack_format=None)
        for i, (k, t) in enumerate(args):
            for v in VALUES:
                a = dict(base)
                a[k] = v
                call_kw = name + "(" + ", ".join(f"{kk}={vv}" for kk, vv in a.items()) + ");"
                yield ("builtin_matrix", (name, k, t, "kw", v)), dict(src=_wrap(b, call_kw), header=None, pack_format=None)
                call_pos = name + "(" + ", ".join(list(a.values())[:i + 1]) + ");"
                yield ("builtin_matrix", (name, k, t, "pos", v)), dict(src=_wrap(b, call_pos), header=None, pack_format=None)
        if name.startswith("TextProp"):      # a property defined without / with an index, used the other way round
            for use in ('Text.tellraw(@a, "&<s(x)>b");', 'Text.tellraw(@a, "&<s>a");', 'Text.tellraw(@a, "&<s()>a");',
                        'Text.title(@a, "&<s, s>a");', 'Text.tellraw(@a, "&<!s>a &<s(>b");'):
                for form, a_ in (("kw", kw), ("pos", pos)):
                    yield ("builtin_matrix", (name, "context", form + ":" + use)), dict(
                        src=name + "(" + a_ + "); function u() { " + use + " }", header=None, pack_format=None)
        # the same call under execute / as a value / as a condition (wrong-context forms)
        for ctx in ("execute as @a run %s", "$r = %s", "if (%s) { say \"t\"; }", "return %s", "%s", "execute if %s run say \"t\";"):
            call = name + "(" + kw + ")" + ("" if ctx.startswith(("if", "execute if")) else ";")
            yield ("builtin_matrix", (name, "context", ctx)), dict(src="function f() { " + ctx % call + " }", header=None, pack_format=None)


# ------------------------------------------------------------------------------------------------ arithmetic
ARITH_TOKENS = ["0", "1", "2", "(", ")", "+", "-", "*", "/", "%", "**", "//", " "]
DEGENERATE = ["", " ", "()", "( )", "(())", "(1+)", "(+1)", "(1 2)", "1 2", "(1%0)", "1%0", "1/0", "1//0", "1\\0", "(1/0)", "0/0", "0**-1", "0**0",
              "9**9**9", "(9**9)**9", "9**(9**9)", "2**99999999", "2**9999", "10**4300", "10**4299", "99**4000", "-2**99999999",
              "(-2)**99999999", "3**99999999", "(-3)**99999999", "(0-7)**77777777", "1**99999999999", "0**99999999999", "(-1)**99999999999", "2**-99999999", "(1/3)**-9999", "(1/2)**9999",
              "10**400/3", "10**400*1.5", "10**400/10**399", "(-8)**(1/3)", "(-8)**0.5", "((-8)**(1/2))%2", "((-8)**(1/2))//1", "2**0.5",
              "1e5", "1e999", "1e999-1e999", "1.5", "1.", ".5", "007", "0x10", "0b1", "1_000", "1j", "1 if 1 else 2", "1,2", "(1,2)", "[1]",
              "{1}", "a", "x+1", "$i", "$i+", "N", "-", "--", "---1", "-(-(-1))", "+", "++1", "~1", "1<<2", "1>>2", "1&2", "1|2", "1^2",
              "1@2", "1<2", "1==1", "not 1", "1 and 2", "*1", "**1", "1**", "1*", "/1", "%1", "1%", "1+*2", "1*/2", "1***2", "1////2",
              "1/\\2", "(1", "1)", ")(", "((1)", "(1))", "1+(2", "2(3)", "(1)(2)", "1 (2)", "(1)()", "1.__class__", "__import__('os')",
              "1\n+\n2", "1\t+2", "1;2", "1#2", "'1'", "\"1\"", "1\"", "9" * 5000, "1" + "0" * 4300, "(" * 50 + "1" + ")" * 50,
              "(" * 300 + "1" + ")" * 300, "-" * 300 + "1", "1" + "+1" * 300, "1" + "+1" * 3000, "2" + "**2" * 10, "2" + "**2" * 5, "2" + "*2" * 2000,
              "9**9999*9**9999*9**9999", "1" + "*9**4500" * 100]
ARITH_SITES = [
    ("calc-string", None, 'Hardcode.repeat((i) => { say "v=Hardcode.calc(%s)"; }, start=1, stop=3);'),
    ("calc-value", None, 'Hardcode.repeat((i) => { $m = Hardcode.calc(%s); }, start=1, stop=3);'),
    ("calc-index", None, 'Hardcode.repeat((i) => { $m = Hardcode.calc($i + %s); }, start=1, stop=2);'),
    ("calc-lazy", None, '@lazy function l(a) { say "Hardcode.calc(%s)"; } function f() { l(1); }'),
    ("calc-switch", None, 'function f() { Hardcode.switch($v, (i) => { say "Hardcode.calc(%s)"; }, count=2); }'),
    ("calc-macro", "#define N 5", 'Hardcode.repeat((i) => { say "Hardcode.calc(N * %s)"; }, start=1, stop=2);'),
    ("eval", "#bind EVAL", "function f() { $x = EVAL(%s); }"),
    ("eval-define", "#bind EVAL\n#define K EVAL(%s)", "function f() { $x = K; }"),
    ("eval-deep", "#bind EVAL\n#deepdefine T(x) EVAL(x * %s)", "function f() { $x = T(3); }"),
    ("eval-arg", "#bind EVAL", "function f() { $r = Math.random(min=EVAL(%s), max=9); }"),
    ("not", "#bind NOT", "function f() { $x = NOT(%s); }"),
    ("expr", None, "function f() { $x := %s; }"),
    ("expr-var", None, "function f() { $x := $y + %s; }"),
    ("expr-compound", None, "function f() { $x :*= %s; }"),
    ("expr-pow", None, "function f() { $x := $y ** %s; }"),
    ("repeat-start", None, 'Hardcode.repeat((i) => { say "$i"; }, start=%s, stop=3);'),
    ("assign", None, "function f() { $x = %s; }"),
    ("cond", None, 'function f() { if ($x == %s) { say "t"; } }'),
]


def gen_expr(rng, depth=0):
    r = rng.random()
    if depth > 3 or r < 0.3:
        return rng.choice(["0", "1", "2", "3", "10", "-1", "99", "2147483647", "4294967296", "007", "1.5"])
    if r < 0.45:
        return "(" + gen_expr(rng, depth + 1) + ")"
    if r < 0.52:
        return rng.choice(["-", "+", "--", "~", ""]) + gen_expr(rng, depth + 1)
    if r < 0.58:     # degenerate piece
        return rng.choice(["", "()", "(", ")", "1 2", "+", "**", "/0", "%0"])
    op = rng.choice(["+", "-", "*", "/", "%", "**", "//", "\\", " ", "* *", "/ /"])
    sp = rng.choice(["", " "])
    return gen_expr(rng, depth + 1) + sp + op + sp + gen_expr(rng, depth + 1)


def arithmetic(rng, n_random):
    exprs = [("degenerate", e) for e in DEGENERATE]
    small = [""]
    for _ in range(3):
        small = [s + t for s in small for t in ARITH_TOKENS]
        exprs += [("exhaustive", s) for s in small]
    exprs += [("random", gen_expr(rng)) for _ in range(n_random)]
    seen = set()
    for kind, e in exprs:
        if e in seen:
            continue
        seen.add(e)
        for sname, hdr, tmpl in ARITH_SITES:
            if "\"" in e and "calc-string" in sname:
                continue
            if kind == "exhaustive" and sname not in ("calc-string", "calc-value", "eval", "expr", "eval-define", "expr-compound"):
                continue
            src = tmpl.replace("%s", e)
            header = hdr.replace("%s", e) if hdr else hdr
            yield ("arithmetic", (sname, kind, len(e) if kind == "exhaustive" else e[:12])), dict(src=src, header=header, pack_format=None)


# ------------------------------------------------------------------------------------------------ stress (hang detector)
def stress(tier: str):
    """(name, size, job): cost of every one of these should be (near-)linear in `size`"""
    k = 1 if tier == "quick" else 4
    out = []

    def add(name, size, src, header=None):
        out.append((name, size, dict(src=src, header=header, pack_format=None)))

    rep = 'Hardcode.repeat((i) => { say "Hardcode.calc(%s)"; }, start=1, stop=2);'
    pows = ["9**9**9", "(-3)**999999999", "(2**9999)**9999", "1" + "*9**4507" * 300, "2**999999999", "10**10**10", "2**(2**40)", "-2**2**31", "3**3**3**3",
            "7**77777777%5", "2**2**2**2**2**2", "(9**9999)*(9**9999)*(9**9999)*(9**9999)", "9" * 20000, "2" + "**2" * 8]
    for e in pows[:4 if tier == "quick" else None]:      # (every one that hangs costs a whole alarm)
        add("pow:calc:" + e[:24], len(e), rep % e)
        add("pow:eval:" + e[:24], len(e), "function f() { $x = EVAL(%s); }" % e, "#bind EVAL")
        add("pow:expr:" + e[:24], len(e), "function f() { $x := %s; }" % e)
        if tier != "quick":     # (a huge constant exponent: the listed finding C13-unbounded-count; every one costs a whole alarm)
            add("pow:expr-var:" + e[:24], len(e), "function f() { $x := $y ** (%s); }" % e)
    for e in ["$y ** 2147483647", "$y ** 99999999", "$y ** 4294967296", "$y * 2147483647 ** 2147483647", "2 ** $y"][:5 if tier != "quick" else 2]:
        add("pow:var:" + e, len(e), "function f() { $x := %s; }" % e)
    for n in (100 * k, 400 * k):
        add("chain:expr-plus", n, "function f() { $x := 1" + " + 1" * n + "; }")
        add("chain:expr-vars", n, "function f() { $x := $a" + " + $a" * n + "; }")
        add("chain:expr-mul-vars", n, "function f() { $x := $a" + " * $b" * n + "; }")
        add("chain:calc", n, rep % ("1" + "+1" * n))
        add("chain:eval", n, "function f() { $x = EVAL(1" + "+1" * n + "); }", "#bind EVAL")
        add("chain:and", n, "function f() { if ($a == 1" + " && $a == 1" * n + ') { say "t"; } }')
        add("chain:or", n, "function f() { if ($a == 1" + " || $a == 1" * n + ') { say "t"; } }')
        add("chain:and-or", n, "function f() { if (" + " || ".join("($a == 1 && $b == 2)" for _ in range(n)) + ') { say "t"; } }')
        add("chain:not", min(n, 150), "function f() { if (" + "!" * min(n, 150) + '$a == 1) { say "t"; } }')
        add("chain:else-if", n, "function f() { if ($a == 0) { say \"0\"; }" + "".join(' else if ($a == %d) { say "x"; }' % i for i in range(1, n)) + " }")
        add("many:statements", 10 * n, "function f() { " + 'say "x"; ' * (10 * n) + "}")
        add("many:functions", n, "".join('function f%d() { say "x"; } ' % i for i in range(n)))
        add("many:cases", n, "function f() { switch ($x) { " + "".join('case %d: say "x"; break; ' % i for i in range(1, n + 1)) + "} }")
        add("many:list", 10 * n, "function f() { tellraw @a [" + ", ".join('"a"' for _ in range(10 * n)) + "]; }")
        add("many:args", n, "function f() { Text.tellraw(@a, " + ", ".join('"a"' for _ in range(n)) + "); }")
        add("many:macro-uses", 5 * n, "function f() { " + "say A; " * (5 * n) + "}", "#define A \"a\"")
        add("many:header-lines", n, 'function f() { say "a"; }', "\n".join("#define A%d %d" % (i, i) for i in range(n)))
        add("long:string", 100 * n, 'function f() { say "' + "a" * (100 * n) + '"; }')
        add("long:formatted", 10 * n, 'function f() { Text.tellraw(@a, "' + "&<red>a" * (2 * n) + '"); }')
        add("long:keyword", 100 * n, "function f() { say " + "a" * (100 * n) + "; }")
        add("long:path", n, "function f() { ::a" + ".b" * n + " = 1; }")
        add("long:minus", n, "function f() { $x = " + "-" * n + "1; }")
        add("long:selector", n, "function f() { say @a[" + ",".join("tag=t%d" % i for i in range(n)) + "]; }")
    for d in (30 * k, 90 * k):
        add("deep:paren-expr", d, "function f() { $x := " + "(" * d + "1" + ")" * d + "; }")
        add("deep:calc", d, rep % ("(" * d + "1" + ")" * d))
        add("deep:nbt", d, "function f() { ::a = " + "{a:" * d + "1" + "}" * d + "; }")
        add("deep:json", d, "new advancements(a) " + '{"a":' * d + "1" + "}" * d)
        add("deep:arrow", min(d, 60), "function f() { " + "Hardcode.repeat((i) => { " * min(d, 60) + 'say "x";' + " }, start=0, stop=1);" * min(d, 60) + " }")
        add("deep:execute", d, "function f() { " + "execute as @a run { " * d + 'say "x";' + " }" * d + " }")
        add("deep:macro", d, "function f() { $x = A%d; }" % (d - 1), "#define A0 1\n" + "\n".join("#define A%d A%d" % (i, i - 1) for i in range(1, d)))
    for n in (8 * (1 + k // 2), 16 * (1 + k // 2)):
        add("nested:repeat3", n ** 3, 'Hardcode.repeat((a) => { Hardcode.repeat((b) => { Hardcode.repeat((c) => { say "$a $b $c"; }, start=0, stop=%d); }, '
                                    'start=0, stop=%d); }, start=0, stop=%d);' % (n, n, n))
        add("nested:macro-fanout", 2 ** min(n // 2, 14), "function f() { say A%d; }" % min(n // 2, 14),
            "#define A0 \"a\"\n" + "\n".join("#define A%d A%d A%d" % (i, i - 1, i - 1) for i in range(1, min(n // 2, 14) + 1)))
    return out


# ------------------------------------------------------------------------------------------------ vanilla macros (round 4)
# spellings of one operand that contains vanilla macro tokens; the first four are the core forms (a macro alone, with a
# connected suffix, with a connected prefix, two in a row): Tokenizer.merge_vanilla_macro folds `$` + `(p)` [+ connected
# keyword] into ONE token while the caller is iterating over the list
MACRO_FORMS = ["$(a)", "$(a)_x", "a$(a)", "$(a)$(b)", "$(a).x", "x_$(a)_y", "$(a)$(b)$(c)", "$(a)_$(b)", "$ (a)", "$(a) _x", "$()", "$( )",
               "$(a b)", "$(a)(b)", "$($(a))", '"$(a)"', "'$(a)'", "$(a)..$(b)", "..$(a)", "$(a)..", "$(a):$(b)", "-$(a)", "!$(a)",
               "$(a)$", "$$(a)", "$$", "$", "$(", "$)", "$[a]", "${a}", "$(a", "@$(a)", "@s[tag=$(a)]", "@e[tag=$(a),limit=$(b)]",
               "$(a)[0]", "$(a){b:1}", "$(a)::$(b)", "::$(a)", "#$(a)", "~$(a)", "$(a)\n_x", "$(a)//c\n", "$(1)", "$(a.b)", "$(a-b)"]
CORE_FORMS = MACRO_FORMS[:4]
# (name, text with numbered operand slots, the plain operand of every slot)
COND_TEMPLATES = [
    ("score-matches", "score {0} {1} matches {2}", ["@s", "obj", "1.."]),
    ("score-compare", "score {0} {1} = {2} {3}", ["@s", "obj", "@p", "obj"]),
    ("score-lt", "score {0} {1} < {2} {3}", ["a", "obj", "b", "obj"]),
    ("entity", "entity {0}", ["@s"]),
    ("entity-args", "entity @e[tag={0},limit={1}]", ["t", "1"]),
    ("entity-scores", "entity @s[scores={{{0}={1}}}]", ["o", "1.."]),
    ("block", "block {0} {1} {2} {3}", ["~", "~", "~", "stone"]),
    ("blocks", "blocks {0} {1} {2} all", ["~ ~ ~", "~1 ~1 ~1", "~ ~2 ~"]),
    ("data-storage", "data storage {0} {1}", ["a:b", "p.q"]),
    ("data-entity", "data entity {0} {1}", ["@s", "Health"]),
    ("data-block", "data block {0} {1}", ["~ ~ ~", "Items[0]"]),
    ("predicate", "predicate {0}", ["ns:p"]),
    ("biome", "biome ~ ~ ~ {0}", ["plains"]),
    ("dimension", "dimension {0}", ["overworld"]),
    ("loaded", "loaded {0} {1} {2}", ["~", "~", "~"]),
    ("function", "function {0}", ["ns:f"]),
    ("items", "items entity @s {0} {1}", ["weapon.mainhand", "stick"]),
    ("bare", "{0}", ["$x"]),
    ("not", "!{0}", ["$x"]),
    ("eq", "{0} == {1}", ["$x", "1"]),
    ("cmp", "{0} >= {1}", ["$x", "$y"]),
    ("assign-cmp", "{0} = {1}", ["$x", "$y"]),
    ("matches", "{0} matches {1}", ["$x", "1..2"]),
    ("obj-sel", "{0}:{1} == {2}", ["obj", "@s", "1"]),
    ("nbt-eq", "::{0} == {1}", ["a.b", "1"]),
    ("nbt-exists", "{0}::{1}", ["@s", "Health"]),
    ("and", "{0} && {1}", ["$x", "$y == 1"]),
    ("or-and", "{0} || {1} && {2}", ["$x", "$y == 1", "!$z"]),
    ("paren", "({0}) && !({1} || {2})", ["$x", "$y", "$z > 1"]),
    ("builtin", "Timer.isOver({0}) && String.isEqual(::{1}, {2})", ["t", "a", '"s"']),
    ("call", "{0}()", ["f"]),
]
# (name, wrapper of a condition `%s`, is a load-level statement)
COND_WRAPPERS = [
    ("if", 'if (%s) { say "a"; }'), ("$if", '$if (%s) { say "a"; }'), ("if-else", 'if (%s) { say "a"; } else { say "b"; }'),
    ("else-if", 'if ($q == 1) { say "a"; } else if (%s) { say "b"; }'), ("if-short", 'if (%s) say "a";'),
    ("while", 'while (%s) { say "a"; }'), ("do-while", 'do { say "a"; } while (%s);'), ("for", 'for ($i = 0; %s; $i++) { say "a"; }'),
    ("async-while", 'async while (%s) { say "a"; } 1t;'), ("exec-if-paren", 'execute if (%s) run say "x";'),
    ("exec-unless-paren", 'execute as @a unless (%s) run { say "x"; }'), ("exec-if-raw", 'execute if %s run say "x";'),
    ("$exec-if-paren", '$execute if (%s) run say "$(m)";'), ("$exec-if-raw", '$execute if %s run say "x";'),
    ("return-exec", 'return run execute if (%s) run return 1;'), ("nested", 'if ($q == 1) { while (%s) { say "a"; } }'),
    ("switch-case", 'switch ($q) { case 1: if (%s) { say "a"; } case 2: say "b"; }'), ("ternary-like", '$r = 0; if (%s) $r = 1;'),
]
STMT_TEMPLATES = [
    ("$tp", "$tp {0} {1} {2} {3};", ["@s", "~", "~1", "~"]),
    ("tp", "tp {0} {1} {2} {3};", ["@s", "~", "~1", "~"]),
    ("$say", "$say {0};", ['"hi"']),
    ("say", "say {0};", ['"hi"']),
    ("$tellraw", '$tellraw {0} {{"text":{1}}};', ["@a", '"t"']),
    ("$execute", "$execute as {0} at {1} positioned {2} ~ ~ run tp @s {3} ~ ~;", ["@a", "@s", "~", "~1"]),
    ("$execute-store", "$execute store result score {0} {1} run data get storage {2} {3} {4};", ["@s", "o", "a:b", "p", "1"]),
    ("$data", "$data modify storage {0} {1} set value {2};", ["a:b", "p.q", "1"]),
    ("$nbt-path", "$::{0} = {1};", ["a.b", "1"]),
    ("nbt-path", "::a.{0}[{1}].b = {2};", ["c", "0", "1"]),
    ("$nbt-sel", "${0}::{1} = {2};", ["@s", "Health", "1"]),
    ("nbt-read", "$x = {0}::{1};", ["@s", "Health"]),
    ("var", "$x = {0};", ["1"]),
    ("var-op", "$x += {0};", ["$y"]),
    ("var-const", "$x = (const) {0};", ["$(q)"]),
    ("var-cast", "$x = ({0}) {1};", ["var", "$(q)"]),
    ("obj", "{0}:{1} = {2};", ["obj", "@s", "1"]),
    ("expr", "$x := {0} + {1} * 2;", ["$y", "3"]),
    ("$function", "$function {0};", ["ns:f"]),
    ("$function-with", "$function {0} with storage {1} {2};", ["ns:f", "a:b", "p"]),
    ("call-pos", "g({0});", ['{"a": "1"}']),
    ("call-kw", "g(a={0});", ['"1"']),
    ("call-kw2", "g(a={0}, b={1});", ['"1"', '"2"']),
    ("call-with", "g() with {0};", ["::p"]),
    ("call-with-obj", "g() with {{a: {0}, b: {1}}};", ["1", '"s"']),
    ("lazy-call", "l({0}, {1});", ["1", "2"]),
    ("$builtin", "$Text.tellraw({0}, {1});", ["@a", '"m"']),
    ("builtin", "Timer.set({0}, {1}, {2});", ["t", "@s", "5"]),
    ("builtin-kw", "Entity.launch(power={0});", ["1"]),
    ("$scoreboard", "$scoreboard players operation {0} {1} += {2} {3};", ["@s", "o", "@p", "o"]),
    ("$schedule", "$schedule function {0} {1};", ["ns:f", "1t"]),
    ("schedule-call", "schedule g() {0};", ["1t"]),
    ("$return", "$return {0};", ["1"]),
    ("return-run", "return run {{ $tp @s {0} {1} ~; }}", ["~", "~"]),
    ("$kill", "$kill @e[type={0},tag={1},limit={2}];", ["pig", "t", "1"]),
    ("$give", "$give @s {0}[damage={1}] {2};", ["stick", "1", "1"]),
    ("$summon", '$summon {0} ~ ~ ~ {{Tags:[{1}],Health:{2}}};', ["pig", '"t"', "1f"]),
    ("$$", "${0} {1};", ["$(cmd)", "arg"]),
    ("exec-run-macro", "execute as {0} run {{ $tp @s {1} ~ ~; }} with {2};", ["@a", "$(k)", "::p"]),
    ("$if-body", '$if ({0}) {{ $say {1}; }}', ["$x == 1", '"$(m)"']),
    ("switch-on", 'switch ({0}) {{ case 1: say "a"; }}', ["$x"]),
    ("for-init", 'for ({0} = {1}; $i < {2}; $i++) {{ say "a"; }}', ["$i", "0", "3"]),
]
MACRO_PRELUDE = ('\nfunction g() { $tp @s $(a) ~ ~; }\n@lazy function l(a, b) { say "$a $b"; }')


def _fill(text, plain, assign):
    ops = [assign.get(i, p) for i, p in enumerate(plain)]
    return text.format(*ops)


def vanilla_macros(rng, tier: str):
    """jobs ((stream, cell), job); cell = (family, template, wrapper, number of macro operands, form of the first one)"""
    multi = 2 if tier == "quick" else 16

    def assignments(nslots):
        # one macro operand: every slot x every form; two / three macro operands: seeded picks (core forms twice as likely)
        for i in range(nslots):
            for f in MACRO_FORMS:
                yield {i: f}
        pool = CORE_FORMS * 3 + MACRO_FORMS
        for _ in range(multi if nslots > 1 else 0):
            k = min(nslots, rng.choice([2, 2, 3]))
            slots = rng.sample(range(nslots), k)
            yield {i: rng.choice(pool) for i in slots}
        if nslots > 1:      # and every slot at once with each core form
            for f in CORE_FORMS:
                yield {i: f for i in range(min(nslots, 3))}

    for tname, text, plain in COND_TEMPLATES:
        for wname, wrap in COND_WRAPPERS:
            for a in assignments(len(plain)):
                cond = _fill(text, plain, a)
                src = "function f() { " + wrap % cond + ' say "z"; }' + MACRO_PRELUDE
                first = a[min(a)]
                yield ("vanilla_macros", ("cond", tname, wname, len(a), first)), dict(src=src, header=None, pack_format=None)
    for tname, text, plain in STMT_TEMPLATES:
        for a in assignments(len(plain)):
            stmt = _fill(text, plain, a)
            first = a[min(a)]
            for wname, wrap in (("fn", "function f() { %s say \"z\"; }"), ("exec", "function f() { execute as @a run %s }"),
                                ("load", "%s")):
                if wname != "fn" and len(a) > 1:
                    continue
                yield ("vanilla_macros", ("stmt", tname, wname, len(a), first)), dict(src=wrap % stmt + MACRO_PRELUDE, header=None,
                                                                                    pack_format=None)


# ------------------------------------------------------------------------------------------------ side streams (round 4)
COMMAND_WORDS = ["as", "at", "run", "execute", "return", "positioned", "rotated", "if", "unless", "say", "with", "matches", "expand",
                 "function", "schedule", "store", "mycmd"]
COMMAND_STMTS = ["{W};", "{W} @s;", "{W} @s @s;", "{W} @p;", "{W} run;", "{W} run say 1;", "{W} execute;", "{W} execute run;", "{W} as @s;",
                 "{W} {W};", "{W} {W} @s;", "{W} 1;", "{W} matches;", "{W} matches 1;", "{W} with;", "{W} expand;", '{W} "s";', "{W} ();",
                 "{W} {{}}", "{W} run {{ {W} @s; }}", 'execute {W} @s run say "x";', 'execute as @a run {W} @s;', "return {W} @s;",
                 "return run {W} @s;", "{W} return;", "{W} positioned @s;", "{W} = 1;", "{W}();", "{W}.x();", "${W} @s;", "{W} $(a);"]


def custom_commands():
    for w in COMMAND_WORDS:
        for hdr in ("#command " + w, "#command " + w + "\n#command zz", "#del " + w, "#command " + w + "\n#del " + w):
            for st in COMMAND_STMTS:
                stmt = st.replace("{W}", w).replace("{{", "{").replace("}}", "}")
                if not hdr.startswith("#command " + w + "\n") or "run" in stmt or "@s" in stmt:
                    yield ("custom_commands", (w, hdr.split()[0], st)), dict(src="function f() { " + stmt + " }", header=hdr, pack_format=None)
                if hdr == "#command " + w:
                    yield ("custom_commands", (w, "load", st)), dict(src=stmt, header=hdr, pack_format=None)


SELF_CALLS = ["f();", "f(1);", "f(a=1);", "execute as @a run f();", 'if ($x == 1) { f(); }', "$y = f();", "return run f();", "g();",
              'say "a"; f();', "while ($x < 1) { f(); }", "f() with ::p;", "schedule f() 1t;", "Hardcode.repeat((i) => { f(); }, start=0, stop=2);",
              "execute if (f()) run say 1;", "f(() => { f(); });", "f(f);", "f(f());", "function n() { f(); }", "c.f();", "_();"]


def self_reference():
    for dec in ("@lazy", "@if(value=1)", "@if(value=0)", "@lazy @add(__tick__)", "@add(__tick__) @lazy", "@private @lazy", ""):
        for params in ("", "a"):
            for body in SELF_CALLS:
                defs = [
                    f"{dec} function f({params}) {{ {body} }} function g() {{ f({'1' if params else ''}); }}",
                    f"{dec} function f({params}) {{ {body} }} f({'1' if params else ''});",
                    f"{dec} function f({params}) {{ h({'1' if params else ''}); }} {dec} function h({params}) {{ {body} }} function g() {{ f({'1' if params else ''}); }}",
                    f"class c {{ {dec} function f({params}) {{ {body} }} function g() {{ c.f({'1' if params else ''}); }} }}",
                ]
                for n, src in enumerate(defs):
                    yield ("self_reference", ("lazy", dec, n, body[:12])), dict(src=src, header=None, pack_format=None)
    heads = ["#deepdefine F(x) F(x)", "#deepdefine F(x) G(x)\n#deepdefine G(x) F(x)", "#deepdefine F(x) say (F(x))", "#deepdefine F(x) F(x) F(x)",
             "#deepdefine F(x) {F(x)}", "#deepdefine F(x) [F(x)]", "#deepdefine F(x) x F(x)", "#deepdefine F(x) F(F(x))", "#deepdefine F(x, y) F(y, x)",
             "#deepdefine F(x) G\n#define G F(1)", "#define G F(1)\n#deepdefine F(x) G", "#deepdefine F(x) F", "#deepdefine F(x) F()",
             "#deepdefine F(x) F(x, x)", "#bind EVAL\n#deepdefine F(x) EVAL(F(x))", "#deepdefine F(x) \"F(x)\"", "#define F F", "#define F G\n#define G F",
             "#define F(x) F(x)", "#define F(x) G(x)\n#define G(x) F(x)", "#deepdefine F(x) say x\n#deepdefine G(x) F(F(x))",
             "\n".join(["#deepdefine A0(x) say x"] + ["#deepdefine A%d(x) A%d(x)" % (i, i - 1) for i in range(1, 40)]),
             "\n".join(["#deepdefine A0(x) say x"] + ["#deepdefine A%d(x) A%d(x)" % (i, i - 1) for i in range(1, 200)])]
    uses = ["F(1);", "function f() { F(1); }", "function f() { $x = F(1); }", "function f() { if (F(1)) { say \"a\"; } }", "function f() { F; }",
            "function f() { F(1, 2); }", "function f() { G(1); }", "function f() { A39(\"a\"); }", "function f() { A199(\"a\"); }", "function f() { say \"F(1)\"; }"]
    for h in heads:
        for u in uses:
            yield ("self_reference", ("macro", h[:24], u[:20])), dict(src=u, header=h, pack_format=None)


JSON_SHAPES = ['{"a": 5}', '{"a": "bcd"}', '{"a": {"b": 5}}', '{"a": {"b": {"c": 5}}}', '{"a": [1, 2]}', '{"a": ["b"]}', '{"a": null}', '{"a": true}',
               '{"a": 1.5}', '{}', '[]', '[1, 2]', '[{"a": {"b": 1}}]', '{"a": {"b": []}}', '{"a": {"0": 1}}', '{"": {"": 1}}', '{"a": {"b": "s"}, "b": 1}', '"s"', '5']
STRINGIFY_PATHS = ["a", "a.b", "a.b.c", "b", "a.0", "0", "0.a", "a..b", ".a", "a.", "", "a, a.b", "a.b, a", "a.b, a.b", "a.b.c.d.e", "x.y"]


def new_json():
    for js in JSON_SHAPES:
        semi = "" if js.endswith("}") else ";"
        for pth in STRINGIFY_PATHS:
            yield ("new_json", ("stringify", js, pth)), dict(src=f"new advancements(x) stringify({pth}) {js}{semi}", header=None, pack_format=None)
        for base in JSON_SHAPES[:12]:
            bsemi = "" if base.endswith("}") else ";"
            yield ("new_json", ("extends", js, base)), dict(src=f"new advancements(b) {base}{bsemi}\nnew advancements(x) extends (b) {js}{semi}",
                                                          header=None, pack_format=None)
        for pth in STRINGIFY_PATHS[:6]:
            yield ("new_json", ("extends-stringify", js, pth)), dict(
                src=f'new advancements(b) {{"a": {{"b": 1}}}}\nnew advancements(x) extends (b) stringify({pth}) {js}{semi}', header=None, pack_format=None)
            yield ("new_json", ("class-stringify", js, pth)), dict(src=f"class k {{ new loot_tables(x) stringify({pth}) {js}{semi} }}", header=None,
                                                                   pack_format=None)


ARROWS = ['() => { say "cb"; }', '(i) => { say "$i"; }', '(i, a) => { say "$i $a"; }', '(i, a, b) => { say "$i $a $b"; }', '(_, a) => { say "$a"; }']
PAIR_LISTS = ["[]", "[ ]", "[[]]", "[[], []]", '[["a"]]', '[["a"], ["b"]]', '[["a", "b"], ["c"]]', '["a"]', '["a", "b"]', '[[["a"]]]', "[1]", '[[1]]',
              "{}", '{1: () => { say "a"; }}', '{0: () => { say "a"; }}', '{2: () => { say "a"; }}', '{-1: () => { say "a"; }}', "{1: f}", '{"a": "b"}']
PAIR_INTS = ["-1", "0", "1", "2", "3", "10"]


def builtin_pairs(registry):
    for b in registry:
        name, args = b["name"], list(b["args"].items())
        base = {k: base_value(name, k, t) for k, t in args}
        arrows = [k for k, t in args if t in ("ARROW_FUNC", "FUNC")]
        shaped = [k for k, t in args if t in ("LIST", "JS_OBJECT", "JSON")]
        ints = [k for k, t in args if t in ("INTEGER", "FLOAT", "SCOREBOARD_INT")]
        # compile-time expanders (their arrow function's ARITY and their integer bounds decide how often the body is expanded):
        # every pair is run in the quick tier too
        full = "!" if any(t == "ARROW_FUNC" for _, t in args) else ""

        def job(a):
            call = name + "(" + ", ".join(f"{kk}={vv}" for kk, vv in a.items()) + ");"
            return dict(src=_wrap(b, call), header=None, pack_format=None)
        for fk in arrows:
            for av in ARROWS:
                for sk in shaped:
                    for sv in PAIR_LISTS:
                        yield ("builtin_pairs", (name, fk, sk, full + "arrow-shape")), job(dict(base, **{fk: av, sk: sv}))
                for ik in ints[:3]:
                    for iv in PAIR_INTS[:4]:
                        yield ("builtin_pairs", (name, fk, ik, full + "arrow-int")), job(dict(base, **{fk: av, ik: iv}))
        for n, i1 in enumerate(ints):
            for i2 in ints[n + 1:]:
                for v1 in PAIR_INTS:
                    for v2 in PAIR_INTS:
                        yield ("builtin_pairs", (name, i1, i2, full + "int-int")), job(dict(base, **{i1: v1, i2: v2}))
        for sk in shaped:       # a shaped argument alone in every pack-format / switch lowering
            for sv in PAIR_LISTS:
                for hdr, pf in ((None, None), ("#forcebst", None), (None, "48"), (None, "15")):
                    j = job(dict(base, **{sk: sv}))
                    yield ("builtin_pairs", (name, sk, str(pf) + str(hdr), "shape-format")), dict(j, header=hdr, pack_format=pf)


# ------------------------------------------------------------------------------------------------ quick-tier sampling
_HUGE_POWER = re.compile(r"\*\*[\s(]*-?\d{5,}|\*\*[^;\"]*\*\*|\d{300,}")


def quick_sample(stream: str, items: list, rng) -> list:
    """seeded sample for the quick tier; always: every cheap exhaustive part, and one member of every cell"""
    if stream in ("nested_decls", "custom_commands", "new_json"):
        return items
    if stream == "self_reference":      # every macro form; the lazy forms with / without a parameter alternately
        return [it for n, it in enumerate(items) if it[0][1][0] == "macro" or (n // 4 + n // 80) % 2 == 0]
    if stream == "builtin_pairs":       # per (built-in, the two parameters, kind): a seeded handful
        cells = {}
        for it in items:
            cells.setdefault(it[0][1], []).append(it)
        out = []
        for key in sorted(cells, key=str):
            out += cells[key] if key[3].startswith("!") else rng.sample(cells[key], min(6, len(cells[key])))
        return out
    if stream == "vanilla_macros":
        # always: every multi-macro pick (incl. each core form in all slots at once, per template and wrapper); one operand
        # slot per (template, core form, wrapper); sampled: the other spellings, per (template, wrapper) and per
        # (spelling, wrapper / statement template)
        keep, cells = [], {}
        for it in items:
            (st, cell), job = it
            fam, tname, wname, n, first = cell
            if n > 1:
                keep.append(it)
            elif first in CORE_FORMS:       # one operand slot per (template, core form, wrapper)
                cells.setdefault(("core", fam, tname, wname, first), (1, []))[1].append(it)
            else:
                cells.setdefault(("tw", fam, tname, wname), (2, []))[1].append(it)
                cells.setdefault(("fw", fam, first, wname if fam == "cond" else tname), (1, []))[1].append(it)
        extra, seen = [], set()
        for key in sorted(cells, key=str):
            quota, members = cells[key]
            for it in rng.sample(members, min(quota, len(members))):
                if id(it) not in seen:
                    seen.add(id(it))
                    extra.append(it)
        return keep + extra
    keep, cells, huge = [], {}, {}
    for it in items:
        (st, cell), job = it
        if stream == "header_forms":
            always = cell[1] != "2"                                   # bare forms and one-argument forms: all
            key = (cell[0], cell[2])                                  # two-argument forms: per (directive, source)
            quota = 6
        elif stream == "builtin_matrix":
            always = cell[1] in ("shape", "context")
            key = (cell[0], cell[1]) if not always else None          # per (built-in, parameter)
            quota = 10
        else:   # arithmetic
            if cell[1] == "degenerate" and _HUGE_POWER.search(job["src"] + (job["header"] or "")):
                # candidates for an unbounded power: each costs a whole alarm where it hangs - three sites per expression,
                # one Hardcode.calc site, one EVAL site, one `:=` site (the sites that evaluate)
                fam = "calc" if cell[0].startswith("calc") else "eval" if cell[0].startswith("eval") else "expr" if cell[0].startswith("expr") else None
                if fam:
                    huge.setdefault((job["src"].count("*") and cell[2], fam), []).append(it)
                continue
            always = cell[1] == "degenerate" or (cell[1] == "exhaustive" and isinstance(cell[2], int) and cell[2] <= 2)
            key = (cell[0], cell[1])
            quota = 40 if cell[1] == "exhaustive" else 10
        if always:
            keep.append(it)
        else:
            cells.setdefault(key, (quota, []))[1].append(it)
    extra = []
    for n, key in enumerate(sorted(huge, key=str)):
        members = huge[key]
        extra.append(members[n % len(members)])
    for key in sorted(cells, key=str):
        quota, members = cells[key]
        extra += rng.sample(members, min(quota, len(members)))
    if stream == "builtin_matrix":
        # and every (ArgType of the parameter, value, keyword/positional) at least once over all built-ins
        seen = {(c[2], c[4], c[3]) for (st, c), _ in extra if len(c) == 5}
        rest = [it for it in items if len(it[0][1]) == 5]
        rng.shuffle(rest)
        for it in rest:
            c = it[0][1]
            if (c[2], c[4], c[3]) not in seen:
                seen.add((c[2], c[4], c[3]))
                extra.append(it)
    return keep + extra
