"""C16, strengthening round 1: metamorphic pairs driven by a grammar of RELATIONS between names and texts.

Three generators (all randomness from the rng given), each yielding pairs (program A compiled with a header, program B =
the hand expansion compiled without it) plus the relation labels that the evidence counts:

  param_pairs   parameterised `#define KEY(p, q) body`: the body is a list of top-level pieces (bare words, operators,
                string literals, brackets) whose texts stand in a chosen relation to a parameter name (equal, prefix,
                suffix, infix, dotted, sigil, case variant, unrelated); the hand expansion replaces exactly the bare
                words EQUAL to a parameter (simultaneously) and leaves strings, longer words and bracket contents alone.
  calc_pairs    integer macros (#define, #enum members, #env) whose NAMES are related (prefix, suffix, infix, dotted
                enum member vs bare name, case variant, unrelated), used inside Hardcode.calc( ) in Hardcode.repeat /
                repeatList / @lazy bodies, as `matches` bounds and as plain operands; hand expansion = every whole
                identifier replaced by its value.
  alone_pairs   an object-like macro and use-site words / strings / keys related to its name: the header must not matter.
"""
from __future__ import annotations

PRE = 'function foo() { say "foo"; }\n'

RELATIONS = ("equal", "prefix", "suffix", "infix", "dotted_after", "dotted_before", "sigil", "case", "digit_suffix", "unrelated")


def related(p: str, rel: str, rng) -> str:
    """a bare word standing in relation `rel` to the name p (p is a prefix / suffix / infix ... of the result)"""
    if rel == "equal":
        return p
    if rel == "prefix":
        return p + rng.choice(["s", "_x", "X", "er"])
    if rel == "suffix":
        return rng.choice(["x", "my_", "un", "A"]) + p
    if rel == "infix":
        return rng.choice(["x", "a_"]) + p + rng.choice(["y", "_b"])
    if rel == "dotted_after":
        return p + "." + rng.choice(["x", "y1"])
    if rel == "dotted_before":
        return rng.choice(["x", "ns"]) + "." + p
    if rel == "sigil":
        return rng.choice(["$", "#", "~", "^"]) + p
    if rel == "case":
        q = p.upper() if p != p.upper() else p.lower()
        return q if q != p else p.capitalize() + "_"
    if rel == "digit_suffix":
        return p + rng.choice(["1", "2", "07"])
    return rng.choice(["other", "zzz", "w0"])


# --------------------------------------------------------------------------- parameterised macros

def W(text):
    return dict(kind="word", text=text, glue=False)


def G(piece):                                   # glued to the previous piece
    return dict(piece, glue=True)


def S(content, quote='"'):
    return dict(kind="str", text=quote + content + quote, glue=False)


def B(text):
    return dict(kind="bracket", text=text, glue=False)


def O(text):
    return dict(kind="op", text=text, glue=False)


def render(pieces) -> str:
    out = ""
    for i, pc in enumerate(pieces):
        out += ("" if i == 0 or pc["glue"] else " ") + pc["text"]
    return out


def expand(pieces, params, args):
    """THE hand expansion: every top-level bare word equal to a parameter is replaced by that parameter's argument
    (the first parameter with that name wins; all replacements at once, the arguments are never scanned again)"""
    out = []
    for pc in pieces:
        if pc["kind"] == "word" and pc["text"] in params:
            out.append(dict(pc, text=args[params.index(pc["text"])]))
        else:
            out.append(pc)
    return out


PARAM_BASES = ["name", "a", "obj", "who", "n", "say", "dummy", "run", "tp", "x", "value", "text", "add"]
ARGS = ["kills", "5", "@a", '"hi"', "stone", "$v", "-3", "a.b", "minecraft:stone", "'q'", "~1", "@s", "stone[a=1]"]
# a selector WITH arguments as a macro argument: rejected by the unrepaired tree (fixes/C16-selector-argument-of-macro.patch);
# generated only when the tree has the fix or the finding is listed (param_pairs(..., selector_args=True))
SELECTOR_ARGS = ["@e[type=pig]", "@a[tag=x,limit=1]", "@e[type=pig,limit=1]"]
STRING_SHAPES = ["{w}", "{w}", "the {w} here", "{w}:", "[{w}]", "({w})", "{w} {w}", "${w}", "x{w}"]


def param_names(rng):
    """(names, relation of the 2nd name to the 1st)"""
    p = rng.choice(PARAM_BASES)
    rel = rng.choice(["prefix", "suffix", "infix", "case", "unrelated", "digit_suffix", "none"])
    if rel == "none":
        return [p], rel
    q = related(p, rel, rng)
    if q == p or "." in q or q[0] in "$#~^":
        q = p + "b"
        rel = "prefix"
    names = [p, q]
    rng.shuffle(names)
    return names, rel


def word_for(params, rng, stats, slot_bias=0.45):
    """a bare word: a parameter itself (a slot) or a word related to a parameter"""
    p = rng.choice(params)
    rel = "equal" if rng.random() < slot_bias else rng.choice(RELATIONS[1:])
    stats["word:" + rel] = stats.get("word:" + rel, 0) + 1
    return W(related(p, rel, rng))


def string_for(params, rng, stats):
    p = rng.choice(params)
    rel = rng.choice(["equal", "equal", "equal", "equal", "prefix", "suffix", "infix", "case", "unrelated"])
    shape = rng.choice(["{w}"] * 6 + STRING_SHAPES) if rel == "equal" else "{w}"
    q = rng.choice(['"', "'"])
    stats["string:" + rel + (":whole" if shape == "{w}" else ":contains")] = stats.get(
        "string:" + rel + (":whole" if shape == "{w}" else ":contains"), 0) + 1
    stats["quote:" + ("double" if q == '"' else "single")] = stats.get("quote:" + ("double" if q == '"' else "single"), 0) + 1
    return S(shape.replace("{w}", related(p, rel, rng)), q)


def bracket_for(params, rng, stats, kind):
    p = rng.choice(params)
    shape = rng.choice({
        "nbt": ["{%s:1b}", "{x:%s}", '{x:"%s"}', "{%s:\"%s\"}", "{a:[%s,1]}"],
        "json": ['{"text":"%s"}', '{"%s":"%s"}', '[{"text":"%s"},"%s"]', '{"text":"a","extra":["%s"]}'],
        "sel": ["[tag=%s]", "[name=\"%s\"]", "[%s=1]", "[scores={%s=1}]"],
        "state": ["[%s=north]", "[facing=%s]"],
    }[kind])
    stats["bracket:" + kind] = stats.get("bracket:" + kind, 0) + 1
    return B(shape.replace("%s", p))


SKELETONS = {
    # id -> function(params, rng, stats) -> pieces
    "scoreboard_add": lambda P, r, s: [W("scoreboard"), W("objectives"), W("add"), word_for(P, r, s, 0.7), W("dummy"), string_for(P, r, s)],
    "tp_words": lambda P, r, s: [W("tp"), W("@s"), word_for(P, r, s), word_for(P, r, s), word_for(P, r, s)],
    "tellraw_json": lambda P, r, s: [W("tellraw"), word_for(P, r, s, 0.8), bracket_for(P, r, s, "json")],
    "tellraw_string": lambda P, r, s: [W("tellraw"), word_for(P, r, s, 0.8), string_for(P, r, s)],
    "give_nbt": lambda P, r, s: [W("give"), W("@s"), word_for(P, r, s, 0.8), G(bracket_for(P, r, s, "nbt")), word_for(P, r, s)],
    "execute_run": lambda P, r, s: [W("execute"), W("as"), word_for(P, r, s, 0.8), W("run"), W("tp"), W("@s"), word_for(P, r, s),
                                    word_for(P, r, s), word_for(P, r, s)],
    "team_add": lambda P, r, s: [W("team"), W("add"), word_for(P, r, s), string_for(P, r, s)],
    "bossbar_add": lambda P, r, s: [W("bossbar"), W("add"), word_for(P, r, s), string_for(P, r, s)],
    "tag_add": lambda P, r, s: [W("tag"), W("@s"), W("add"), word_for(P, r, s)],
    "data_value": lambda P, r, s: [W("data"), W("modify"), W("storage"), W("a:b") if False else W("ns"), G(O(":")), G(word_for(P, r, s)),
                                   word_for(P, r, s), W("set"), W("value"), r.choice([string_for, lambda P, r, s: bracket_for(P, r, s, "nbt")])(P, r, s)],
    "kill_selector": lambda P, r, s: [W("kill"), word_for(P, r, s, 0.8), G(bracket_for(P, r, s, "sel"))],
    "setblock_state": lambda P, r, s: [W("setblock"), W("~"), W("~"), W("~"), word_for(P, r, s, 0.8), G(bracket_for(P, r, s, "state"))],
    "negated": lambda P, r, s: [W("tp"), W("@s"), O("-"), G(word_for(P, r, s, 0.9)), W("~"), word_for(P, r, s)],
    "say_string": lambda P, r, s: [W("say"), string_for(P, r, s)],
    "title": lambda P, r, s: [W("title"), word_for(P, r, s, 0.8), W("title"), string_for(P, r, s)],
}


def param_pairs(rng, n: int, stats: dict, selector_args: bool = False):
    pairs = []
    arg_pool = ARGS + (SELECTOR_ARGS * 2 if selector_args else [])
    ids = sorted(SKELETONS)
    tries = 0
    while len(pairs) < n and tries < 20 * n:
        tries += 1
        params, prel = param_names(rng)
        sk = ids[tries % len(ids)]
        local = {}
        pieces = SKELETONS[sk](params, rng, local)
        if not any(pc["kind"] == "word" and pc["text"] in params for pc in pieces):
            # a macro whose body uses no parameter is legal too, but keep most cases with at least one slot
            if rng.random() < 0.8:
                continue
        # arguments: plain, equal to the OTHER parameter's name (capture), equal to its own name, a string
        args = []
        for i, p in enumerate(params):
            x = rng.random()
            if x < 0.15 and len(params) > 1:
                args.append(params[1 - i])
                local["arg:other_parameter_name"] = local.get("arg:other_parameter_name", 0) + 1
            elif x < 0.25:
                args.append(p)
                local["arg:own_name"] = local.get("arg:own_name", 0) + 1
            elif x < 0.35:
                args.append('"' + p + '"')
                local["arg:string_of_name"] = local.get("arg:string_of_name", 0) + 1
            else:
                args.append(rng.choice(arg_pool))
                local["arg:plain"] = local.get("arg:plain", 0) + 1
                if args[-1] in SELECTOR_ARGS:
                    local["arg:selector_with_arguments"] = local.get("arg:selector_with_arguments", 0) + 1
        key = rng.choice(["M", "NEW_OBJ", "mk", "DO_IT"])
        header = "#define %s(%s) %s" % (key, rng.choice([", ", ","]).join(params), render(pieces))
        sep = rng.choice([", ", ",", " , "])
        use = "%s(%s)" % (key, sep.join(args))
        a = PRE + "function t() { %s; }\n" % use
        b = PRE + "function t() { %s; }\n" % render(expand(pieces, params, args))
        for k, v in local.items():
            stats[k] = stats.get(k, 0) + v
        stats["params:" + prel] = stats.get("params:" + prel, 0) + 1
        stats["skeleton:" + sk] = stats.get("skeleton:" + sk, 0) + 1
        pairs.append(dict(macro="param-relations", use=sk, l=-1, r=-1, header=header, envs=[], a=a, b=b,
                          rel=dict(params=prel), selector_arg=any(x in SELECTOR_ARGS for x in args),
                          tie=dict(key=key, params=params, args=args, use=use)))
    return pairs


# --------------------------------------------------------------------------- integer macros with related names in Hardcode.calc

NAME_BASES = ["A", "SIZE", "N", "HIGH", "MAX", "W", "X1", "LEN", "K"]
NAME_RELS = ("prefix", "suffix", "infix", "enum_member", "case", "unrelated", "both_sides")


def name_set(rng, stats):
    """-> list of (name, value, how defined) with names related to the first one"""
    base = rng.choice(NAME_BASES)
    names = [(base, "define")]
    k = rng.choice([1, 2, 2, 3])
    rels = []
    for _ in range(k):
        rel = rng.choice(NAME_RELS)
        if rel == "prefix":
            nm = (base + rng.choice(["B", "_X", "2", "S"]), "define")
        elif rel == "suffix":
            nm = (rng.choice(["GRID_", "Z", "B", "a"]) + base, "define")
        elif rel == "infix":
            nm = (rng.choice(["Z", "P_"]) + base + rng.choice(["_Q", "Y"]), "define")
        elif rel == "both_sides":          # the shorter names at both ends of a longer one
            other = rng.choice(["B", "Q"])
            if other not in [n for n, _ in names]:
                names.append((other, "define"))
            nm = (base + other, "define")
        elif rel == "enum_member":
            nm = (rng.choice(["Lvl", "E", "Z"]) + "." + base, "enum")
        elif rel == "case":
            nm = ((base.lower() if base != base.lower() else base.upper()), "define")
        else:
            nm = (rng.choice(["OTHER", "q", "T9"]), "define")
        if nm[0] not in [n for n, _ in names]:
            names.append(nm)
            rels.append(rel)
            stats["names:" + rel] = stats.get("names:" + rel, 0) + 1
    vals = rng.sample([2, 3, 4, 5, 7, 10, 16, 23, 100, 128, 1000], len(names))
    out = [(n, v, how) for (n, how), v in zip(names, vals)]
    return out, rels


def header_for(names, rng):
    """header lines in a random order; enum members get their own #enum line with the wanted start value"""
    lines = []
    for n, v, how in names:
        if how == "enum":
            cls, member = n.split(".")
            lines.append("#enum %s %d %s" % (cls, v, member))
        else:
            lines.append("#define %s %d" % (n, v))
    rng.shuffle(lines)
    # header lines are macro-expanded themselves: `#define HIGH 9` BEFORE `#enum Lvl 5 HIGH` would declare `Lvl.9`;
    # an enum whose member is also a #define name comes first
    lines.sort(key=lambda ln: not ln.startswith("#enum"))
    return "\n".join(lines)


def expression(names, rng):
    """(with names, hand-expanded): arithmetic over the names, numbers and `$i`"""
    def atom():
        x = rng.random()
        if x < 0.7:
            n, v, _ = rng.choice(names)
            return n, str(v)
        if x < 0.85:
            return "$i", "$i"
        k = str(rng.randint(1, 9))
        return k, k
    parts_a, parts_b = [], []
    m = rng.randint(2, 4)
    for j in range(m):
        a, b = atom()
        if rng.random() < 0.2:
            a2, b2 = atom()
            a, b = "(%s%s%s)" % (a, "+", a2), "(%s%s%s)" % (b, "+", b2)
        parts_a.append(a)
        parts_b.append(b)
        if j < m - 1:
            op = rng.choice(["+", "-", "*", " + ", " * ", "+ ", " -"])
            parts_a.append(op)
            parts_b.append(op)
    return "".join(parts_a), "".join(parts_b)


CALC_SITES = {
    "repeat_assign": 'function t() {{ Hardcode.repeat((i)=>{{ $x = Hardcode.calc({E}); }}, start=0, stop=2); }}',
    "repeat_tp": 'function t() {{ Hardcode.repeat((i)=>{{ tp @s ~ Hardcode.calc({E}) ~; }}, start=1, stop=3); }}',
    "repeat_two": 'function t() {{ Hardcode.repeat((i)=>{{ $x = Hardcode.calc({E}); $y = Hardcode.calc({E2}); }}, start=0, stop=2); }}',
    "repeat_list": 'function t() {{ Hardcode.repeatList((i, v)=>{{ say "$v"; $x = Hardcode.calc({E}); }}, strings=["p","q"]); }}',
    "lazy": '@lazy function lz(i) {{ $x = Hardcode.calc({E}); }}\nfunction t() {{ lz(4); }}',
    "lazy_two_calls": '@lazy function lz(i) {{ tp @s ~ Hardcode.calc({E}) ~; }}\nfunction t() {{ lz(1); lz(2); }}',
    "switch": 'function t() {{ Hardcode.switch($s, (i)=>{{ $x = Hardcode.calc({E}); }}, count=2); }}',
}
TOKEN_SITES = {
    "matches_range": 'function t() {{ if ($x matches {N1}..{N2}) {{ say "y"; }} }}',
    "operand": "function t() {{ $x += {N1}; $y = {N2}; }}",
    "expr": "function t() {{ $x := $y * {N1} + {N2}; }}",
}


def calc_pairs(rng, n: int, stats: dict):
    pairs = []
    sites = sorted(CALC_SITES)
    while len(pairs) < n:
        names, rels = name_set(rng, stats)
        header = header_for(names, rng)
        if rng.random() < 0.8:
            sid = sites[len(pairs) % len(sites)]
            ea, eb = expression(names, rng)
            ea2, eb2 = expression(names, rng)
            a = CALC_SITES[sid].format(E=ea, E2=ea2)
            b = CALC_SITES[sid].format(E=eb, E2=eb2)
        else:
            sid = rng.choice(sorted(TOKEN_SITES))
            (n1, v1, _), (n2, v2, _) = rng.sample(names, 2) if len(names) > 1 else (names[0], names[0])
            if sid == "matches_range" and v1 >= v2:
                (n1, v1), (n2, v2) = (n2, v2), (n1, v1)
            if sid == "matches_range" and v1 == v2:
                continue
            a = TOKEN_SITES[sid].format(N1=n1, N2=n2)
            b = TOKEN_SITES[sid].format(N1=v1, N2=v2)
        stats["site:" + sid] = stats.get("site:" + sid, 0) + 1
        ea3, _ = expression(names, rng)
        pairs.append(dict(macro="int-name-relations", use=sid, l=-1, r=-1, header=header, envs=[], a=PRE + a + "\n", b=PRE + b + "\n",
                          rel=dict(names=rels), tie=dict(exprs=[ea3], names=[n for n, _, _ in names])))
    return pairs


# --------------------------------------------------------------------------- occurrences that must be left alone

ALONE_MACROS = [
    ("#define N 100", "N"), ("#define BLOCK stone", "BLOCK"), ("#enum Color RED GREEN", "Color.RED"), ("#env DEBUG", "DEBUG"),
    ("#bind __namespace__ NS", "NS"), ("#define P @e", "P"), ("#define tell say", "tell"), ("#define Lvl 3\n#enum Lvl 5 LOW", "Lvl.LOW"),
    ("#define F(x) x x", "F"), ("#define id 7", "id"),
]
ALONE_SITES = {
    "fake_player": "scoreboard players set {W} obj 1;",
    "string": 'say "{T}";',
    "single_quoted": "tellraw @a '{T}';",
    "json_text": 'tellraw @a {{"text":"{T}","color":"red"}};',
    "json_key": 'tellraw @a {{"{T}":"v"}};' if False else 'data modify storage a:b x set value {{"{T}":1}};',
    "nbt_path": "data modify storage a:b {W}.x set value 1;",
    "variable": "${V} = 1;",
    "tag": "tag @s add {W};",
    "selector_tag": "kill @e[tag={W}];",
    "objective": "scoreboard objectives add {W} dummy;",
    "formatted": 'Text.tellraw(@a, "&<red>{T}");',
}


def alone_pairs(rng, n: int, stats: dict):
    pairs = []
    sites = sorted(ALONE_SITES)
    while len(pairs) < n:
        header, name = rng.choice(ALONE_MACROS)
        sid = sites[len(pairs) % len(sites)]
        needs_word = "{W}" in ALONE_SITES[sid] or "{V}" in ALONE_SITES[sid]
        rel = rng.choice(RELATIONS[1:-1] if needs_word else ("equal", "equal", "prefix", "suffix", "infix", "case"))
        if rel == "sigil" and sid != "fake_player":
            rel = "prefix"
        w = related(name, rel, rng)
        if sid == "variable":
            w = w.lstrip("$#~^")
            if w == name:
                rel = "sigil"          # `$N` is one word: the macro N must not touch it
        stmt = ALONE_SITES[sid].format(W=w, T=w if rng.random() < 0.6 else "a " + w + " b", V=w)
        src = PRE + "function t() { %s }\n" % stmt
        stats["alone_site:" + sid] = stats.get("alone_site:" + sid, 0) + 1
        stats["alone_rel:" + rel] = stats.get("alone_rel:" + rel, 0) + 1
        pairs.append(dict(macro="left-alone-relations", use=sid, l=-1, r=-1, header=header, envs=[], a=src, b=src, rel=dict(word=rel)))
    return pairs


# --------------------------------------------------------------------------- one process, changing definitions

# statements using the name {M} inside every kind of bracket and outside (integer-valued definitions)
SEQ_INT_STATEMENTS = {
    "selector_arg": "kill @e[limit={M}];",
    "selector_scores": "kill @e[scores={{obj={M}}}];",
    "nbt_value": "data modify storage a:b x set value {{v:{M},w:[{M},1]}};",
    "summon_nbt": "summon zombie ~ ~ ~ {{Health:{M}}};",
    "json_value": 'tellraw @a {{"text":"a","extra":[{M}]}};',
    "func_arg": "$r = Math.random(-5, {M});",
    "func_kwarg": 'Hardcode.repeat((i)=>{{ say "$i"; }}, start=0, stop={M});',
    "nbt_index": "$x = @s::arr[{M}];",
    "condition": 'if ($x == {M}) {{ say "y"; }}',
    "matches_range": 'if ($y matches -3..{M}) {{ say "z"; }}',
    "hardcode_calc": "Hardcode.repeat((i)=>{{ $z = Hardcode.calc($i*{M}+{M}); }}, start=0, stop=2);",
    "plain_operand": "$x += {M};",
    "cmd_arg": "scoreboard players set @s obj {M};",
    "nested": 'execute as @a[scores={{obj={M}}}] run {{ kill @e[limit={M}]; }}',
}
# keyword-valued definitions
SEQ_WORD_STATEMENTS = {
    "selector_tag": "kill @e[tag={M}];",
    "selector_type": "kill @e[type={M},limit=1];",
    "nbt_string": "data modify storage a:b x set value {{id:{M}}};",
    "give": "give @s {M} 1;",
    "setblock": "setblock ~ ~ ~ {M};",
    "func_arg": 'Text.title(@a[tag={M}], "t");',
}


def sequence_sets(rng, stats: dict):
    """-> list of sequences; a sequence = list of steps dict(header, envs, namespace, a, b, family, statements) that
    must be compiled IN ORDER IN ONE PROCESS: the same program text (a) with different definitions of the same name."""
    seqs = []

    def program(stmts, m):
        return PRE + "function t() {\n" + "\n".join("    " + s.format(M=m) for s in stmts.values()) + "\n}\n"

    def steps(family, name, stmts, defs):
        """defs: list of (header, envs, namespace, value text)"""
        out = []
        for header, envs, ns, val in defs:
            out.append(dict(header=header, envs=envs, namespace=ns, a=program(stmts, name), b=program(stmts, val), family=family,
                            name=name, value=val, statements={k: (v.format(M=name), v.format(M=val)) for k, v in stmts.items()}))
        return out

    v = rng.sample([2, 3, 4, 5, 6, 7, 9, 12], 3)
    fams = {
        "define_value_edit": steps("define_value_edit", "LIMIT", SEQ_INT_STATEMENTS,
                                   [("#define LIMIT %d" % x, [], "TEST", str(x)) for x in v]),
        "env_flip": steps("env_flip", "DEBUG", SEQ_INT_STATEMENTS,
                          [("#env DEBUG", ["DEBUG"], "TEST", "1"), ("#env DEBUG", [], "TEST", "0"), ("#env DEBUG", ["DEBUG"], "TEST", "1")]),
        "enum_start_change": steps("enum_start_change", "Lvl.HIGH", SEQ_INT_STATEMENTS,
                                   [("#enum Lvl LOW HIGH", [], "TEST", "1"), ("#enum Lvl %d LOW HIGH" % v[0], [], "TEST", str(v[0] + 1)),
                                    ("#enum Lvl %d HIGH LOW" % v[1], [], "TEST", str(v[1]))]),
        "define_vs_env": steps("define_vs_env", "FLAG", SEQ_INT_STATEMENTS,
                               [("#define FLAG %d" % v[2], [], "TEST", str(v[2])), ("#env FLAG", ["FLAG"], "TEST", "1"),
                                ("#define FLAG %d" % v[0], [], "TEST", str(v[0]))]),
        "define_word_edit": steps("define_word_edit", "KIND", SEQ_WORD_STATEMENTS,
                                  [("#define KIND %s" % w, [], "TEST", w) for w in rng.sample(["pig", "cow", "stone", "zombie"], 3)]),
        "bind_namespace_change": steps("bind_namespace_change", "NS", SEQ_WORD_STATEMENTS,
                                       [("#bind __namespace__ NS", [], ns, ns) for ns in ("TEST", "other", "TEST", "third")]),
        "defined_then_undefined": steps("defined_then_undefined", "KIND", SEQ_WORD_STATEMENTS,
                                        [("#define KIND pig", [], "TEST", "pig"), ("#define OTHER 1", [], "TEST", "KIND"),
                                         ("#define KIND cow", [], "TEST", "cow")]),
    }
    # a name that WAS an integer macro and is undefined in the next compile must be left alone there (its own program
    # per statement: both versions are rejected, unless stale definitions survive)
    for key in ("hardcode_calc", "matches_range", "selector_arg", "nbt_value"):
        one = {key: SEQ_INT_STATEMENTS[key]}
        fams["number_defined_then_undefined:" + key] = steps(
            "number_defined_then_undefined", "LIMIT", one,
            [("#define LIMIT %d" % v[0], [], "TEST", str(v[0])), ("#define OTHER 1", [], "TEST", "LIMIT"),
             ("#enum E %d LIMIT" % v[1], [], "TEST", "LIMIT")])
    for fam, st in fams.items():
        fam = fam.split(":")[0]
        seqs.append(st)
        seqs.append(list(reversed(st)))
        stats["sequence:" + fam] = stats.get("sequence:" + fam, 0) + 2
        stats["steps"] = stats.get("steps", 0) + 2 * len(st)
    stats["statements_per_step"] = dict(int=len(SEQ_INT_STATEMENTS), word=len(SEQ_WORD_STATEMENTS))
    return seqs
