"""C12 — compilation is a pure function of its inputs (no history or hash-seed effect).

Proof step (Props/C12.vo) + regenerated process table (translate_proc.py -> coq/Gen/C12/ProcTable.v, obligations
re-checked by coqc) + experiments on the real compiler through its three entry points (c12_run.py):
  * every project of a pool ALONE in a fresh process (baseline; projects with real files twice: another temporary folder)
    vs AFTER other projects in one process (incl. the project itself again, and other EDITS of the same project folder),
  * the same project again with the very same argument objects (envs list, jmc.txt dict, JMCTestPack object),
  * the pool under PYTHONHASHSEED 0 / 1 / 2 / 3 / random through all three entry points (real multi-file projects on disk),
  * a diff of all module-level / class-level state of the jmc package before and after a run (what a compile WRITES
    must lie inside the model's field universe).
Results (file map or exception class + text) must be identical.

Strengthening round 2: SAME-TEXT FAMILIES (one source text compiled under several definitions of one entity - number macro, macro, binder,
envs, command, condition, #del, override, link, resource, header flags, jmc.txt names, pack_format, namespace, description, included header
file, imported file / files under a wildcard, copied folder - all members in one folder, every ordered pair in one process through every entry
point) and the CACHE AUDIT (c12_run.py CacheAudit: functools caches of the package are called through a recording proxy; after every compile
what earlier compiles stored is recomputed un-cached: a memo keyed by less than its value depends on yields a witness).  State held in
function objects (mutable default arguments, closure cells, cache sizes) is part of the global-state diff.

The pool is measured, not assumed (strengthening round 1): per Header field of the regenerated universe the projects that
leave it different from its reset value (mutators) and — self-test, in the runner process — the projects whose result changes
when the reset of that one field is undone (observers); per set-iteration site of the regenerated table how many compiles
reached it with >= 2 elements; per module-level / class-level container of the package how many projects see a perturbation.
Strengthening round 3: the INSERTION sites of every iterated set are regenerated (translate_proc.read_set_insertions) and the pool must
reach each of them (SETSITE projects; reach per insertion site in the evidence; fail closed for sets iterated in hash order); the element
types of set-typed attributes are checked against their annotation after every traced compile; set projects run under 9 hash seeds.
"""
from __future__ import annotations

import json
import re
from concurrent.futures import ThreadPoolExecutor
from pathlib import Path

import translate_proc as TP
from lib import Check, COMMON_TRUSTED, NCPU, REPO, VERIF, coqc_file, gen_dir, known_for, run_py

PROP = "C12"
RUNNER = VERIF / "harness" / "c12_run.py"

FULL = "LOAD=__load__\nTICK=__tick__\nPRIVATE=__private__\nVAR=__variable__\nINT=__int__\nSTORAGE=__storage__"
CUSTOM = "LOAD=ld\nTICK=tk\nPRIVATE=pv\nVAR=vr\nINT=it\nSTORAGE=st"
CUSTOM2 = "LOAD=init\nTICK=loop\nPRIVATE=__p__\nVAR=v.s\nINT=const-int\nSTORAGE=s_t"
BODY = ('function f(){ $x = 5; $x *= 3; if ($x > 2) { say "a"; say "b"; } switch($x){ case 1: say "1"; say "1b"; case 2: say "2"; say "2b"; } } '
        'Trigger.add(helpme, ()=>{ say "t"; say "u"; });')
HEADER_ALL = ('#define N 7\n#define GREET(x) say x\n#credit "made by verif"\n#credit\n#enum E A B C\n#bind __namehash5__ five\n#link otherpack\n'
              '#command mycmd\n#del give\n#override otherns\n#resource myres\n#nometa\n#show_private_command\n#env dev\n#forcebst\n')
PY_COUNTER = 'JMC.python(`\ncounter = globals().get("counter", 0) + 1\nemit(f"say {counter}")\n`);'
PY_ENV = 'JMC.python(`\nshared = globals().get("shared", []) + ["x"]\nemit("say " + "-".join(shared))\n`, env="e1");'
PY_LEAK_THEN_FAIL = 'JMC.python(`\nleaked = 42\nemit("say pending")\nraise ValueError("boom")\n`);'
PY_READ = 'JMC.python(`\nemit("say " + str(globals().get("leaked", "clean")))\n`);'
GUI3 = ('Item.create(it, stone, "Name"); Item.create(it2, dirt, "N2"); Item.create(it3, diamond, "N3"); Item.create(it4, apple, "N4"); '
        'GUI.template(my_gui, ["abcd"], block); GUI.registers(my_gui, "a", [it], $v); GUI.registers(my_gui, "b", [it2,it3,it4], $v); GUI.create(my_gui);')


def P(pid, src, header=None, cert=FULL, envs=(), pf="48", ns="TEST", existing=True, tags=(), files=None, pre_files=None, dir=None, only=None):
    """files: further project files; pre_files: content of the output folder before the compile (CLI); dir: project folder (two entries with
    the same dir are two edits of one project, as in the interactive shell / autocompile); only: entry points the project makes sense for"""
    d = dict(id=pid, src=src, header=header, cert=cert, envs=list(envs), pack_format=pf, namespace=ns, existing=existing, tags=list(tags))
    if files:
        d["files"] = dict(files)
    if pre_files:
        d["pre_files"] = dict(pre_files)
    if dir:
        d["dir"] = dir
    if only:
        d["only"] = list(only)
    return d


# ---- strengthening round 1: every way the header offers to MUTATE a container of the Header singleton ...
INC_FILES = {"inc.hjmc": '#define INC 9\n#credit "from inc"\n#include "sub/inc2"\n', "sub/inc2.hjmc": "#define INC2 10\n#command inccmd\n"}
HEADER_MORE = ('#define EMPTY\n#define N 7\n#define GREET(x) say x\n#deepdefine DD(x) say x\n#define TWICE(a, b) a b\n#env dev\n#env prod\n'
               '#bind __namespace__ NSNAME\n#bind __namehash6__ six h6\n#bind __UUID__ uid\n#bind EVAL ev\n#bind NOT nt\n#enum E A B C\n#enum F 5 X Y\n'
               '#credit "first"\n#credit\n#credit "third"\n#override otherns\n#override thirdns\n#link otherpack\n#link linkpack\n'
               '#command mycmd\n#command mycmd2\n#command execute if mykind\n#command execute if mykind2\n#del give\n#del say\n'
               '#resource myres\n#resource my.res2\n#uninstall\n#include "inc"\n#show_private_command\n#forcebst\n')
MORE_SRC = ('function uninstall(){ say "bye"; } Team.add(red); Bossbar.add(bar, "Name"); Scoreboard.add(obj); '
            'function f(){ GREET("hi"); DD("d"); $n = N; $e = E.B; $g = F.Y; $i = INC; $j = INC2; mycmd 1 2; mycmd2 3; inccmd 4; $d = dev; $p = prod; '
            'otherpack.api(); linkpack.api2(); if (mykind entity @s && mykind2 entity @p) { say "k"; } scoreboard players set give obj 1; '
            'tellraw @a NSNAME; tellraw @a six; data merge entity uid {}; if ($n matches 1..N) { say "m"; } } '
            'function otherns.g(){ say "o"; } function thirdns.h(){ say "t"; } new myres(x.y) {"a":1} new my.res2(z) {"b":2}')
STALE = {"data/TEST/function/stale.mcfunction": "say stale", "data/TEST/keep/a.txt": "A", "data/TEST/keep2/deep/b.txt": "B",
         "data/minecraft/tags/function/load.json": '{"values": ["other:load", "TEST:__load__"]}', "data/minecraft/keepmc/c.txt": "C",
         "data/otherns/function/old.mcfunction": "say old", "data/thirdns/function/old.mcfunction": "say old3", "data/otherns/keep3/d.txt": "D"}
ASSETS = {"assets/pack.png": "PNG", "assets/data/extra/function/x.mcfunction": "say x", "assets/data/extra/function/y/z.mcfunction": "say z"}
BUILTIN_ITEMS = 'Item.create(bit, stone, "B"); '
# ---- ... real multi-file projects: wildcard imports over several files with order-visible load-level content, nested folders
LIB = {f"lib/{n}.jmc": f'say "load {n}"; ${n} = {k}; function lib.{n}() {{ say "{n}"; }}' for k, n in enumerate(["alpha", "bravo", "charlie", "delta", "echo"])}
LIB.update({"lib/sub/foxtrot.jmc": 'say "load foxtrot"; function lib.sub.foxtrot() { say "f"; }',
            "lib/sub/deep/golf.jmc": 'say "load golf"; Scoreboard.add(golf);', "lib/sub/deep/hotel.jmc": 'say "load hotel"; Team.add(hotel);',
            "lib2/india.jmc": 'say "load india"; import "../lib/sub/*";', "lib2/juliet.jmc": 'say "load juliet";', "lib2/kilo.jmc": 'say "load kilo";'})



POOL = [
    P("plain", BODY),
    P("custom", BODY, cert=CUSTOM, tags=["sets-names"]),
    P("custom2", BODY, cert=CUSTOM2, tags=["sets-names"]),
    P("nocert", BODY, cert=None, existing=False, tags=["lacks-keys"]),              # TEST: class default (no STORAGE); CLI: fresh folder
    P("partial", BODY, cert="LOAD=__load__\nTICK=__tick__\nPRIVATE=__private__", tags=["lacks-keys"]),
    P("empty_cert", BODY, cert="", tags=["lacks-keys"]),
    P("only_storage", BODY, cert="STORAGE=only_st", tags=["lacks-keys", "sets-names"]),
    P("bad_cert", BODY, cert="this is not a cert\n=\n", tags=["lacks-keys"]),
    P("header_all", 'function f(){ GREET("hi"); $n = N; $e = E.B; say "five"; mycmd 1 2; $d = dev; otherpack.api(); } '
                    'function otherns.g(){ say "o"; } new myres(x.y) {"a":1}', header=HEADER_ALL, envs=["dev"], tags=["header"]),
    P("header_noenv", 'function f(){ $d = dev; }', header="#env dev\n#define Q 3\n", tags=["header"]),
    P("env_unknown", 'function f(){ say "x"; }', header="#define Q 3\n", envs=["nosuch"], tags=["fails"]),
    P("syntax_error", 'function f(){ $x = ; }', tags=["fails"]),
    P("undefined_fn", 'function f(){ g(); }', tags=["fails"]),
    P("header_error", 'function f(){ say "x"; }', header="#define\n#nosuchdirective 3\n", tags=["fails", "header"]),
    P("py_counter", PY_COUNTER + ' function f(){ say "x"; }', tags=["pyenv"]),
    P("py_env", PY_ENV, tags=["pyenv"]),
    P("py_fail", PY_LEAK_THEN_FAIL, tags=["pyenv", "fails"]),
    P("py_read", PY_READ, tags=["pyenv"]),
    P("ints", 'function f(){ $a *= 8; $a *= 0; $a *= 16; $a *= 3; $a /= 1000; $a %= -7; $a *= 1024; $a *= 33; $a *= 65536; $a *= -1; }', tags=["sets"]),
    P("gui", GUI3, pf="41", tags=["sets"]),
    P("sign_bad_variant", 'Item.createSign(s, plastic, texts=["a"]);', tags=["fails", "sets"]),
    P("text_two_keys", 'TextProp.keybind("kb", "key.jump"); function f(){ Text.tellraw(@a, "&<$x, kb>hello"); }',
      tags=["sets"]),
    P("track", 'Debug.trackFunction("f.*", prefix="-> "); Debug.watch($w); function f(){ say "x"; $w = 1; $w += 2; } function foo.g(){ say "y"; }', tags=["header"]),
    P("legacy_pf", BODY, pf="15", cert=CUSTOM2, tags=["sets-names"]),
    P("other_ns", BODY, ns="mypack", cert="VAR=vv\nINT=ii", tags=["lacks-keys", "sets-names"]),
    P("bad_condition", 'function f(){ if (nosuchcond entity @s) { say "x"; } }', tags=["fails", "sets"]),
    P("first_join", 'Player.firstJoin(()=>{ say "hi"; }); Player.join(()=>{ say "again"; });'),
    # --- strengthening round 1 ---------------------------------------------------------------------------------------------------
    # mutators of every Header container, all directive forms (one project, folder shared with its edits below)
    P("header_more", MORE_SRC, header=HEADER_MORE, envs=["dev"], files=INC_FILES, dir="hdr_proj", tags=["header", "mutator"]),
    # observers: USE what a header would have to declare, without declaring it (result = the diagnostic, or different output)
    P("use_condition", 'function f(){ if (mykind entity @s) { say "x"; } }', tags=["observer"]),
    P("use_command", 'function f(){ mycmd 1 2; }', tags=["observer"]),
    P("use_execute_cmd", 'function f(){ inccmd 4; }', tags=["observer"]),
    P("use_del", 'function f(){ scoreboard players set give obj 1; }', tags=["observer"]),
    P("use_link", 'function f(){ otherpack.api(); }', tags=["observer"]),
    P("use_override", 'function otherns.g(){ say "o"; } function f(){ otherns.g(); }', tags=["observer"]),
    P("use_resource", 'new myres(x.y) {"a":1}', tags=["observer"]),
    P("use_macro", 'function f(){ $n = N; }', tags=["observer"]),
    P("use_number_macro", 'function f(){ if ($n matches 1..N) { say "m"; } }', tags=["observer"]),
    P("redefine", 'function f(){ GREET("yo"); $n = N; $e = E.A; }', header='#define N 8\n#define GREET(y) tellraw @a y\n#enum E A\n#credit "other"\n',
      tags=["observer", "header"]),
    P("include_again", 'function f(){ $i = INC; }', header='#include "inc"\n', files=INC_FILES, dir="hdr_proj", tags=["observer", "header"]),
    P("header_edit", MORE_SRC, header=None, files=INC_FILES, dir="hdr_proj", tags=["observer", "fails"]),      # the header deleted, project unchanged
    P("uninstall_fn", 'function uninstall(){ say "bye"; } function f(){ if ($x > 1) { say "p"; say "q"; } else { say "r"; say "s"; } }', tags=["observer"]),
    # output-folder observers (disk build): stale output, #static folders, #copy, #override'd namespaces with existing folders
    P("static_keep", MORE_SRC.replace('$i = INC; $j = INC2; ', '').replace('inccmd 4; ', ''),
      header=HEADER_MORE.replace('#include "inc"\n', '') + '#static "keep"\n#static "keep2"\n#static "../otherns/keep3"\n', envs=["dev"],
      pre_files=STALE, dir="static_proj", only=["CLI"], tags=["header", "mutator", "disk"]),
    P("static_dropped", BODY, pre_files=STALE, dir="static_proj", only=["CLI"], tags=["observer", "disk"]),
    P("static_one", BODY, header='#static "keep"\n#override otherns\n', pre_files=STALE, dir="static_proj", only=["CLI"], tags=["observer", "header", "disk"]),
    P("copy_assets", 'function f(){ extra.x(); extra.y.z(); }', header='#copy "assets"\n#override extra\n', files=ASSETS, tags=["header", "mutator", "disk"]),
    P("copy_user", 'function f(){ extra.x(); }', tags=["observer", "fails"]),
    P("copy_twice", 'function f(){ say "c"; }', header='#copy "assets2"\n', files={"assets2/readme.txt": "R"}, tags=["observer", "header", "disk"]),
    P("stale_out_no_cert", BODY, cert=None, pre_files={"data/TEST/function/stale.mcfunction": "say stale"}, only=["CLI"], tags=["fails", "disk"]),
    # built-ins: explicit optional arguments, then the same calls relying on the class-level defaults
    P("builtins_explicit", BUILTIN_ITEMS + 'function f(){ Item.give(bit, @a, 5); Item.clear(bit, @p, 3); Item.summon(bit, "1 2 3", 4); '
      'JMC.logAny("x", prefix="P"); }', tags=["mutator"]),
    P("builtins_default", BUILTIN_ITEMS + 'function f(){ Item.give(bit); Item.clear(bit); Item.summon(bit); JMC.logAny("x"); }', tags=["observer"]),
    # diagnostics raised while the header's sets hold several elements (a message that lists one of them must not follow the hash order);
    # they are also compiles that fail half-way through the header / the lexer with a populated Header
    P("diag_command", 'function f(){ nocmd 1; }', header='#command mycmd\n#command mycmd2\n#command mycmd3\n#command zcmd4\n#command execute if mykind\n',
      tags=["fails", "header", "sets", "mutator"]),
    P("diag_resource", 'new nores(x.y) {"a":1}', header='#resource myres\n#resource my.res2\n#resource res3\n#resource zres4\n', tags=["fails", "header", "sets"]),
    P("diag_link", 'function f(){ otherpack.api(); nolink.api(); }', header='#link otherpack\n#link linkpack\n#link pack3\n#override o1\n#override o2\n#override o3\n',
      tags=["fails", "header", "sets"]),
    P("diag_del", 'function f(){ scoreboard players set give obj 1; scoreboard players set tp obj 1; }', header='#del give\n#del say\n#del kill\n#del clear\n',
      tags=["fails", "header", "sets"]),
    P("diag_condition", 'function f(){ if (mykind entity @s || nokind entity @s) { say "x"; } }',
      header='#command execute if mykind\n#command execute if mykind2\n#command execute if akind\n#command execute if zkind\n', tags=["fails", "header", "sets"]),
    P("macro_in_header", 'function f(){ say "x"; }', header='#define GREET(x) say x\n#credit "c"\n#command mycmd\n#define GREET(y) say y\n',
      tags=["fails", "header", "mutator"]),     # the second line is itself macro-expanded: it defines `say`
    P("diag_override_dup", 'function f(){ say "x"; }', header='#override o1\n#override o2\n#link l1\n#override o1\n', tags=["fails", "header", "sets", "mutator"]),
    P("diag_static_missing", 'function f(){ say "x"; }', header='#uninstall\n#nometa\n#static "nodir"\n', tags=["fails", "header", "mutator"]),
    P("diag_include_twice", 'function f(){ say "x"; }', header='#include "inc"\n#include "sub/inc2"\n', files=INC_FILES, dir="hdr_proj", tags=["fails", "header", "mutator"]),
    P("diag_uninstall_missing", 'function f(){ say "x"; }', header='#uninstall\n', tags=["fails", "header", "mutator"]),
    # real multi-file projects
    P("wild", 'say "main first"; import "lib/*"; say "main last"; function f(){ lib.alpha(); lib.sub.foxtrot(); }', files=LIB, tags=["disk", "multi", "sets"]),
    P("wild_partial", 'say "main first"; import "lib/charlie"; import "lib/sub/deep/hotel.jmc"; import "lib/*"; import "lib2/*"; import "lib/sub/*"; say "main last";',
      files=LIB, dir="wild", tags=["disk", "multi", "sets"]),
    P("wild_header", 'import "lib2/*"; import "lib/*"; function f(){ GREET("w"); }', header=HEADER_ALL, envs=["dev"], cert=CUSTOM, files=LIB,
      tags=["disk", "multi", "sets", "header", "sets-names"]),
    P("wild_missing", 'import "lib/*"; import "nolib/*";', files=LIB, tags=["disk", "multi", "fails"]),
    P("wild_dup", 'import "lib/*";', files=dict(LIB, **{"lib/sub/again.jmc": 'function lib.alpha() { say "dup"; }'}), tags=["disk", "multi", "fails", "sets"]),
]
# ---- strengthening round 2: SAME SOURCE TEXT, DIFFERENT DEFINITION.  A family = one main.jmc text (and, where the entity lives in the
# header, one header text) compiled under several definitions of ONE entity that influences the output: the value of a number macro
# (#define / #env / #enum), a macro body, a binder, the envs, a declared command / condition / deleted command / override / link /
# resource, a header flag, jmc.txt, pack_format, namespace, description, an included header file, an imported file, the set of files a
# wildcard covers, a copied folder.  All members share one project folder (`dir`): every entry point compiles every member after every
# other member of its family in one process, in both orders (any memo keyed by the text alone then answers with the other definition).
NUM_SRC = ('@lazy function lz(a) { say "z Hardcode.calc($a*SIZE)"; } '
           'function f(){ $n = SIZE; if ($n matches 1..SIZE) { say "m"; } '
           'Hardcode.repeat((i) => { say "r Hardcode.calc($i*SIZE+DEBUG) Hardcode.calc(E.C+$i)"; }, start=0, stop=3); '
           'Hardcode.switch($x, (i) => { say "s Hardcode.calc($i+SIZE)"; }, count=3); lz(2); lz(a=3); '
           '$e = ev(SIZE*2); $t = nt(DEBUG); $k = E.B; $d = DEBUG; if ($d matches DEBUG..SIZE) { say "r"; } }')
NUM_HDR = "#define SIZE %s\n#env DEBUG\n#bind EVAL ev\n#bind NOT nt\n#enum E %s\n"
MACRO_SRC = 'function f(){ GREET("hi"); TW(@a, "x"); tellraw @a WORD; DD("d"); $n = COUNT; if ($n matches 1..COUNT) { say "c"; } }'
BIND_SRC = 'function f(){ tellraw @a HASH; tellraw @a NSNAME; data merge entity UID {}; tellraw @s HASH; }'
NAMES_SRC = BODY + ' function g(){ $y = 5; $z = $y; $z *= 3; $z %= 7; ::sv = $z; if ($z > 1) { say "p"; say "q"; } } Player.firstJoin(()=>{ say "hi"; say "ho"; });'
PF_SRC = ('Item.create(it, stone, "Name", lore=["l"]); Trigger.add(helpme, ()=>{ say "t"; say "u"; }); '
          'function g(){ Item.give(it); Text.tellraw(@a, "&<red,bold>hi"); $x = 5; if ($x > 2) { say "a"; say "b"; } ::st = $x; }')
IMP_SRC = 'say "main"; import "lib/a"; import "lib/*"; import "more/*"; function f(){ lib.a(); }'
IMP_A1 = 'say "a one"; function lib.a() { say "A1"; }'
IMP_A2 = 'say "a two"; $a2 = 2; function lib.a() { say "A2"; say "A2b"; }'
INC_SRC = 'function f(){ $i = INC; incmd 1; Hardcode.repeat((i) => { say "Hardcode.calc($i+INC)"; }, start=0, stop=2); }'


def FAMILY(name, src, variants, **common):
    """variants: list of dicts overriding P's keyword arguments (header, envs, cert, pf, ns, files, pre_files, desc ...)"""
    out = []
    for k, v in enumerate(variants):
        kw = dict(common)
        kw.update(v)
        tags = list(kw.pop("tags", [])) + ["samedef", "fam:" + name]
        desc = kw.pop("desc", None)
        d = P(f"sd_{name}_{k}", src, dir="sd_" + name, tags=tags, **kw)
        if desc is not None:
            d["desc"] = desc
        out.append(d)
    return out


FAMILIES = (
    FAMILY("number", NUM_SRC, [dict(header=NUM_HDR % ("4", "A B C"), envs=["DEBUG"]), dict(header=NUM_HDR % ("7", "A B C"), envs=["DEBUG"]),
                               dict(header=NUM_HDR % ("4", "A B C")), dict(header=NUM_HDR % ("4", "5 A B C"), envs=["DEBUG"]),
                               dict(header=NUM_HDR % ("4", "C B A"), envs=["DEBUG"]), dict(header=NUM_HDR % ("12", "A B C D"))], tags=["header"])
    + FAMILY("macro", MACRO_SRC, [dict(header='#define GREET(x) say x\n#define TW(a, b) tellraw a b\n#define WORD hello\n#deepdefine DD(x) say x\n#define COUNT 3\n'),
                                  dict(header='#define GREET(x) tellraw @a x\n#define TW(a, b) tellraw a b\n#define WORD hello\n#deepdefine DD(x) say x\n#define COUNT 3\n'),
                                  dict(header='#define GREET(x) say x\n#define TW(a, b) tellraw a [b, b]\n#define WORD bye\n#deepdefine DD(x) tellraw @s x\n#define COUNT 4\n'),
                                  dict(header='#define GREET(y) tellraw @a [y, y]\n#define TW(b, a) tellraw b a\n#define WORD "hello"\n#define DD(x) say x\n#define COUNT 5\n')], tags=["header"])
    + FAMILY("bind", BIND_SRC, [dict(header='#bind __namehash5__ HASH\n#bind __namespace__ NSNAME\n#bind __UUID__ UID\n'),
                                dict(header='#bind __namehash6__ HASH\n#bind __namespace__ NSNAME\n#bind __UUID__ UID\n'),
                                dict(header='#bind __namehash5__ HASH\n#bind __namespace__ NSNAME\n#bind __UUID__ UID\n', ns="mypack"),
                                dict(header='#bind __namespace__ HASH\n#bind __namehash7__ NSNAME\n#bind __UUID__ UID\n')], tags=["header"])
    + FAMILY("envs", 'function f(){ $d = dev; $p = prod; if ($d matches dev..3) { say "x"; } if ($p matches prod..5) { say "y"; } Hardcode.repeat((i) => { say "Hardcode.calc($i*dev+prod)"; }, start=1, stop=3); }',
             [dict(envs=["dev"]), dict(envs=["prod"]), dict(envs=["dev", "prod"]), dict(envs=[])], header="#env dev\n#env prod\n", tags=["header"])
    + FAMILY("command", 'function f(){ mycmd 1 2; }', [dict(header="#command mycmd\n"), dict(header="#command other\n"), dict(header=None),
                                                      dict(header="#command mycmd\n#del mycmd\n")], tags=["header"])
    + FAMILY("condition", 'function f(){ if (mykind entity @s) { say "x"; } }', [dict(header="#command execute if mykind\n"), dict(header="#command execute if kind2\n"), dict(header=None)],
             tags=["header"])
    + FAMILY("del", 'function f(){ scoreboard players set give obj 1; tellraw @a give; }', [dict(header="#del give\n"), dict(header="#del say\n"), dict(header=None)], tags=["header"])
    + FAMILY("override", 'function otherns.g(){ say "o"; } function f(){ otherns.g(); }',
             [dict(header="#override otherns\n"), dict(header="#override thirdns\n"), dict(header=None), dict(header="#override otherns\n#override thirdns\n")], tags=["header"])
    + FAMILY("link", 'function f(){ otherpack.api(); }', [dict(header="#link otherpack\n"), dict(header="#link pack2\n"), dict(header=None)], tags=["header"])
    + FAMILY("resource", 'new myres(x.y) {"a":1}', [dict(header="#resource myres\n"), dict(header="#resource my.res2\n"), dict(header=None)], tags=["header"])
    + FAMILY("flags", 'function uninstall(){ say "bye"; } Team.add(red); ' + BODY,
             [dict(header=None), dict(header="#forcebst\n"), dict(header="#show_private_command\n"), dict(header="#nometa\n"), dict(header='#credit "one"\n'),
              dict(header='#credit "two"\n#credit\n'), dict(header="#uninstall\n")], tags=["header"])
    + FAMILY("names", NAMES_SRC, [dict(cert=FULL), dict(cert=CUSTOM), dict(cert=CUSTOM2), dict(cert="LOAD=ld\nTICK=tk\nPRIVATE=pv\nVAR=__variable__\nINT=__int__\nSTORAGE=st2")],
             tags=["sets-names"])
    + FAMILY("packformat", PF_SRC, [dict(pf="48"), dict(pf="15"), dict(pf="26"), dict(pf="41"), dict(pf="71")])
    + FAMILY("namespace", NAMES_SRC + " function h(){ f(); g(); }", [dict(ns="TEST"), dict(ns="mypack"), dict(ns="a_b")])
    + FAMILY("description", BODY, [dict(desc="first pack"), dict(desc="second pack")], only=["PYJMC", "CLI"])
    + FAMILY("include", INC_SRC, [dict(files={"inc.hjmc": "#define INC 9\n#command incmd\n"}), dict(files={"inc.hjmc": "#define INC 11\n#command incmd\n"}),
                                  dict(files={"inc.hjmc": '#include "sub/inc2"\n', "sub/inc2.hjmc": "#define INC 13\n#command incmd\n#command incmd2\n"})],
             header='#include "inc"\n', tags=["header", "disk"])
    + FAMILY("import", IMP_SRC, [dict(files={"lib/a.jmc": IMP_A1, "more/m.jmc": 'say "m";'}), dict(files={"lib/a.jmc": IMP_A2, "more/m.jmc": 'say "m";'}),
                                 dict(files={"lib/a.jmc": IMP_A1, "lib/b.jmc": 'say "b";', "lib/sub/c.jmc": 'say "c"; function lib.c() { say "C"; }', "more/m.jmc": 'say "m";'}),
                                 dict(files={"lib/a.jmc": IMP_A1, "lib/sub/c.jmc": 'say "c";', "more/m.jmc": 'say "m2";', "more/n.jmc": 'say "n";'}),
                                 dict(files={"lib/a.jmc": IMP_A1})], tags=["disk", "multi"])
    + FAMILY("copy", 'function f(){ extra.x(); }', [dict(files=ASSETS), dict(files={"assets/data/extra/function/x.mcfunction": "say other x", "assets/pack.png": "PNG2"})],
             header='#copy "assets"\n#override extra\n', tags=["header", "disk"])
)
# ---- strengthening round 3: the INSERTION paths of the iterated sets.  `DataPack.ints` (iterated by build() to emit the `__int__` constants)
# is filled through eight `add_int(...)` calls; each project below goes through some of them with several other constants, so that a
# non-int element (which sits in the set by its randomised hash) changes the order of the emitted lines between hash seeds.
SETSITE = [
    P("ints_expr_mod", 'function f(){ $a := $b % 7 + 3 * $c; $d := ($e % 1000) * 12; $g := $h / 5 % 11; }', tags=["sets", "setsite"]),
    P("ints_expr_mod2", 'function f(){ $a := $b % 1024; $c := $d * 40 % 9 + $e; $x *= 6; $y %= 25; } function g(){ $p := ($q + 1) % 360 * 2; }', tags=["sets", "setsite"]),
    P("ints_expr_muldiv", 'function f(){ $a := $b * 6 / 4; $c := ($d + 2) * 100 / 9; $e := $f * 31 * $g / 17; }', tags=["sets", "setsite"]),
    P("ints_expr_float", 'function f(){ $a := $b * 1.5; $c := $d / 0.25; $e := $f * 0.3; $g := $h / 1.7; $i := $j * 20; }', tags=["sets", "setsite"]),
    P("ints_expr_intmin", 'function f(){ $a := $b + -2147483648; $c := $d - -2147483648; $e := $f * 9; $g := $h % 13; }', tags=["sets", "setsite"]),
    P("ints_math", 'function f(){ $r = Math.random(min=-2147483648, max=5); $s = Math.sqrt($x); $t *= 77; $u %= 19; $v /= 300; }', tags=["sets", "setsite"]),
    P("ints_mixed", 'function f(){ $a *= 8; $b := $c % 50 * 3.5; $d := $e * 12 - $f / 0.2; $s = Math.sqrt($d); $g %= 1000; }', cert=CUSTOM, tags=["sets", "setsite", "sets-names"]),
    # sets of the header / GUI that an iteration site mentions: every statement that adds to them
    P("sets_header_paths", 'function otherns.g(){ say "o"; } function thirdns.h(){ say "t"; } function f(){ if (mykind entity @s || kind2 entity @s) { say "k"; } }',
      header='#override otherns\n#override thirdns\n#command execute if mykind\n#command execute if kind2\n#static "keep"\n#static "keep2"\n',
      pre_files={"data/TEST/keep/a.txt": "A", "data/TEST/keep2/b.txt": "B"}, only=["CLI"], tags=["sets", "setsite", "header", "disk"]),
    P("sets_gui_single", 'Item.create(it, stone, "Name"); Item.create(it2, dirt, "N2"); GUI.template(g2, ["ab"], block); GUI.registers(g2, "a", [it], $v); '
      'GUI.registers(g2, "b", [it2], $v); GUI.create(g2);', pf="41", tags=["sets", "setsite"]),
]
FAMILIES = FAMILIES + SETSITE          # treated like family members by the history experiment (each after itself + a sample), all seeds
POOL += FAMILIES
ENTRIES = ["TEST", "PYJMC", "CLI"]


def fits(entry, pid):
    by = {p["id"]: p for p in POOL}
    return not by[pid].get("only") or entry in by[pid]["only"]


def items(entry, pids):
    by = {p["id"]: p for p in POOL}
    return [dict(by[i], entry=entry) for i in pids if fits(entry, i)]


def run_seq(seq, hashseed="0", statediff=False, **extra):
    return run_py(RUNNER, dict(seq=seq, statediff=statediff, **extra), timeout=600, hashseed=hashseed)


def same(a, b):
    if a["ok"] != b["ok"]:
        return False
    if a["ok"]:
        return a["files"] == b["files"]
    return a["exc"] == b["exc"] and a["msg"] == b["msg"]


def describe_diff(a, b):
    if a["ok"] != b["ok"]:
        return dict(alone="compiled" if a["ok"] else f"{a['exc']}: {a['msg'][:300]}", other="compiled" if b["ok"] else f"{b['exc']}: {b['msg'][:300]}")
    if not a["ok"]:
        return dict(alone=f"{a['exc']}: {a['msg'][:600]}", other=f"{b['exc']}: {b['msg'][:600]}")
    out = {}
    for k in sorted(set(a["files"]) | set(b["files"])):
        if a["files"].get(k) != b["files"].get(k):
            out[k] = dict(alone=a["files"].get(k), other=b["files"].get(k))
            if len(out) >= 4:
                break
    return out


BENIGN_STATE = re.compile(r"\.logger\.|^jmc\.compile\.log\.|^jmc\.compile\.hooks\._message_handler$|SingleTonMeta\._instances$|<type>$|"
                          r"^<singleton>GlobalData\.|^jmc\..*\.global_data\.")


def classify_state(path, t):
    """model field a changed global belongs to, 'benign' (logging, terminal hooks) or None = outside the model"""
    if BENIGN_STATE.search(path):
        return "benign"
    m = re.match(r"^<singleton>Header\.(\w+)$", path)
    if m:
        return "HF " + m.group(1) if t is None or ("HF", m.group(1)) in t["fields"] else None
    m = re.match(r"^jmc\.compile\.datapack\.DataPack\.(\w+)$", path)
    if m:
        return "DF " + m.group(1) if t is None or ("DF", m.group(1)) in t["fields"] else None
    if re.match(r"^jmc\..*\.ISOLATED_ENVIRONMENT\.(exec_global|content)$", path):
        return "PyEnv"
    if path.endswith(".<functools-cache>"):
        return "cache"          # a memo that outlives the compile: judged by the cache audit (pure in its key, or a witness)
    return None


OBLIG = ("From Coq Require Import String List Bool.\nFrom JMCV Require Import Model.Proc Proofs.Proc Props.C12 Run.C12 Gen.C12.ProcTable.\n"
         "Import ListNotations.\n"
         "Eval vm_compute in leak_report U entries.\n"
         "Eval vm_compute in seed_dependent_sites set_sites.\n"
         "Theorem table_history_free : all_history_free U entries = true.\nProof. vm_compute. reflexivity. Qed.\n"
         "Theorem C12_history_free_of_the_source : forall (V I O : Type) (W : world V I O) name steps, In (name, steps) entries ->\n"
         "  forall (h : list (list step * I)) (g0 : G V) (i : I), output U W steps i (run_history U W h g0) = output U W steps i g0.\n"
         "Proof. intros V I O W name steps Hin. apply C12_history_free.\n"
         "  pose proof table_history_free as H. unfold all_history_free in H. rewrite forallb_forall in H. exact (H _ Hin). Qed.\n"
         "Print Assumptions C12_history_free_of_the_source.\n"
         "Theorem set_sites_seed_free : seed_free set_sites = true.\nProof. vm_compute. reflexivity. Qed.\n")


def main(tier: str) -> int:
    ck = Check(PROP, tier)
    ck.cov["trusted_base"] = COMMON_TRUSTED[:1] + [
        "MODELLING ASSUMPTION (not proved; validated every run by the pair experiment and the global-state diff): a compile reads no process "
        "state outside the regenerated field universe U (Header fields, DataPack name attributes, JMC.python environment), and header parsing "
        "reads only Header fields (syntactic check of header_parse.py and the functions it imports)",
        "harness/translate_proc.py (fail-closed ast translator): Header.__clear, read_cert/get_cert, IsolatedEnvironment.reset, Lexer.__init__, "
        "the three entry points (order of calls), every iteration over a set-typed expression",
        "CPython facts: int hashes (hence iteration order of set[int]) do not depend on PYTHONHASHSEED; dicts iterate in insertion order. That a "
        "set annotated set[int] holds ints only is CHECKED: every insertion path (regenerated, translate_proc.read_set_insertions) is exercised by a pool "
        "project and the element types are compared with the annotation after every traced compile",
        "the file system / cwd / OS directory order are part of the input (glob order of `import \"dir/*\"` is not modelled; the wildcard "
        "projects are compiled in several fresh temporary folders and under every seed, results must agree)",
        "harness/c12.py + c12_run.py (pool of projects, entry-point drivers, byte comparison of results; the self-tests that undo one "
        "reset / perturb one module-level container in the runner process only MEASURE the pool, no verdict depends on them)",
        "translate_proc.py additionally checks that a module constant copied by a reset (VANILLA_CONDITIONS.copy()) is a flat literal that no "
        "statement of the package mutates or aliases by name",
        "memoisation (functools caches, module-level / class-level / default-argument / closure containers) is process state outside U: containers "
        "that change are reported by the state diff; a functools cache is accepted only if every entry an earlier compile stored is what the "
        "un-cached function computes after every later compile of the pool (c12_run.py CacheAudit; caches it cannot intercept are reported)",
    ]
    ck.proof(extra_targets=["Run/C12.vo"])

    # ---------------------------------------------------------------- regenerated table
    t, terr = None, None
    try:
        t = TP.translate(REPO)
    except (TP.Untranslatable, SyntaxError, OSError) as e:
        terr = f"{type(e).__name__}: {e}"
    d = gen_dir(PROP)
    oblig_ok, leak_txt, seed_txt = False, "", ""
    if t:
        (d / "ProcTable.v").write_text(TP.coq_text(t))
        ok, out = coqc_file(d / "ProcTable.v")
        if not ok:
            terr, t = "generated ProcTable.v does not compile: " + out[-1500:], None
    if t:
        (d / "Obligations.v").write_text(OBLIG)
        oblig_ok, oout = coqc_file(d / "Obligations.v")
        blocks = re.split(r"\n\s*=\s", "\n" + oout)
        leak_txt = blocks[1].split("\n     :")[0] if len(blocks) > 1 else oout[-1500:]
        seed_txt = blocks[2].split("\n     :")[0] if len(blocks) > 2 else ""
        ck.cov["regenerated_obligations"] = dict(file="coq/Gen/C12/Obligations.v", checked=oblig_ok,
                                                 theorems=["table_history_free", "C12_history_free_of_the_source", "set_sites_seed_free"])
        ck.cov["obligations"] = ck.cov.get("obligations", 0) + 3
        if oblig_ok:
            ck.cov["discharged"] = ck.cov.get("discharged", 0) + 3

    # ---------------------------------------------------------------- experiments
    ids = [p["id"] for p in POOL]
    rng = ck.rng
    import time as _t
    phase, _last = {}, [_t.time()]

    def lap(name):
        now = _t.time()
        phase[name] = round(phase.get(name, 0) + now - _last[0], 1)
        _last[0] = now
    # (1) baselines: every project alone in a fresh process, per entry point
    base_jobs = [(e, i) for e in ENTRIES for i in ids if fits(e, i)]
    with ThreadPoolExecutor(max_workers=NCPU) as ex:
        base_res = list(ex.map(lambda ei: run_seq(items(ei[0], [ei[1]]))["results"][0], base_jobs))
    base = {ei: r for ei, r in zip(base_jobs, base_res)}

    lap("baselines")
    # (1b) the same again in a second fresh process (another temporary location, same seed): projects with real files / sets
    again_jobs = [(e, i) for (e, i) in base_jobs if tier == "thorough" or set(next(p for p in POOL if p["id"] == i)["tags"]) & {"disk", "multi", "sets"}]
    with ThreadPoolExecutor(max_workers=NCPU) as ex:
        again_res = list(ex.map(lambda ei: run_seq(items(ei[0], [ei[1]]))["results"][0], again_jobs))
    unstable = {ei: r for ei, r in zip(again_jobs, again_res) if not same(base[ei], r)}

    lap("fresh_repeat")
    # (2) histories: A, B1, A, B2, … in one process (one process per entry point x A)
    sensitive = [p["id"] for p in POOL if set(p["tags"]) & {"lacks-keys", "pyenv", "observer"}] + ["plain", "header_all"]
    hist_jobs = []
    for e in ENTRIES:
        eids = [i for i in ids if fits(e, i)]
        for a in eids:
            by_ = {p["id"]: p for p in POOL}
            fam = {p["id"] for p in FAMILIES} & set(eids)
            if tier == "thorough":
                bs = [b for b in eids]
            elif e == "TEST" and a not in fam:      # round-1 pool: everything after everything; + a sample of the same-text families
                bs = [b for b in eids if b not in fam] + rng.sample(sorted(fam), 6)
            else:       # always: the project itself again (autocompile), the other edits of the same folder (for a same-text family: every
                        # other definition of the entity, so both orders of every pair occur), everything that observes
                must = [b for b in eids if b == a or (by_[a].get("dir") and by_[b].get("dir") == by_[a].get("dir"))]
                sens = [b for b in sensitive if fits(e, b)]
                if e == "PYJMC":        # same virtual build as TEST (which runs all x all): a sample of the observers is enough
                    sens = rng.sample(sens, min(12, len(sens)))
                if a in fam:            # a same-text family member: its family (both orders), a few observers, a few others
                    sens = rng.sample(sens, min(5, len(sens)))
                rest = [b for b in eids if b not in sens and b not in must]
                bs = list(dict.fromkeys(must + sens + rng.sample(rest, min(3 if a in fam else 4, len(rest)))))
            seq = []
            for b in bs:
                seq += [a, b]
            hist_jobs.append((e, a, bs, seq))
    # mixed entry points and longer random histories
    mixed_jobs = []
    for k in range(12 if tier == "quick" else 60):
        hist = [(rng.choice(ENTRIES), rng.choice(ids)) for _ in range(rng.randint(2, 6))]
        last = (rng.choice(ENTRIES), rng.choice(sensitive))
        job = [(e, i) if fits(e, i) else ("CLI", i) for e, i in hist + [last]]
        mixed_jobs.append(job)

    def run_hist(job):
        e, a, bs, seq = job
        return run_seq(items(e, seq))["results"]

    def run_mixed(job):
        by = {p["id"]: p for p in POOL}
        return run_seq([dict(by[i], entry=e) for e, i in job])["results"]

    with ThreadPoolExecutor(max_workers=NCPU) as ex:
        hist_res = list(ex.map(run_hist, hist_jobs))
        mixed_res = list(ex.map(run_mixed, mixed_jobs))

    n_pairs = 0
    leaks = []          # (entry, history [(entry,id)…], project id, alone, after)
    for (e, a, bs, seq), res in zip(hist_jobs, hist_res):
        for k, b in enumerate(bs):
            n_pairs += 1
            r = res[2 * k + 1]
            if not same(base[(e, b)], r):
                leaks.append(dict(entry=e, history=[(e, x) for x in seq[:2 * k + 1]], short=[(e, a)], project=b, alone=base[(e, b)], after=r))
    for job, res in zip(mixed_jobs, mixed_res):
        n_pairs += 1
        e, b = job[-1]
        if not same(base[(e, b)], res[-1]):
            leaks.append(dict(entry=e, history=job[:-1], short=job[-2:-1], project=b, alone=base[(e, b)], after=res[-1]))

    lap("histories")
    # (2c) the same project again, handing the compiler the very SAME argument objects (envs list, jmc.txt dict, JMCTestPack object)
    arg_entries = ["TEST", "PYJMC"]
    with ThreadPoolExecutor(max_workers=NCPU) as ex:
        arg_res = list(ex.map(lambda e: run_seq([x for i in ids for x in items(e, [i, i])], reuse_args=True)["results"], arg_entries))
    arg_diffs = []
    n_args = 0
    for e, res in zip(arg_entries, arg_res):
        eids = [i for i in ids if fits(e, i)]
        for k, i in enumerate(eids):
            n_args += 1
            if not same(base[(e, i)], res[2 * k + 1]) or res[2 * k].get("args_mutated") or res[2 * k + 1].get("args_mutated"):
                arg_diffs.append((e, i))

    lap("same_arguments")
    # (3) hash seeds: the whole pool in one process per seed (TEST entry; thorough: all entries), compared with seed 0
    #     the disk entry points (PYJMC, CLI) always run the projects with real files / sets / headers; thorough: everything
    seeds = ["1", "2", "3", "random"]
    seed_entries = ENTRIES
    seed_ids = {e: [i for i in ids if fits(e, i) and (e == "TEST" or tier == "thorough" or
                                                      set(next(p for p in POOL if p["id"] == i)["tags"]) & {"disk", "multi", "sets", "header", "mutator"})]
                for e in seed_entries}
    seed_jobs = [(e, s) for e in seed_entries for s in ["0"] + seeds]
    # round 3: the projects that populate sets (tag `sets`) under further seeds: 8 seeds + a random one in all
    more_seeds = ["4", "5", "6", "7"]
    set_ids = {e: [i for i in seed_ids[e] if "sets" in next(p for p in POOL if p["id"] == i)["tags"]] for e in seed_entries}
    more_jobs = [(e, s) for e in seed_entries for s in more_seeds]
    with ThreadPoolExecutor(max_workers=NCPU) as ex:
        seed_res = list(ex.map(lambda es: run_seq(items(es[0], seed_ids[es[0]]), hashseed=es[1])["results"], seed_jobs))
        more_res = list(ex.map(lambda es: run_seq(items(es[0], set_ids[es[0]]), hashseed=es[1])["results"], more_jobs))
    seed_by = dict(zip(seed_jobs, seed_res))
    seed_diffs = []
    n_seed = 0
    for e in seed_entries:
        for s in seeds:
            for k, b in enumerate(seed_ids[e]):
                n_seed += 1
                if not same(seed_by[(e, "0")][k], seed_by[(e, s)][k]):
                    seed_diffs.append((e, s, b))
    for (e, s), res in zip(more_jobs, more_res):
        for b, r in zip(set_ids[e], res):
            n_seed += 1
            if not same(seed_by[(e, "0")][seed_ids[e].index(b)], r):
                seed_diffs.append((e, s, b))

    lap("seeds")
    # (4) what does a run write?  (whole pool through each entry point, state diff) — and, in the same processes, what does the pool
    #     REACH: every set-iteration site of the regenerated table (how many elements), every set-typed attribute (how many elements),
    #     every Header field (which projects leave it different from its reset value)
    trace_spec = None
    if t:
        trace_spec = dict(sites=[dict(file=s["file"], func=s["func"], line=s["line"], end_line=s["end_line"], expr=s["expr"], evaluable=s["evaluable"])
                                 for s in t["set_sites"]],
                          set_attrs={a: o for a, (_, o) in t["set_attrs"].items()}, fields=list(t["header"]["cleared"]),
                          inserts=[dict(file=s["file"], func=s["func"], line=s["line"], end_line=s["end_line"]) for s in t["set_insertions"]],
                          set_elems={a: el for a, (el, _) in t["set_attrs"].items()})
    with ThreadPoolExecutor(max_workers=NCPU) as ex:
        sdr = list(ex.map(lambda e: run_seq(items(e, ids), statediff=True, **(dict(trace=trace_spec) if trace_spec else {})), ENTRIES))
    sd = [r["statediff"] for r in sdr]
    written = sorted({p for l in sd for p in (l or [])})
    outside = [p for p in written if classify_state(p, t) is None]
    site_reach, attr_size, field_mutators = [], {}, {}
    insert_reach, type_errors = [], []
    if t:
        for s_ in t["set_insertions"]:
            nm = s_["set"].split(".")[-1].split(":")[-1]
            iters = [k for k, st in enumerate(t["set_sites"]) if re.search(r"\b%s\b" % re.escape(nm), st["expr"])
                     or (nm in ("conditions",) and "valid_condition_kinds" in st["expr"])]
            insert_reach.append(dict(set=s_["set"], site=f"{s_['file']}:{s_['func']}:{s_['line']}", text=s_["text"], via=s_["via"], compiles_reached=0,
                                     compiles_with_2_or_more_elements=0, projects=[], _iter_sites=set(iters),
                                     iterated_in_hash_order=any(t["set_sites"][k]["cls"] in ("UIntOrdered", "USeedOrdered") for k in iters)))
        site_reach = [dict(site=f"{s['file']}:{s['func']}:{s['line']}:{s['expr'][:50]}", elem=s["elem"], cls=s["cls"], compiles_reached=0,
                           compiles_with_2_or_more=0, max_elements=0, projects=[]) for s in t["set_sites"]]
        for e, r in zip(ENTRIES, sdr):
            for it, res in zip(items(e, ids), r["results"]):
                tr = res.get("trace") or {}
                for k, n in (tr.get("sites") or {}).items():
                    sr = site_reach[int(k)]
                    sr["compiles_reached"] += 1
                    if n >= 2 or n < 0:         # n < 0: reached, size not measurable (expression with a call)
                        sr["compiles_with_2_or_more"] += n >= 2
                        if len(sr["projects"]) < 4 and f"{e}:{it['id']}" not in sr["projects"]:
                            sr["projects"].append(f"{e}:{it['id']}")
                    sr["max_elements"] = max(sr["max_elements"], n)
                for a, n in (tr.get("set_sizes") or {}).items():
                    attr_size[a] = max(attr_size.get(a, 0), n)
                for k in (tr.get("inserts") or {}):
                    ir = insert_reach[int(k)]
                    ir["compiles_reached"] += 1
                    sizes_ = [n for k2, n in (tr.get("sites") or {}).items() if int(k2) in ir["_iter_sites"]]
                    attr_n = (tr.get("set_sizes") or {}).get(ir["set"], -1)
                    if any(n >= 2 for n in sizes_) or attr_n >= 2:
                        ir["compiles_with_2_or_more_elements"] += 1
                        if len(ir["projects"]) < 4 and f"{e}:{it['id']}" not in ir["projects"]:
                            ir["projects"].append(f"{e}:{it['id']}")
                for te in tr.get("set_type_errors") or []:
                    type_errors.append(dict(te, entry=e, project=it["id"]))
                for f in tr.get("mutated") or []:
                    field_mutators.setdefault(f, set()).add(it["id"])

    lap("statediff_reach")
    # (4b) CACHE AUDIT (strengthening round 2): every functools cache of the package that outlives a compile is called through a recording
    #      proxy while the pool (then the same-text families in reverse order) is compiled in one process per entry point; after every
    #      compile the entries stored by earlier compiles are recomputed with the un-cached function and compared with the cached value
    fam_ids = [p["id"] for p in FAMILIES]
    audit_entries = ["TEST", "CLI"] if tier == "quick" else ENTRIES
    with ThreadPoolExecutor(max_workers=NCPU) as ex:
        audits = list(ex.map(lambda e: run_seq(items(e, ids + fam_ids[::-1]), audit=True).get("audit") or {}, audit_entries))
    cache_rows, witnesses = {}, []
    for e, a in zip(audit_entries, audits):
        for c in a.get("caches", []):
            row = cache_rows.setdefault(c["cache"], dict(c, entry_points=[]))
            row["entry_points"].append(e)
            for k_ in ("entries", "recorded_keys", "recomputed", "hits_on_entries_of_an_earlier_compile", "recorded_calls"):
                row[k_] = max(row[k_], c[k_])
            row["intercepted"] = row["intercepted"] or c["intercepted"]
        witnesses += [dict(w, entry=e) for w in a.get("witnesses", [])]
    lap("cache_audit")
    # (5) SELF-TEST of the pool (no verdict depends on it; it measures what the pair experiment could see): for every field of the
    #     regenerated Header universe the reset of that ONE field is undone in the runner process (Header.__clear runs, then the field
    #     gets its previous object back — exactly what a missing reset or an aliased / un-copied reset value does), the pool is compiled
    #     twice in that process, and the second pass is compared with the baselines: `sensitivity[f]` = projects whose result differs.
    sensitivity = {}
    jobs1, jobs2 = [], []
    if t:
        sens_fields = list(t["header"]["cleared"])
        order_ = [i for i in ids]
        def sens_run(job):
            e, f = job
            its = items(e, order_)
            kw = dict(keep_pyenv=True) if f == "<PyEnv>" else dict(keep_field=f)
            res = run_seq(its + its, **kw)["results"][len(its):]
            return [it["id"] for it, r in zip(its, res) if not same(base[(e, it["id"])], r)]
        jobs1 = [("TEST", f) for f in sens_fields + ["<PyEnv>"]]
        with ThreadPoolExecutor(max_workers=NCPU) as ex:
            r1 = list(ex.map(sens_run, jobs1))
        for (e, f), diff in zip(jobs1, r1):
            sensitivity[f] = dict(TEST=len(diff), examples=diff[:4])
        jobs2 = [("CLI", f) for f in sens_fields if tier == "thorough" or not sensitivity[f]["TEST"]]
        with ThreadPoolExecutor(max_workers=NCPU) as ex:
            r2 = list(ex.map(sens_run, jobs2))
        for (e, f), diff in zip(jobs2, r2):
            sensitivity[f]["CLI"] = len(diff)
            sensitivity[f]["examples"] = (sensitivity[f]["examples"] + ["CLI:" + d for d in diff])[:4]

    # (6) SELF-TEST, reads of module-level / class-level containers: each container of the package is perturbed in the runner process
    #     (words used by the pool's projects added, every other entry dropped — what a compile writing through an alias would do) and the
    #     pool is compiled: `seen_by` = projects whose result changes, i.e. the pool READS that container in an observable way
    glob_reach = []
    try:
        globs = run_py(RUNNER, dict(seq=[], list_globals=True), timeout=120)["globals"]
    except Exception:  # noqa
        globs = []
    words = sorted({w for p_ in POOL for txt in [p_["src"], p_.get("header") or ""] for w in re.findall(r"[A-Za-z_][A-Za-z_0-9.]*", txt)})

    # the per-class tables of the built-in functions (arg_type, defaults, …: ~80 classes x 5) are perturbed together, one run per attribute
    # name (thorough: `defaults` also class by class); everything else one container per run
    groups = {}
    for g in globs:
        if g["size"] <= 0:
            continue
        m = re.match(r"^(jmc\.compile\.(?:command\.builtin_function\.\w+|decorator_parse))\.(\w+)\.(arg_type|defaults|number_type|param_count|_ignore)$", g["path"])
        key = f"<every built-in function class>.{m.group(3)}" if m else g["path"]
        gr = groups.setdefault(key, dict(path=key, paths=[], type=g["type"], size=0))
        gr["paths"].append(g["path"])
        gr["size"] += g["size"]
        if m and tier == "thorough" and m.group(3) == "defaults":
            groups[g["path"]] = dict(path=g["path"], paths=[g["path"]], type=g["type"], size=g["size"])

    def glob_run(job):
        g, how = job
        res = run_seq(items("TEST", ids), perturb=dict(paths=g["paths"], how=how, words=words))["results"]
        return [it["id"] for it, r in zip(items("TEST", ids), res) if not same(base[("TEST", it["id"])], r)]
    glob_jobs = [(g, how) for g in groups.values() for how in (["both"] if tier == "quick" else ["add", "drop"])]
    with ThreadPoolExecutor(max_workers=NCPU) as ex:
        gres = list(ex.map(glob_run, glob_jobs))
    for (g, how), diff in zip(glob_jobs, gres):
        glob_reach.append(dict(container=g["path"], type=g["type"], size=g["size"], perturbation=how, seen_by_projects=len(diff), examples=diff[:3]))
    lap("self_test")
    # ---------------------------------------------------------------- verdict
    found = False
    reported = set()
    by = {p["id"]: p for p in POOL}

    import time as _time
    repro_cache = {}
    t_min0 = _time.time()
    MIN_BUDGET = 60 if tier == "quick" else 240        # seconds spent on shortening histories; afterwards leaks are reported un-shortened

    def reproduces(hist, lk):
        key = (tuple(map(tuple, hist)), lk["entry"], lk["project"])
        if key not in repro_cache:
            seq = [dict(by[i], entry=e) for e, i in hist] + [dict(by[lk["project"]], entry=lk["entry"])]
            r = run_seq(seq)["results"][-1]
            repro_cache[key] = None if same(lk["alone"], r) else r
        return repro_cache[key]

    # a project whose result differs between two FRESH processes (same seed, same input, other temporary folder) is not a function of
    # its inputs at all; its history pairs are not examined (they would blame an innocent earlier compile)
    alone_again = {}

    def stable_alone(lk):
        key = (lk["entry"], lk["project"])
        if key in unstable:
            return False
        if any(i == key[1] for _, i in unstable):
            return False
        if key not in alone_again:
            with ThreadPoolExecutor(max_workers=NCPU) as ex:
                alone_again[key] = list(ex.map(lambda _: run_seq(items(key[0], [key[1]]))["results"][0], range(4)))
            for r in alone_again[key]:
                if not same(lk["alone"], r):
                    unstable[key] = r
        return key not in unstable

    def report_unstable():
        seen = set()
        for (e, i), r in list(unstable.items()):
            if i in seen or len(seen) >= 3:
                continue
            seen.add(i)
            ck.violation(dict(kind="fresh-process-dependent", entry=e, project=dict(by[i], entry=e),
                              expected="the same result in every fresh process (same PYTHONHASHSEED; only the temporary folder differs)",
                              difference=describe_diff(base[(e, i)], r)))
    if unstable:
        found = True
        report_unstable()
        unstable_reported = set(unstable)
    else:
        unstable_reported = set()

    causes = set()
    for lk in sorted(leaks, key=lambda l: len(l["history"])):
        if len(reported) >= 5:
            break
        if not stable_alone(lk):
            continue
        elems = list(dict.fromkeys(tuple(h) for h in lk["history"]))
        # one report per causing project: a history that contains a project already reported as a cause is not examined again
        if any(i in causes for _, i in elems):
            continue
        # shortest reproducing history: one earlier compile if possible (candidates tried in parallel), else greedy removal from the full prefix
        hist, r = None, None
        cands = list(dict.fromkeys([tuple(tuple(c) for c in lk["short"])] + [(h,) for h in elems]))
        over = _time.time() - t_min0 > MIN_BUDGET
        if not over:
            with ThreadPoolExecutor(max_workers=NCPU) as ex:
                rs = list(ex.map(lambda c: reproduces(list(c), lk), cands))
            for c, rr in zip(cands, rs):
                if rr is not None:
                    hist, r = list(c), rr
                    break
        if hist is None:
            cur = [tuple(h) for h in lk["history"]]
            r = reproduces(cur, lk)
            if r is None:
                continue            # not reproducible: not reported
            k = 0
            while k < len(cur) and len(cur) > 1 and _time.time() - t_min0 <= MIN_BUDGET:
                # drop a block (half, quarter, … one element) starting at k
                step = max(1, (len(cur) - k) // 2)
                done = False
                while step >= 1:
                    trial = cur[:k] + cur[k + step:]
                    r2 = reproduces(trial, lk) if trial else None
                    if r2 is not None:
                        cur, r, done = trial, r2, True
                        break
                    step //= 2
                if not done:
                    k += 1
            hist = cur
        causes.update(i for _, i in hist)
        reported.add((hist[-1][1], lk["project"]))
        found = True
        ck.violation(dict(kind="history-dependent", entry=lk["entry"], history=[dict(by[i], entry=e) for e, i in hist],
                          project=dict(by[lk["project"]], entry=lk["entry"]),
                          expected="the result of compiling the project alone in a fresh process", difference=describe_diff(lk["alone"], r)))
    n_arg_reports = 0
    for e, i in arg_diffs:
        if n_arg_reports >= 3:
            break
        r = run_seq(items(e, [i, i]), reuse_args=True)["results"]
        mutated = sorted(set(r[0].get("args_mutated") or []) | set(r[1].get("args_mutated") or []))
        if same(r[0], r[1]) and not mutated:
            continue
        if not mutated and not same(r[0], run_seq(items(e, [i, i]))["results"][1]):
            continue            # also differs with fresh argument objects: a history effect (reported above), not an argument effect
        rec = dict(kind="same-arguments-dependent", entry=e, project=dict(by[i], entry=e), arguments_mutated=mutated,
                   expected="compiling twice with the same argument objects gives the same result and leaves the arguments unchanged",
                   difference=describe_diff(r[0], r[1]))
        fid = "C12-pyjmc-envs-argument-emptied"
        kn = {f["id"]: f for f in known_for(PROP)}
        if e == "PYJMC" and mutated == ["envs"] and by[i]["envs"] and "#env" in (by[i]["header"] or "") and (fid in kn):
            ck.known(fid, kn[fid]["what"])
            continue
        found = True
        n_arg_reports += 1
        ck.violation(rec)
    if set(unstable) - unstable_reported:
        found = True
        for k in unstable_reported:
            unstable.pop(k, None)
        report_unstable()
    rep_seed = set()
    for e, s, b in seed_diffs:
        if b in rep_seed:
            continue
        rep_seed.add(b)
        # confirm on the project alone: fresh process per seed
        r0 = run_seq(items(e, [b]), hashseed="0")["results"][0]
        alt = None
        for s2 in [s, "1", "2", "3", "4", "5", "6", "7"]:
            if s2 == "random":
                continue
            r1 = run_seq(items(e, [b]), hashseed=s2)["results"][0]
            if not same(r0, r1):
                alt = (s2, r1)
                break
        if alt is None:
            continue
        found = True
        ck.violation(dict(kind="hash-seed-dependent", entry=e, project=dict(by[b], entry=e), seeds=["0", alt[0]],
                          expected="byte-identical result under every PYTHONHASHSEED", difference=describe_diff(r0, alt[1])))
    # round 3: an element whose type is not the annotated element type of its set (`set[int]` holding a str): the classification of the
    # iteration sites of that set (UIntOrdered: "ints iterate in a seed-independent order") no longer holds.  Search the seeds for the
    # end-to-end pair on the project that produced it.
    rep_type = set()
    for te in type_errors:
        key = (te["set"], te["project"])
        if key in rep_type or te["project"] in rep_seed or len(rep_type) >= 3:
            continue
        rep_type.add(key)
        e, b = te["entry"], te["project"]
        r0 = run_seq(items(e, [b]), hashseed="0")["results"][0]
        alt = None
        for s2 in ["1", "2", "3", "4", "5", "6", "7", "8", "9", "10", "11", "12"]:
            r1 = run_seq(items(e, [b]), hashseed=s2)["results"][0]
            if not same(r0, r1):
                alt = (s2, r1)
                break
        what = (f"{te['set']} is annotated {te['annotated']} but holds {te['element']} ({te['type']}) after compiling this project: a set of ints "
                "iterates in a seed-independent order, any other element sits in it by its randomised hash")
        if alt:
            found = True
            rep_seed.add(b)
            ck.violation(dict(kind="hash-seed-dependent", entry=e, project=dict(by[b], entry=e), seeds=["0", alt[0]], cause=what,
                              expected="byte-identical result under every PYTHONHASHSEED", difference=describe_diff(r0, alt[1])))
        else:
            ck.violation(dict(kind="set-element-type", entry=e, project=dict(by[b], entry=e), what=what, element=te), no_input=not found)
    # round 3: every code path that INSERTS into a set which some site iterates in hash order must be exercised by the pool (in a compile
    # where the iteration sees >= 2 elements) — otherwise the seed comparison says nothing about that path (fail closed)
    unreached = [r for r in insert_reach if r["iterated_in_hash_order"] and not r["compiles_with_2_or_more_elements"]]
    if unreached:
        ck.violation(dict(kind="set-insertion-path-not-exercised", sites=[dict(set=r["set"], site=r["site"], text=r["text"]) for r in unreached],
                          what="the pool of harness/c12.py has no project that goes through this insertion into a set iterated in hash order "
                               "(with >= 2 elements): add one to SETSITE"), no_input=not found)
    # memos keyed by less than what their value depends on (cache audit): one report per cache, with the end-to-end pair when the pool has it
    rep_cache = set()
    for w in witnesses:
        if w["cache"] in rep_cache or len(rep_cache) >= 3:
            continue
        rep_cache.add(w["cache"])
        e = w["entry"]
        pair = None
        row = cache_rows.get(w["cache"], {})
        for q, r_ in [(w["stored_by"], w["recomputed_after"])] + [tuple(x) for x in row.get("cross_hit_pairs", [])]:
            if q == r_ or not (fits(e, q) and fits(e, r_)):
                continue
            after = run_seq(items(e, [q, r_]))["results"][-1]
            if not same(base[(e, r_)], after):
                pair = (q, r_, after)
                break
        found = True
        ck.violation(dict(kind="memo-keyed-by-less-than-its-inputs", entry=e, cache=w["cache"], arguments=w["arguments"], cached_value=w["cached"],
                          value_now=w["now"], history=[dict(by[w["stored_by"]], entry=e)], project=dict(by[w["recomputed_after"]], entry=e),
                          expected="a value memoised during one compile is what the function computes for the same arguments at any later time "
                                   "(else a later compile in the same process is answered with the earlier project's definitions)",
                          end_to_end=(dict(history=[dict(by[pair[0]], entry=e)], project=dict(by[pair[1]], entry=e),
                                           difference=describe_diff(base[(e, pair[1])], pair[2])) if pair else None)))
    blind = sorted(c for c, row in cache_rows.items() if row["entries"] > 0 and not row["recorded_keys"])
    if blind:
        ck.violation(dict(kind="global-state-outside-model", written=[c + ".<functools-cache>" for c in blind],
                          what="a functools cache of the package outlives the compile and could not be audited (it is not called through a module-level "
                               "name / class attribute): C12_history_free does not cover it"), no_input=not found)
    if outside:
        ck.violation(dict(kind="global-state-outside-model", written=outside,
                          what="a compile wrote process-global state that is not a field of the model (U): C12_history_free does not cover it"),
                     no_input=not found)
    if terr:
        ck.violation(dict(kind="translator-failed", error=terr, what="translate_proc.py could not regenerate the process table (fail-closed)"),
                     no_input=not found)
    elif not oblig_ok:
        ck.violation(dict(kind="regenerated-obligation-failed", file="coq/Gen/C12/Obligations.v", leak_report=leak_txt,
                          seed_dependent_sites=seed_txt,
                          what="the regenerated step lists are not history_free, or a set with str/Path elements is iterated in hash order"),
                     no_input=not found)

    lap("verdict")
    ck.cov.update(dict(
        evaluations=len(base_jobs) + len(again_jobs) + n_pairs + n_seed + n_args, distinct_nontrivial=n_pairs + n_seed + len(again_jobs) + n_args,
        phase_seconds=phase, fresh_process_repeats=len(again_jobs), same_argument_recompiles=n_args,
        rule="evaluation = one comparison of a project's result (file map or exception class+text) against its fresh-process/seed-0 result: "
             "(entry point, history, project) for histories A,B1,A,B2,… and random mixed-entry histories, (entry point, seed, project) for seeds; "
             "(entry point, project) for the second fresh process and for the recompile with the same argument objects; "
             "all are distinct tuples; non-trivial = the compared compile ran after at least one other compile, under a non-zero seed, "
             "in a second fresh process (other temporary folder) or with re-used argument objects.  The self-tests (one reset undone, one "
             "module-level container perturbed) are not counted",
        samples=[dict(entry=e, history=[a], project=bs[0]) for e, a, bs, _ in hist_jobs[:3]] + [dict(mixed=[list(x) for x in mixed_jobs[0]])],
        programs=len(POOL), pool=[dict(id=p["id"], tags=p["tags"]) for p in POOL], processes=len(base_jobs) + len(again_jobs) + len(hist_jobs) + len(mixed_jobs) + len(seed_jobs) + 3 + len(arg_entries) + len(jobs1) + len(jobs2) + len(glob_jobs) + 1,
        disagreements_checked=len(leaks) + len(seed_diffs), pairs=n_pairs, seed_comparisons=n_seed, seeds=["0"] + seeds,
        entry_points=ENTRIES, baseline_failures=sorted({f"{e}:{i}:{r['exc']}" for (e, i), r in base.items() if not r["ok"]}),
        fields=[" ".join(f) if isinstance(f, tuple) else f for f in t["fields"]] if t else [],
        steps={k: len(v) for k, v in t["entries"].items()} if t else {},
        set_sites=[dict(site=f"{s['file']}:{s['func']}:{s['expr'][:50]}", elem=s["elem"], use=s["use"], cls=s["cls"]) for s in t["set_sites"]] if t else [],
        header_only_check=t["header_only"] if t else None,
        container_fields=[dict(field=f, reset=t["header"]["resets"][f]["text"], kind=t["header"]["resets"][f]["kind"],
                               mutated_by_projects=len(field_mutators.get(f, ())), mutators=sorted(field_mutators.get(f, ()))[:4],
                               missing_reset_seen_by_projects=sum(v for k, v in sensitivity.get(f, {}).items() if k in ("TEST", "CLI")),
                               observers=sensitivity.get(f, {}).get("examples", []))
                          for f in t["container_fields"]] if t else [],
        scalar_fields=[dict(field=f, reset=t["header"]["resets"][f]["text"], mutated_by_projects=len(field_mutators.get(f, ())),
                            missing_reset_seen_by_projects=sum(v for k, v in sensitivity.get(f, {}).items() if k in ("TEST", "CLI")))
                       for f in t["header"]["cleared"] if f not in t["container_fields"]] if t else [],
        pyenv_missing_reset_seen_by_projects=sensitivity.get("<PyEnv>", {}).get("TEST"),
        fields_where_a_missing_reset_is_invisible_to_the_pool=sorted(f for f, v in sensitivity.items() if not (v.get("TEST") or v.get("CLI"))),
        module_level_container_read_reach=glob_reach,
        module_level_containers_whose_change_no_project_sees=sorted({g["container"] for g in glob_reach} -
                                                                    {g["container"] for g in glob_reach if g["seen_by_projects"]}),
        set_site_reach=site_reach,
        set_sites_not_reached_with_2_elements=[r["site"] for r in site_reach if not r["compiles_with_2_or_more"] and r["max_elements"] >= 0
                                               and not (r["compiles_reached"] and r["max_elements"] < 0)],
        set_attribute_max_elements=dict(sorted(attr_size.items())),
        set_insertion_reach=[{k: v for k, v in r.items() if not k.startswith("_")} for r in insert_reach],
        set_insertion_sites_not_reached_with_2_elements=[f"{r['set']} <- {r['site']} {r['text']}" for r in insert_reach if not r["compiles_with_2_or_more_elements"]],
        set_element_type_errors=type_errors[:6], seeds_for_set_projects=["0"] + seeds + more_seeds,
        set_projects={e: len(v) for e, v in set_ids.items()},
        seed_projects={e: len(v) for e, v in seed_ids.items()},
        globals_written=written, globals_written_outside_model=outside,
        persistent_functools_caches=sorted(cache_rows.values(), key=lambda c: c["cache"]), memo_witnesses=witnesses[:6],
        same_text_families={f: dict(members=len(m), ordered_pairs_compiled_per_entry_point=len(m) * (len(m) - 1),
                                    pairs_whose_results_differ={e: sum(1 for a in m for b in m if a < b and (e, a) in base and (e, b) in base
                                                                       and not same(base[(e, a)], base[(e, b)])) for e in ENTRIES})
                            for f in sorted({t[4:] for p in FAMILIES for t in p["tags"] if t.startswith("fam:")})
                            for m in [sorted(p["id"] for p in FAMILIES if "fam:" + f in p["tags"])]},
    ))
    return ck.finish()


# proposed entry of known_findings.json (used until it is registered, or — better — until fixes/C12-pyjmc-envs-argument.patch is committed,
# after which the failure no longer occurs and this entry should be deleted so that a regression is a VIOLATION)
PROPOSED_KNOWN = {
    "C12-pyjmc-envs-argument-emptied": dict(
        id="C12-pyjmc-envs-argument-emptied", property="C12",
        what="jmc.api.PyJMC stores the caller's `envs` list in Header().envs without copying it and `#env NAME` removes NAME from that list: "
             "building again with the same list object compiles `#env NAME` to 0 instead of 1 (api/_py_jmc.py:81; the CLI and JMCTestPack copy)",
        match=dict(entry="PYJMC", arguments_mutated=["envs"], project="passes envs and its header has #env")),
}


def replay(path: str) -> int:
    rp = json.loads(Path(path).read_text() if Path(path).exists() else (VERIF / path).read_text())
    if rp.get("kind") == "history-dependent":
        alone = run_seq([rp["project"]])["results"][0]
        after = run_seq(rp["history"] + [rp["project"]])["results"][-1]
        print("project  :", rp["project"]["id"], "via", rp["entry"], "| history:", [(h["entry"], h["id"]) for h in rp["history"]])
        print("expected : identical results; alone  ->", "compiled" if alone["ok"] else alone["exc"])
        print("actual   :", "identical" if same(alone, after) else json.dumps(describe_diff(alone, after), indent=1)[:2000])
        return 0 if same(alone, after) else 1
    if rp.get("kind") == "hash-seed-dependent":
        r0 = run_seq([rp["project"]], hashseed=rp["seeds"][0])["results"][0]
        r1 = run_seq([rp["project"]], hashseed=rp["seeds"][1])["results"][0]
        print("project  :", rp["project"]["id"], "via", rp["entry"], "| PYTHONHASHSEED", rp["seeds"])
        print("expected : identical results")
        print("actual   :", "identical" if same(r0, r1) else json.dumps(describe_diff(r0, r1), indent=1)[:2000])
        return 0 if same(r0, r1) else 1
    if rp.get("kind") == "same-arguments-dependent":
        r = run_seq([rp["project"], rp["project"]], reuse_args=True)["results"]
        mutated = sorted(set(r[0].get("args_mutated") or []) | set(r[1].get("args_mutated") or []))
        print("project  :", rp["project"]["id"], "via", rp["entry"], "| compiled twice in one process with the same argument objects")
        print("expected : identical results, arguments unchanged")
        print("actual   :", "identical" if same(r[0], r[1]) else json.dumps(describe_diff(r[0], r[1]), indent=1)[:2000], "| arguments mutated:", mutated)
        return 0 if same(r[0], r[1]) and not mutated else 1
    if rp.get("kind") == "fresh-process-dependent":
        rs = [run_seq([rp["project"]])["results"][0] for _ in range(6)]
        bad = [r for r in rs[1:] if not same(rs[0], r)]
        print("project  :", rp["project"]["id"], "via", rp["entry"], "| compiled alone in 6 fresh processes (PYTHONHASHSEED=0)")
        print("expected : identical results")
        print("actual   :", "identical" if not bad else json.dumps(describe_diff(rs[0], bad[0]), indent=1)[:2000])
        return 1 if bad else 0
    if rp.get("kind") == "memo-keyed-by-less-than-its-inputs":
        a = run_seq(rp["history"] + [rp["project"]], audit=True).get("audit") or {}
        ws = [w for w in a.get("witnesses", []) if w["cache"] == rp["cache"]]
        print("cache    :", rp["cache"], "| compiled in one process:", [h["id"] for h in rp["history"]], "then", rp["project"]["id"], "via", rp["entry"])
        print("expected : every value stored during the first compile is what the un-cached function computes after the second")
        print("actual   :", "as expected" if not ws else json.dumps([dict(arguments=w["arguments"], cached=w["cached"], now=w["now"]) for w in ws[:3]], indent=1))
        if rp.get("end_to_end"):
            ee = rp["end_to_end"]
            alone = run_seq([ee["project"]])["results"][0]
            after = run_seq(ee["history"] + [ee["project"]])["results"][-1]
            print("end to end:", ee["project"]["id"], "after", [h["id"] for h in ee["history"]], "->",
                  "identical to the fresh-process result" if same(alone, after) else json.dumps(describe_diff(alone, after), indent=1)[:1500])
        return 1 if ws else 0
    print("replay file names no input (", rp.get("kind"), "):", rp.get("what"))
    return 1
