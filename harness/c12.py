"""C12 — compilation is a pure function of its inputs (no history or hash-seed effect).

Proof step (Props/C12.vo) + regenerated process table (translate_proc.py -> coq/Gen/C12/ProcTable.v, obligations
re-checked by coqc) + experiments on the real compiler through its three entry points (c12_run.py):
  * every project of a pool ALONE in a fresh process (baseline) vs AFTER other projects in one process,
  * the same sequence under PYTHONHASHSEED 0 / 1 / 2 / 3 / random,
  * a diff of all module-level / class-level state of the jmc package before and after a run (what a compile WRITES
    must lie inside the model's field universe).
Results (file map or exception class + text) must be identical.
"""
from __future__ import annotations

import json
import re
from concurrent.futures import ThreadPoolExecutor
from pathlib import Path

import translate_proc as TP
from lib import Check, COMMON_TRUSTED, NCPU, REPO, VERIF, coqc_file, gen_dir, run_py

PROP = "C12"
RUNNER = VERIF / "harness" / "c12_run.py"

FULL = "LOAD=__load__\nTICK=__tick__\nPRIVATE=__private__\nVAR=__variable__\nINT=__int__\nSTORAGE=__storage__"
CUSTOM = "LOAD=ld\nTICK=tk\nPRIVATE=pv\nVAR=vr\nINT=it\nSTORAGE=st"
CUSTOM2 = "LOAD=init\nTICK=loop\nPRIVATE=__p__\nVAR=v.s\nINT=const-int\nSTORAGE=s_t"
BODY = ('function f(){ $x = 5; $x *= 3; if ($x > 2) { say "a"; say "b"; } switch($x){ case 1: say "1"; say "1b"; case 2: say "2"; say "2b"; } } '
        'Trigger.add(helpme, ()=>{ say "t"; say "u"; });')
HEADER_ALL = ('#define N 7\n#define GREET(x) say x\n#credit "made by verif"\n#credit\n#enum E A B C\n#bind __namehash5__ five\n#link otherpack\n'
              '#command mycmd\n#del give\n#override otherns\n#resource myres\n#nometa\n#show_private_command\n#env dev\n#forcebst\n')
PY_COUNTER = 'JMC.python(`\ncounter = globals().get("counter", 0) + 1\nemit(f"say {counter}")\n`);'
PY_ENV = 'JMC.python(`\nshared = globals().get("shared", []) + ["x"]\nemit("say " + "-".join(shared))\n`, env="e1");'
PY_LEAK_THEN_FAIL = 'JMC.python(`\nleaked = 42\nemit("say pending")\nraise ValueError("boom")\n`);'
PY_READ = 'JMC.python(`\nemit("say " + str(globals().get("leaked", "clean")))\n`);'
GUI3 = ('Item.create(it, stone, "Name"); Item.create(it2, dirt, "N2"); Item.create(it3, diamond, "N3"); Item.create(it4, apple, "N4"); '
        'GUI.template(my_gui, ["abcd"], block); GUI.registers(my_gui, "a", [it], $v); GUI.registers(my_gui, "b", [it2,it3,it4], $v); GUI.create(my_gui);')


def P(pid, src, header=None, cert=FULL, envs=(), pf="48", ns="TEST", existing=True, tags=()):
    return dict(id=pid, src=src, header=header, cert=cert, envs=list(envs), pack_format=pf, namespace=ns, existing=existing, tags=list(tags))


POOL = [
    P("plain", BODY),
    P("custom", BODY, cert=CUSTOM, tags=["sets-names"]),
    P("custom2", BODY, cert=CUSTOM2, tags=["sets-names"]),
    P("nocert", BODY, cert=None, existing=False, tags=["lacks-keys"]),              # TEST: class default (no STORAGE); CLI: fresh folder
    P("partial", BODY, cert="LOAD=__load__\nTICK=__tick__\nPRIVATE=__private__", tags=["lacks-keys"]),
    P("empty_cert", BODY, cert="", tags=["lacks-keys"]),
    P("only_storage", BODY, cert="STORAGE=only_st", tags=["lacks-keys", "sets-names"]),
    P("bad_cert", BODY, cert="this is not a cert\n=\n", tags=["lacks-keys"]),
    P("header_all", 'function f(){ GREET("hi"); $n = N; $e = E.B; say "five"; mycmd 1 2; $d = dev; otherpack.api(); } '
                    'function otherns.g(){ say "o"; } new myres(x.y) {"a":1}', header=HEADER_ALL, envs=["dev"], tags=["header"]),
    P("header_noenv", 'function f(){ $d = dev; }', header="#env dev\n#define Q 3\n", tags=["header"]),
    P("env_unknown", 'function f(){ say "x"; }', header="#define Q 3\n", envs=["nosuch"], tags=["fails"]),
    P("syntax_error", 'function f(){ $x = ; }', tags=["fails"]),
    P("undefined_fn", 'function f(){ g(); }', tags=["fails"]),
    P("header_error", 'function f(){ say "x"; }', header="#define\n#nosuchdirective 3\n", tags=["fails", "header"]),
    P("py_counter", PY_COUNTER + ' function f(){ say "x"; }', tags=["pyenv"]),
    P("py_env", PY_ENV, tags=["pyenv"]),
    P("py_fail", PY_LEAK_THEN_FAIL, tags=["pyenv", "fails"]),
    P("py_read", PY_READ, tags=["pyenv"]),
    P("ints", 'function f(){ $a *= 8; $a *= 0; $a *= 16; $a *= 3; $a /= 1000; $a %= -7; $a *= 1024; $a *= 33; $a *= 65536; $a *= -1; }', tags=["sets"]),
    P("gui", GUI3, pf="41", tags=["sets"]),
    P("sign_bad_variant", 'Item.createSign(s, plastic, texts=["a"]);', tags=["fails", "sets"]),
    P("text_two_keys", 'TextProp.keybind("kb", "key.jump"); function f(){ Text.tellraw(@a, "&<$x, kb>hello"); }',
      tags=["sets"]),
    P("track", 'Debug.trackFunction("f.*", prefix="-> "); Debug.watch($w); function f(){ say "x"; $w = 1; $w += 2; } function foo.g(){ say "y"; }', tags=["header"]),
    P("legacy_pf", BODY, pf="15", cert=CUSTOM2, tags=["sets-names"]),
    P("other_ns", BODY, ns="mypack", cert="VAR=vv\nINT=ii", tags=["lacks-keys", "sets-names"]),
    P("bad_condition", 'function f(){ if (nosuchcond entity @s) { say "x"; } }', tags=["fails", "sets"]),
    P("first_join", 'Player.firstJoin(()=>{ say "hi"; }); Player.join(()=>{ say "again"; });'),
]
ENTRIES = ["TEST", "PYJMC", "CLI"]


def items(entry, pids):
    by = {p["id"]: p for p in POOL}
    return [dict(by[i], entry=entry) for i in pids]


def run_seq(seq, hashseed="0", statediff=False):
    return run_py(RUNNER, dict(seq=seq, statediff=statediff), timeout=600, hashseed=hashseed)


def same(a, b):
    if a["ok"] != b["ok"]:
        return False
    if a["ok"]:
        return a["files"] == b["files"]
    return a["exc"] == b["exc"] and a["msg"] == b["msg"]


def describe_diff(a, b):
    if a["ok"] != b["ok"]:
        return dict(alone="compiled" if a["ok"] else f"{a['exc']}: {a['msg'][:300]}", other="compiled" if b["ok"] else f"{b['exc']}: {b['msg'][:300]}")
    if not a["ok"]:
        return dict(alone=f"{a['exc']}: {a['msg'][:600]}", other=f"{b['exc']}: {b['msg'][:600]}")
    out = {}
    for k in sorted(set(a["files"]) | set(b["files"])):
        if a["files"].get(k) != b["files"].get(k):
            out[k] = dict(alone=a["files"].get(k), other=b["files"].get(k))
            if len(out) >= 4:
                break
    return out


BENIGN_STATE = re.compile(r"\.logger\.|^jmc\.compile\.log\.|^jmc\.compile\.hooks\._message_handler$|SingleTonMeta\._instances$|<type>$|"
                          r"^<singleton>GlobalData\.|^jmc\..*\.global_data\.")


def classify_state(path, t):
    """model field a changed global belongs to, 'benign' (logging, terminal hooks) or None = outside the model"""
    if BENIGN_STATE.search(path):
        return "benign"
    m = re.match(r"^<singleton>Header\.(\w+)$", path)
    if m:
        return "HF " + m.group(1) if t is None or ("HF", m.group(1)) in t["fields"] else None
    m = re.match(r"^jmc\.compile\.datapack\.DataPack\.(\w+)$", path)
    if m:
        return "DF " + m.group(1) if t is None or ("DF", m.group(1)) in t["fields"] else None
    if re.match(r"^jmc\..*\.ISOLATED_ENVIRONMENT\.(exec_global|content)$", path):
        return "PyEnv"
    return None


OBLIG = ("From Coq Require Import String List Bool.\nFrom JMCV Require Import Model.Proc Proofs.Proc Props.C12 Run.C12 Gen.C12.ProcTable.\n"
         "Import ListNotations.\n"
         "Eval vm_compute in leak_report U entries.\n"
         "Eval vm_compute in seed_dependent_sites set_sites.\n"
         "Theorem table_history_free : all_history_free U entries = true.\nProof. vm_compute. reflexivity. Qed.\n"
         "Theorem C12_history_free_of_the_source : forall (V I O : Type) (W : world V I O) name steps, In (name, steps) entries ->\n"
         "  forall (h : list (list step * I)) (g0 : G V) (i : I), output U W steps i (run_history U W h g0) = output U W steps i g0.\n"
         "Proof. intros V I O W name steps Hin. apply C12_history_free.\n"
         "  pose proof table_history_free as H. unfold all_history_free in H. rewrite forallb_forall in H. exact (H _ Hin). Qed.\n"
         "Print Assumptions C12_history_free_of_the_source.\n"
         "Theorem set_sites_seed_free : seed_free set_sites = true.\nProof. vm_compute. reflexivity. Qed.\n")


def main(tier: str) -> int:
    ck = Check(PROP, tier)
    ck.cov["trusted_base"] = COMMON_TRUSTED[:1] + [
        "MODELLING ASSUMPTION (not proved; validated every run by the pair experiment and the global-state diff): a compile reads no process "
        "state outside the regenerated field universe U (Header fields, DataPack name attributes, JMC.python environment), and header parsing "
        "reads only Header fields (syntactic check of header_parse.py and the functions it imports)",
        "harness/translate_proc.py (fail-closed ast translator): Header.__clear, read_cert/get_cert, IsolatedEnvironment.reset, Lexer.__init__, "
        "the three entry points (order of calls), every iteration over a set-typed expression",
        "CPython facts: int hashes (hence iteration order of set[int]) do not depend on PYTHONHASHSEED; dicts iterate in insertion order",
        "the file system / cwd / OS directory order are part of the input (glob order of `import \"dir/*\"` is not modelled)",
        "harness/c12.py + c12_run.py (pool of projects, entry-point drivers, byte comparison of results)",
    ]
    ck.proof(extra_targets=["Run/C12.vo"])

    # ---------------------------------------------------------------- regenerated table
    t, terr = None, None
    try:
        t = TP.translate(REPO)
    except (TP.Untranslatable, SyntaxError, OSError) as e:
        terr = f"{type(e).__name__}: {e}"
    d = gen_dir(PROP)
    oblig_ok, leak_txt, seed_txt = False, "", ""
    if t:
        (d / "ProcTable.v").write_text(TP.coq_text(t))
        ok, out = coqc_file(d / "ProcTable.v")
        if not ok:
            terr, t = "generated ProcTable.v does not compile: " + out[-1500:], None
    if t:
        (d / "Obligations.v").write_text(OBLIG)
        oblig_ok, oout = coqc_file(d / "Obligations.v")
        blocks = re.split(r"\n\s*=\s", "\n" + oout)
        leak_txt = blocks[1].split("\n     :")[0] if len(blocks) > 1 else oout[-1500:]
        seed_txt = blocks[2].split("\n     :")[0] if len(blocks) > 2 else ""
        ck.cov["regenerated_obligations"] = dict(file="coq/Gen/C12/Obligations.v", checked=oblig_ok,
                                                 theorems=["table_history_free", "C12_history_free_of_the_source", "set_sites_seed_free"])
        ck.cov["obligations"] = ck.cov.get("obligations", 0) + 3
        if oblig_ok:
            ck.cov["discharged"] = ck.cov.get("discharged", 0) + 3

    # ---------------------------------------------------------------- experiments
    ids = [p["id"] for p in POOL]
    rng = ck.rng
    # (1) baselines: every project alone in a fresh process, per entry point
    base_jobs = [(e, i) for e in ENTRIES for i in ids]
    with ThreadPoolExecutor(max_workers=NCPU) as ex:
        base_res = list(ex.map(lambda ei: run_seq(items(ei[0], [ei[1]]))["results"][0], base_jobs))
    base = {ei: r for ei, r in zip(base_jobs, base_res)}

    # (2) histories: A, B1, A, B2, … in one process (one process per entry point x A)
    sensitive = [p["id"] for p in POOL if set(p["tags"]) & {"lacks-keys", "pyenv"}] + ["plain", "header_all"]
    hist_jobs = []
    for e in ENTRIES:
        for a in ids:
            if e == "TEST" or tier == "thorough":
                bs = [b for b in ids]
            else:
                bs = sensitive + rng.sample([b for b in ids if b not in sensitive], 3)
            seq = []
            for b in bs:
                seq += [a, b]
            hist_jobs.append((e, a, bs, seq))
    # mixed entry points and longer random histories
    mixed_jobs = []
    for k in range(6 if tier == "quick" else 30):
        hist = [(rng.choice(ENTRIES), rng.choice(ids)) for _ in range(rng.randint(2, 6))]
        last = (rng.choice(ENTRIES), rng.choice(sensitive))
        mixed_jobs.append(hist + [last])

    def run_hist(job):
        e, a, bs, seq = job
        return run_seq(items(e, seq))["results"]

    def run_mixed(job):
        by = {p["id"]: p for p in POOL}
        return run_seq([dict(by[i], entry=e) for e, i in job])["results"]

    with ThreadPoolExecutor(max_workers=NCPU) as ex:
        hist_res = list(ex.map(run_hist, hist_jobs))
        mixed_res = list(ex.map(run_mixed, mixed_jobs))

    n_pairs = 0
    leaks = []          # (entry, history [(entry,id)…], project id, alone, after)
    for (e, a, bs, seq), res in zip(hist_jobs, hist_res):
        for k, b in enumerate(bs):
            n_pairs += 1
            r = res[2 * k + 1]
            if not same(base[(e, b)], r):
                leaks.append(dict(entry=e, history=[(e, x) for x in seq[:2 * k + 1]], short=[(e, a)], project=b, alone=base[(e, b)], after=r))
    for job, res in zip(mixed_jobs, mixed_res):
        n_pairs += 1
        e, b = job[-1]
        if not same(base[(e, b)], res[-1]):
            leaks.append(dict(entry=e, history=job[:-1], short=job[-2:-1], project=b, alone=base[(e, b)], after=res[-1]))

    # (3) hash seeds: the whole pool in one process per seed (TEST entry; thorough: all entries), compared with seed 0
    seeds = ["1", "2", "3", "random"]
    seed_entries = ["TEST"] if tier == "quick" else ENTRIES
    seed_jobs = [(e, s) for e in seed_entries for s in ["0"] + seeds]
    with ThreadPoolExecutor(max_workers=NCPU) as ex:
        seed_res = list(ex.map(lambda es: run_seq(items(es[0], ids), hashseed=es[1])["results"], seed_jobs))
    seed_by = dict(zip(seed_jobs, seed_res))
    seed_diffs = []
    n_seed = 0
    for e in seed_entries:
        for s in seeds:
            for k, b in enumerate(ids):
                n_seed += 1
                if not same(seed_by[(e, "0")][k], seed_by[(e, s)][k]):
                    seed_diffs.append((e, s, b))

    # (4) what does a run write?  (whole pool through each entry point, state diff)
    with ThreadPoolExecutor(max_workers=NCPU) as ex:
        sd = list(ex.map(lambda e: run_seq(items(e, ids), statediff=True)["statediff"], ENTRIES))
    written = sorted({p for l in sd for p in (l or [])})
    outside = [p for p in written if classify_state(p, t) is None]

    # ---------------------------------------------------------------- verdict
    found = False
    reported = set()
    by = {p["id"]: p for p in POOL}

    def reproduces(hist, lk):
        seq = [dict(by[i], entry=e) for e, i in hist] + [dict(by[lk["project"]], entry=lk["entry"])]
        r = run_seq(seq)["results"][-1]
        return None if same(lk["alone"], r) else r

    for lk in leaks:
        if len(reported) >= 5:
            break
        # shortest reproducing history: one earlier compile if possible, else greedy removal from the full prefix
        hist, r = None, None
        for cand in [lk["short"]] + [[h] for h in dict.fromkeys(map(tuple, lk["history"]))]:
            cand = [tuple(c) for c in cand]
            if (cand[0][1], lk["project"]) in reported:
                hist = "dup"
                break
            r = reproduces(cand, lk)
            if r is not None:
                hist = cand
                break
        if hist == "dup":
            continue
        if hist is None:
            cur = [tuple(h) for h in lk["history"]]
            r = reproduces(cur, lk)
            if r is None:
                continue            # not reproducible: not reported
            k = 0
            while k < len(cur) and len(cur) > 1:
                trial = cur[:k] + cur[k + 1:]
                r2 = reproduces(trial, lk)
                if r2 is not None:
                    cur, r = trial, r2
                else:
                    k += 1
            hist = cur
        cause = hist[-1][1]
        if any(c == cause for c, _ in reported) and len(hist) == 1:
            continue                # one report per causing project
        reported.add((cause, lk["project"]))
        found = True
        ck.violation(dict(kind="history-dependent", entry=lk["entry"], history=[dict(by[i], entry=e) for e, i in hist],
                          project=dict(by[lk["project"]], entry=lk["entry"]),
                          expected="the result of compiling the project alone in a fresh process", difference=describe_diff(lk["alone"], r)))
    rep_seed = set()
    for e, s, b in seed_diffs:
        if b in rep_seed:
            continue
        rep_seed.add(b)
        # confirm on the project alone: fresh process per seed
        r0 = run_seq(items(e, [b]), hashseed="0")["results"][0]
        alt = None
        for s2 in [s, "1", "2", "3", "4", "5", "6", "7"]:
            if s2 == "random":
                continue
            r1 = run_seq(items(e, [b]), hashseed=s2)["results"][0]
            if not same(r0, r1):
                alt = (s2, r1)
                break
        if alt is None:
            continue
        found = True
        ck.violation(dict(kind="hash-seed-dependent", entry=e, project=dict(by[b], entry=e), seeds=["0", alt[0]],
                          expected="byte-identical result under every PYTHONHASHSEED", difference=describe_diff(r0, alt[1])))
    if outside:
        ck.violation(dict(kind="global-state-outside-model", written=outside,
                          what="a compile wrote process-global state that is not a field of the model (U): C12_history_free does not cover it"),
                     no_input=not found)
    if terr:
        ck.violation(dict(kind="translator-failed", error=terr, what="translate_proc.py could not regenerate the process table (fail-closed)"),
                     no_input=not found)
    elif not oblig_ok:
        ck.violation(dict(kind="regenerated-obligation-failed", file="coq/Gen/C12/Obligations.v", leak_report=leak_txt,
                          seed_dependent_sites=seed_txt,
                          what="the regenerated step lists are not history_free, or a set with str/Path elements is iterated in hash order"),
                     no_input=not found)

    ck.cov.update(dict(
        evaluations=len(base_jobs) + n_pairs + n_seed, distinct_nontrivial=n_pairs + n_seed,
        rule="evaluation = one comparison of a project's result (file map or exception class+text) against its fresh-process/seed-0 result: "
             "(entry point, history, project) for histories A,B1,A,B2,… and random mixed-entry histories, (entry point, seed, project) for seeds; "
             "all are distinct tuples; non-trivial = the compared compile ran after at least one other compile or under a non-zero seed",
        samples=[dict(entry=e, history=[a], project=bs[0]) for e, a, bs, _ in hist_jobs[:3]] + [dict(mixed=[list(x) for x in mixed_jobs[0]])],
        programs=len(POOL), pool=[dict(id=p["id"], tags=p["tags"]) for p in POOL], processes=len(base_jobs) + len(hist_jobs) + len(mixed_jobs) + len(seed_jobs) + 3,
        disagreements_checked=len(leaks) + len(seed_diffs), pairs=n_pairs, seed_comparisons=n_seed, seeds=["0"] + seeds,
        entry_points=ENTRIES, baseline_failures=sorted({f"{e}:{i}:{r['exc']}" for (e, i), r in base.items() if not r["ok"]}),
        fields=[" ".join(f) if isinstance(f, tuple) else f for f in t["fields"]] if t else [],
        steps={k: len(v) for k, v in t["entries"].items()} if t else {},
        set_sites=[dict(site=f"{s['file']}:{s['func']}:{s['expr'][:50]}", elem=s["elem"], use=s["use"], cls=s["cls"]) for s in t["set_sites"]] if t else [],
        header_only_check=t["header_only"] if t else None,
        globals_written=written, globals_written_outside_model=outside,
    ))
    return ck.finish()


def replay(path: str) -> int:
    rp = json.loads(Path(path).read_text() if Path(path).exists() else (VERIF / path).read_text())
    if rp.get("kind") == "history-dependent":
        alone = run_seq([rp["project"]])["results"][0]
        after = run_seq(rp["history"] + [rp["project"]])["results"][-1]
        print("project  :", rp["project"]["id"], "via", rp["entry"], "| history:", [(h["entry"], h["id"]) for h in rp["history"]])
        print("expected : identical results; alone  ->", "compiled" if alone["ok"] else alone["exc"])
        print("actual   :", "identical" if same(alone, after) else json.dumps(describe_diff(alone, after), indent=1)[:2000])
        return 0 if same(alone, after) else 1
    if rp.get("kind") == "hash-seed-dependent":
        r0 = run_seq([rp["project"]], hashseed=rp["seeds"][0])["results"][0]
        r1 = run_seq([rp["project"]], hashseed=rp["seeds"][1])["results"][0]
        print("project  :", rp["project"]["id"], "via", rp["entry"], "| PYTHONHASHSEED", rp["seeds"])
        print("expected : identical results")
        print("actual   :", "identical" if same(r0, r1) else json.dumps(describe_diff(r0, r1), indent=1)[:2000])
        return 0 if same(r0, r1) else 1
    print("replay file names no input (", rp.get("kind"), "):", rp.get("what"))
    return 1
