"""C17 runner: builds real multi-file projects on disk (in a fresh temp dir) and compiles them with
jmc.api.PyJMC from a chosen cwd with a chosen spelling of the main path.

Run with /venv/bin/python and PYTHONPATH=<repo>/src (harness/lib.py: run_py).
stdin : JSON list of jobs
   {"files": {"w/proj/main.jmc": text, ...}   paths relative to the temp root; "{ROOT}" in a text is
                                              replaced by the real root directory
    "dirs": ["w/other", ...]                  extra (empty) directories
    "cwd": "w/proj"                           process cwd for the compile (relative to the root)
    "target": "main.jmc" | "{ROOT}/w/proj/main.jmc" | ...    the string given to PyJMC
    "globs": ["w/proj/sub", ...]}             directories whose glob("**/*.jmc") order is reported (round 4: besides EVERY folder
                                              found below the root, "" = the root itself; FILES only; "nodes" = [[path, "f"|"d"], ...]
                                              = every file and folder below the root, as found on disk before the compile)
   or {"seq": [job, job, ...]}                 strengthening round 2: successive states of ONE project folder (same temp root), each
                                              compiled in turn in this process; the folder is edited in place between the compiles
                                              (files added / deleted / rewritten, untouched files keep inode and mtime) -> {"seq": [result, ...]}
stdout: JSON list of
   {"ok": true, "files": {path: text}, "opens": [...], "globs": {dir: [files]}}      (the real root in a text is written "{ROOT}")
   {"ok": false, "exc": class name, "jmc": bool, "msg": str, "opens": [...], "globs": {...}}
"opens" = every *.jmc file opened for reading during the compile, in order, relative to the root.
"""
import builtins
import io
import json
import os
import shutil
import signal
import sys
import tempfile
import traceback
from pathlib import Path


class _Timeout(BaseException):
    pass


def _alarm(signum, frame):
    raise _Timeout()


OPENS = []
_real_open = io.open


def _logging_open(file, *a, **k):
    try:
        name = os.fspath(file) if not isinstance(file, int) else None
    except TypeError:
        name = None
    if isinstance(name, bytes):
        name = name.decode(errors="replace")
    mode = a[0] if a else k.get("mode", "r")
    if name is not None and name.endswith(".jmc") and "r" in mode:
        OPENS.append(os.path.realpath(name))
    return _real_open(file, *a, **k)


def jmc_exception_classes():
    from jmc.compile import exception as E
    out = []
    for name in dir(E):
        obj = getattr(E, name)
        if isinstance(obj, type) and issubclass(obj, Exception) and obj.__module__ == E.__name__:
            out.append(obj)
    return tuple(out)


def rel(root, p):
    p = os.path.realpath(p)
    if p == root:
        return ""
    if p.startswith(root + "/"):
        return p[len(root) + 1:]
    return "<outside>" + p


def survey(root, wanted):
    """round 4: the directory tree as it is on disk -> (nodes, globs): every file / folder below the root, and for every folder
    (and every path asked for) the .jmc FILES Path.glob("**/*.jmc") lists below it, in the order the OS gives them (None: no folder)"""
    nodes, dirs = [["", "d"]], [""]
    for cur, dnames, fnames in os.walk(root):
        r = os.path.relpath(cur, root)
        r = "" if r == "." else r
        for d in dnames:
            nodes.append([(r + "/" if r else "") + d, "d"])
            dirs.append((r + "/" if r else "") + d)
        for f in fnames:
            nodes.append([(r + "/" if r else "") + f, "f"])
    globs = {}
    for d in dirs + [w for w in wanted if w not in dirs]:
        dd = Path(root) / d if d else Path(root)
        globs[d] = [rel(root, str(q)) for q in dd.glob("**/*.jmc") if q.is_file()] if dd.is_dir() else None
    return nodes, globs


def run_job(job, PyJMC, jmc_excs):
    root = os.path.realpath(tempfile.mkdtemp(prefix="c17_"))
    old_cwd = os.getcwd()
    res = {}
    try:
        for d in job.get("dirs", []):
            os.makedirs(os.path.join(root, d), exist_ok=True)
        for relp, text in job["files"].items():
            full = os.path.join(root, relp)
            os.makedirs(os.path.dirname(full), exist_ok=True)
            with _real_open(full, "w", encoding="utf-8") as f:
                f.write(text.replace("{ROOT}", root))
        os.makedirs(os.path.join(root, job["cwd"]), exist_ok=True)
        nodes, globs = survey(root, job.get("globs", []))
        os.chdir(os.path.join(root, job["cwd"]))
        del OPENS[:]
        signal.alarm(int(job.get("timeout", 20)))
        try:
            p = PyJMC("ns", "d", "48", job["target"].replace("{ROOT}", root))
            files = {k.as_posix(): v.replace(root, "{ROOT}") for k, v in p.files.items()}
            res = {"ok": True, "files": files}
        except _Timeout:
            res = {"ok": False, "exc": "Timeout", "jmc": False, "msg": ""}
        except BaseException as e:  # noqa
            signal.alarm(0)
            fr = None
            for f in reversed(traceback.extract_tb(e.__traceback__)):
                if "/jmc/" in f.filename:
                    fr = [os.path.basename(f.filename), f.name, f.lineno]
                    break
            res = {"ok": False, "exc": type(e).__name__, "jmc": isinstance(e, jmc_excs),
                   "msg": str(e)[:1500].replace(root, "{ROOT}"), "frame": fr}
        finally:
            signal.alarm(0)
        res["opens"] = [rel(root, p) for p in OPENS]
        res["globs"] = globs
        res["nodes"] = nodes
    finally:
        os.chdir(old_cwd)
        shutil.rmtree(root, ignore_errors=True)
    return res


def sync_tree(root, job, prev_files):
    """make the project folder below `root` look like job["files"] + job["dirs"]: files that are gone are deleted, files whose text
    changed (or new ones) are written, unchanged files are NOT touched (same inode, same mtime - as an editor leaves them),
    directories that hold nothing any more and are not listed are removed.  Returns {relpath: text} now on disk."""
    want = {relp: text.replace("{ROOT}", root) for relp, text in job["files"].items()}
    for relp in prev_files:
        if relp not in want:
            os.remove(os.path.join(root, relp))
    for d in job.get("dirs", []):
        os.makedirs(os.path.join(root, d), exist_ok=True)
    for relp, text in want.items():
        if prev_files.get(relp) != text:
            full = os.path.join(root, relp)
            os.makedirs(os.path.dirname(full), exist_ok=True)
            with _real_open(full, "w", encoding="utf-8") as f:
                f.write(text)
    keep = set()
    for relp in list(want) + [d + "/x" for d in job.get("dirs", [])] + [job["cwd"] + "/x"]:
        d = os.path.dirname(relp)
        while d:
            keep.add(d)
            d = os.path.dirname(d)
    for cur, dirs, files in os.walk(root, topdown=False):
        r = os.path.relpath(cur, root)
        if r != "." and r not in keep and not os.listdir(cur):
            os.rmdir(cur)
    return want


def run_seq(seq, PyJMC, jmc_excs):
    """strengthening round 2: a SEQUENCE of states of one project folder (same root, same paths) compiled one after the other in this
    process - what `jmc compile` / autocompile does while the user edits, adds, deletes and moves files"""
    root = os.path.realpath(tempfile.mkdtemp(prefix="c17s_"))
    old_cwd = os.getcwd()
    out, prev = [], {}
    try:
        for job in seq:
            res = {}
            os.chdir(root)
            prev = sync_tree(root, job, prev)
            os.makedirs(os.path.join(root, job["cwd"]), exist_ok=True)
            nodes, globs = survey(root, job.get("globs", []))
            os.chdir(os.path.join(root, job["cwd"]))
            del OPENS[:]
            signal.alarm(int(job.get("timeout", 20)))
            try:
                p = PyJMC("ns", "d", "48", job["target"].replace("{ROOT}", root))
                res = {"ok": True, "files": {k.as_posix(): v.replace(root, "{ROOT}") for k, v in p.files.items()}}
            except _Timeout:
                res = {"ok": False, "exc": "Timeout", "jmc": False, "msg": ""}
            except BaseException as e:  # noqa
                signal.alarm(0)
                res = {"ok": False, "exc": type(e).__name__, "jmc": isinstance(e, jmc_excs),
                       "msg": str(e)[:1500].replace(root, "{ROOT}"), "frame": None}
            finally:
                signal.alarm(0)
            res["opens"] = [rel(root, p) for p in OPENS]
            res["globs"] = globs
            res["nodes"] = nodes
            out.append(res)
    finally:
        os.chdir(old_cwd)
        shutil.rmtree(root, ignore_errors=True)
    return {"seq": out}


def main():
    import logging
    logging.disable(logging.CRITICAL)
    io.open = _logging_open
    builtins.open = _logging_open
    from jmc.api import PyJMC
    jmc_excs = jmc_exception_classes()
    signal.signal(signal.SIGALRM, _alarm)
    jobs = json.load(sys.stdin)
    real_stdout = sys.stdout
    sys.stdout = _real_open(os.devnull, "w")
    out = [run_seq(j["seq"], PyJMC, jmc_excs) if "seq" in j else run_job(j, PyJMC, jmc_excs) for j in jobs]
    sys.stdout = real_stdout
    json.dump(out, sys.stdout)


if __name__ == "__main__":
    main()
