"""C08 — no definition is silently lost, misplaced or overwritten.

Proof step (Props/C08.v) + correspondence (random and table-driven definition sets, every definition carrying a
unique marker; Model/Defs.v's verdict and placement vs the real compiler's) + marker counting on the real output
as the direct oracle / search.  (misc triage) Declaration sequences over the kinds function / saved decorated
function / template against Model/DeclNames.v; decorated functions declared inside function bodies of classes.
(round 4) Declarations and USES in one compile against Model/DeclUse.v (harness/c08_uses.py).
"""
from __future__ import annotations

import json
import os
import re
from pathlib import Path

import c08_uses
import c08_extends
from lib import (Check, COMMON_TRUSTED, VERIF, compile_batch, coq_bool, coq_list, coq_str, known_for, parse_nat_list,
                 run_coq_files, run_py, gen_dir)

PROP = "C08"
OPTRACE = VERIF / "harness" / "optrace.py"
# entries proposed for known_findings.json: genuine defects of the live tree whose fix is delivered in /verif/fixes but not committed
# yet.  The integrator deletes an entry when he commits its patch; from then on a regression is a VIOLATION.
PROPOSED_FILES = ["reports/misc-known-findings-4.json"]


def known_entries() -> dict:
    """{id: entry} of known_findings.json for C08 plus the proposed entries (skipped with VERIF_NO_PROPOSED=1 = the state after
    the merge).  Nothing is written at run time."""
    out = {f["id"]: f for f in known_for(PROP)}
    if not os.environ.get("VERIF_NO_PROPOSED"):
        for rel in PROPOSED_FILES:
            f = VERIF / rel
            if not f.exists():
                continue
            try:
                entries = json.loads(f.read_text()).get("findings", [])
            except ValueError:
                continue
            for e in entries:
                if e.get("property") == PROP and e.get("id"):
                    out.setdefault(e["id"], e)
    return out
CERT = "LOAD=__load__\nTICK=__tick__\nPRIVATE=__private__\nVAR=__variable__\nINT=__int__\nSTORAGE=__storage__"

# ------------------------------------------------------------------ definition trees
# ("func", name, mk, [inner]) | ("class", name, [members]) | ("new", type, name, mk) | ("genpriv", builtin, mk) | ("genjson", name, mk)
GEN_PRIV = {
    # builtin -> (json type, name, source text, signature found in the generated json)
    "firstJoin": ("advancements", "player_first_join", 'Player.firstJoin(()=>{ say "fj1"; say "fj2"; });', '/player_first_join/main"'),
    "triggerSetup": ("advancements", "trigger_setup/enable", 'Trigger.setup(trg, {1: ()=>{ say "tr1"; say "tr2"; }});', '/trigger_setup/enable"'),
}


def mark(mk: int) -> str:
    return f"Q{mk}Q"


# (round 2) a function item may carry  calls = [spelling | (form, spelling)]  with form in CALL_FORMS, and
# opts = {"body": "marker" | "empty" | "comment" | "nested", "deco": None | "@private" | "@root" | "@add(<target>)"}:
# bodies that compile to ZERO commands (a saved function must still be stored: its file, the duplicate check and the call that
# @add generates depend on it) and every saved decorator.  Such a function has no marker text; it is recognised by its
# file name, which the generators make unique (`E<marker>`).
CALL_FORMS = {
    "call": "{t}();",
    "sched": "schedule function {t}() 5t;",
    "exec": "execute as @a at @s run {t}();",
    "with": "{t}() with {{x: 1}};",
    "lazy": "{t}();",          # (round 3) a call of a @lazy function (expanded in place)
    # (round 3) the call inside a one-command block (inlined: `execute ... run function <loc>` stays in the caller's file)
    "ifrun": "if ($v matches 1..2) {{ {t}(); }}",
    "arrow1": "execute as @a run {{ {t}(); }}",
}


def lazy_mark(mk: int) -> str:
    return f"T{mk}T"


def call_text(c) -> str:
    form, t = ("call", c) if isinstance(c, str) else c
    return CALL_FORMS[form].format(t=t)


def func_opts(it) -> dict:
    return it[5] if len(it) > 5 and it[5] else {}


def render(items, indent="") -> str:
    out = []
    for it in items:
        k = it[0]
        if k == "func":
            opts = func_opts(it)
            inner = render(it[3], indent + "    ")
            calls = "".join(f"{indent}    {call_text(c)}\n" for c in (it[4] if len(it) > 4 else []))
            body = opts.get("body", "marker")
            first = {"marker": f'{indent}    say "{mark(it[2])}";\n', "comment": f"{indent}    // nothing to do here\n"}.get(body, "")
            deco = (opts.get("deco") + " ") if opts.get("deco") else ""
            if body == "empty" and not inner and not calls:
                out.append(f"{indent}{deco}function {it[1]}() {{}}")
            else:
                out.append(f"{indent}{deco}function {it[1]}() {{\n{first}{inner}{calls}{indent}}}" if opts.get("decl_first") else
                           f"{indent}{deco}function {it[1]}() {{\n{first}{calls}{inner}{indent}}}")
        elif k == "class":
            out.append(f"{indent}class {it[1]} {{\n{render(it[2], indent + '    ')}{indent}}}")
        elif k == "lazy":
            # (round 3) a @lazy function: no file; its body is expanded at every call, whatever class the call is written in
            inner = render(it[3], indent + "    ")
            calls = "".join(f"{indent}    {call_text(c)}\n" for c in it[4])
            deco = it[5] if len(it) > 5 else "@lazy"          # "@lazy" | "@if(1)": both are expanded by PreFunction.handle_lazy
            out.append(f'{indent}{deco} function {it[1]}() {{\n{indent}    say "{lazy_mark(it[2])}";\n{calls}{inner}{indent}}}')
        elif k == "load":
            # (round 3) statements of the load function (top level only): a marker and call sites
            out.append(f'{indent}say "{mark(it[1])}";\n' + "".join(f"{indent}{call_text(c)}\n" for c in it[2]).rstrip("\n"))
        elif k == "new":
            out.append(f'{indent}new {it[1]}({it[2]}) {{"m": "{mark(it[3])}"}}')
        elif k == "genpriv":
            out.append(indent + GEN_PRIV[it[1]][2])
        elif k == "genjson":
            out.append(f'{indent}Predicate.locations("{it[1]}", {{"condition": "minecraft:{mark(it[2])}"}}, 0, 0, 0, 0, 0, 0);')
    return "".join(x + "\n" for x in out)


def item_term(it, locfolder="predicate") -> str:
    k = it[0]
    if k == "func":
        t = f"IFunc {coq_str(it[1])} {it[2]} {coq_list(item_term(x, locfolder) for x in it[3])}"
        # (pin_nested) on a tree without fixes/C08-decorated-nested-function-loses-class-prefix.patch a decorated function declared in a
        # function body is parsed with the EMPTY prefix (and so is everything declared inside it): IAt "" [...]
        return f'IAt "" [{t}]' if func_opts(it).get("noprefix") else t
    if k == "class":
        return f"IClass {coq_str(it[1])} {coq_list(item_term(x, locfolder) for x in it[2])}"
    if k == "new":
        return f"INew {coq_str(it[1])} {coq_str(it[2])} {it[3]}"
    if k == "at":
        return f"IAt {coq_str(it[1])} {coq_list(item_term(x, locfolder) for x in it[2])}"
    if k == "genpriv":
        t, n, _, _ = GEN_PRIV[it[1]]
        return f"IGenPriv {coq_str(t)} {coq_str(n)} {it[2]}"
    return f"IGenJson {coq_str(locfolder)} {coq_str(it[1])} {it[2]}"


def markers_of(items, acc=None, lv=None):
    """{mk: search string / signature} of every definition in the tree"""
    acc = {} if acc is None else acc
    if lv is None and has_lazy(items):
        lv = LazyView(items)
    for it in items:
        k = it[0]
        if k == "lazy":
            # the definitions a lazy body declares exist iff the body is expanded (twice = duplicate, rejected)
            tpath = next((p for p, t in lv.tpl.items() if t["item"] is it), None)
            if lv.uses.get(tpath, 0) > 0:
                markers_of(it[3], acc, lv)
            continue
        if k == "load":
            acc[it[1]] = ("loadtext", mark(it[1]))
            continue
        if k == "func":
            if func_opts(it).get("body", "marker") == "marker":
                acc[it[2]] = ("text", mark(it[2]))
            else:
                acc[it[2]] = ("file", "/" + it[1].split(".")[-1].lower() + ".mcfunction")
            markers_of(it[3], acc, lv)
        elif k == "class":
            markers_of(it[2], acc, lv)
        elif k == "new":
            acc[it[3]] = ("text", mark(it[3]))
        elif k == "genpriv":
            acc[it[2]] = ("json", GEN_PRIV[it[1]][3])
        else:
            acc[it[2]] = ("text", mark(it[2]))
    return acc


FUNC_NAMES = ["foo", "Foo", "foo.bar", "bar", "a.b", "A.B", "a", "b", "x_1", "a.b.c", "K.m", "k.M", "minecraft.f", "mypack.foo",
              "tick", "q", "minecraft.util.clear", "shared.util.clear", "shared.a.b.c", "shared.go"]
EMPTY_PREFIXES = ["", "", "a.", "K.", "minecraft.", "minecraft.util.", "shared.deep.er."]
BODY_STYLES = ["empty", "empty", "comment", "nested"]
DECOS = [None, None, "@private", "@root", "@add(?)"]
ODD_FUNC_NAMES = ["__load__", "__private__", "__private__.x", "a..b", ".a", "a.", "__tick__", "this.z"]
CLASS_NAMES = ["a", "A", "K", "k", "a.b", "foo", "minecraft", "__private__", "mypack", "shared", "shared.util", "util"]
JSON_TYPES = ["advancements", "advancement", "predicate", "predicates", "@LOC", "loot_table", "loot_tables", "tags.functions", "tag.functions",
              "tags.blocks", "recipes", "item_modifier", "item_modifiers", "bogus", "Predicate"]
JSON_NAMES = ["foo", "bar", "a.b", "x_1", "minecraft.x", "mypack.foo", "__private__.player_first_join", "__private__.trigger_setup.enable",
              "__private__.other", "Foo", "a..b", "q"]


class TreeGen:
    def __init__(self, rng, decorated=False):
        self.rng, self.mk, self.decorated = rng, 0, decorated

    def next_mk(self):
        self.mk += 1
        return self.mk

    def item(self, depth, ctx):
        r = self.rng
        x = r.random()
        if ctx == "func":
            if x < 0.6:
                return self.func(depth, nested=True)
            return self.new()
        if x < 0.42:
            return self.func(depth)
        if x < 0.62 and depth > 0:
            return ("class", r.choice(CLASS_NAMES), [self.item(depth - 1, "class") for _ in range(r.randint(1, 3))])
        if x < 0.9 or ctx != "top":
            return self.new()
        if x < 0.95:
            return ("genpriv", r.choice(list(GEN_PRIV)), self.next_mk())
        return ("genjson", r.choice(["foo", "bar", "x_1", "a/b", "q"]), self.next_mk())

    def func(self, depth, nested=False):
        r = self.rng
        name = r.choice(ODD_FUNC_NAMES) if r.random() < 0.04 else r.choice(FUNC_NAMES)
        inner = []
        if depth > 0 and r.random() < 0.3:
            inner = [self.item(depth - 1, "func") for _ in range(r.randint(1, 2))]
        mk = self.next_mk()
        if not self.decorated:
            return ("func", name, mk, inner)
        x = r.random()
        if x < 0.16:
            # a saved function whose body compiles to zero commands; recognised by its unique file name
            style = r.choice(BODY_STYLES)
            if style == "nested":
                inner = inner or [("func", r.choice(["inner", "foo", "q"]), self.next_mk(), [])]
            else:
                inner = []
            # (misc triage 4c) also when declared inside a function body: documented placement = with the class prefix, like a plain one
            return ("func", r.choice(EMPTY_PREFIXES) + f"E{mk}", mk, inner, [], dict(body=style, deco=r.choice(DECOS)))
        if x < (0.45 if nested else 0.30):
            return ("func", name, mk, inner, [], dict(body="marker", deco=r.choice(DECOS[2:])))
        return ("func", name, mk, inner)

    def new(self):
        r = self.rng
        t = r.choice(JSON_TYPES) if r.random() < 0.25 else r.choice(JSON_TYPES[:8])
        n = r.choice(JSON_NAMES) if r.random() < 0.3 else r.choice(JSON_NAMES[:6] + ["p1", "p2", "k.p", "deep.er.name"])
        return ("new", t, n, self.next_mk())

    def program(self):
        self.mk = 0
        items = [self.item(2, "top") for _ in range(self.rng.randint(2, 6))]
        # at most one call of each load-once built-in
        seen, out = set(), []
        for it in items:
            if it[0] == "genpriv":
                if it[1] in seen:
                    continue
                seen.add(it[1])
            out.append(it)
        return out


def eff_classes(it, classes):
    """class context of a function item: [] for a function marked by pin_nested (parsed without the class prefix)"""
    return [] if func_opts(it).get("noprefix") else classes


def pin_nested(prog):
    """-> (tree, marked): the tree as a compiler WITHOUT fixes/C08-decorated-nested-function-loses-class-prefix.patch places it: a decorated
    function (also @lazy / @if) declared inside a function body is parsed with the empty prefix; `marked` = their documented paths"""
    marked = []

    def walk(items, classes, in_func):
        out = []
        for it in items:
            if it[0] == "func":
                opts = dict(func_opts(it))
                cl = classes
                if in_func and classes and opts.get("deco"):
                    opts["noprefix"] = True
                    marked.append(py_path(".".join(classes + [it[1]])))
                    cl = []
                out.append(("func", it[1], it[2], walk(it[3], cl, True), list(it[4]) if len(it) > 4 else []) + ((opts,) if opts else ()))
            elif it[0] == "class":
                out.append(("class", it[1], walk(it[2], classes + [it[1]], in_func)))
            elif it[0] == "lazy":
                if in_func and classes:
                    marked.append(py_path(".".join(classes + [it[1]])))
                out.append(it)
            else:
                out.append(it)
        return out
    return walk(prog, [], False), marked


def py_path(name):
    """documented path of a plain name (ASCII letters, digits, _ and single dots)"""
    return name.lower().replace(".", "/")


PLAIN = re.compile(r"^[A-Za-z0-9_]+(\.[A-Za-z0-9_]+)*$")


# ------------------------------------------------------------------ (round 3) @lazy functions in classes
# ("lazy", name, mk, [inner definitions], [calls])  is  `@lazy function name() { say "T<mk>T"; <calls> <inner> }`.  It has no file.
# A call ("lazy", spelling) in a function / in the load statements ("load", mk, [calls]) is expanded in place; documented meaning: the
# body means what it means where it is WRITTEN — `this.` is the lazy function's class and a function declared by the body belongs
# to that class — whatever class, nested class or top-level function the call is written in.  Model/Defs.v: IAt <prefix> <inner>.

class Unresolved(Exception):
    pass


class LazyView:
    def __init__(self, prog):
        self.tpl = {}          # documented path -> dict(classes, item, order)
        self.order = 0
        self.uses = {}         # documented path -> number of expansions in the whole program
        self._collect(prog, [])
        self._count(prog, [])

    @staticmethod
    def resolve(spelling, classes):
        if spelling.startswith("this."):
            return py_path(".".join(classes + [spelling[5:]]))
        return py_path(spelling)

    def _collect(self, items, classes):
        for it in items:
            self.order += 1
            if it[0] == "lazy":
                self.tpl[py_path(".".join(classes + [it[1]]))] = dict(classes=list(classes), item=it, order=self.order)
            elif it[0] == "class":
                self._collect(it[2], classes + [it[1]])
            elif it[0] == "func":
                self._collect(it[3], classes)

    def _bump(self, tpath, depth=0):
        if tpath not in self.tpl or depth > 6:
            raise Unresolved(tpath)
        self.uses[tpath] = self.uses.get(tpath, 0) + 1
        t = self.tpl[tpath]
        for c in t["item"][4]:
            if not isinstance(c, str) and c[0] == "lazy":
                self._bump(self.resolve(c[1], t["classes"]), depth + 1)

    def _count(self, items, classes):
        for it in items:
            if it[0] in ("func", "load"):
                for c in (it[4] if it[0] == "func" and len(it) > 4 else it[2] if it[0] == "load" else []):
                    if not isinstance(c, str) and c[0] == "lazy":
                        self._bump(self.resolve(c[1], classes))
                if it[0] == "func":
                    self._count(it[3], classes)
            elif it[0] == "class":
                self._count(it[2], classes + [it[1]])

    # ---- what one call site expands to
    def lines(self, c, classes, loc, depth=0):
        """expected `function <loc>` lines of one call written in class context `classes`"""
        form, sp = ("call", c) if isinstance(c, str) else c
        target = self.resolve(sp, classes)
        if form != "lazy":
            return ["function " + loc(target)]
        if target not in self.tpl or depth > 6:
            raise Unresolved(target)
        t = self.tpl[target]
        return [l for c2 in t["item"][4] for l in self.lines(c2, t["classes"], loc, depth + 1)]

    def at_items(self, calls, classes, depth=0):
        """model items of the definitions the lazy calls among `calls` place: IAt <template prefix> <its inner definitions>"""
        out = []
        for c in calls:
            if isinstance(c, str) or c[0] != "lazy":
                continue
            target = self.resolve(c[1], classes)
            if target not in self.tpl or depth > 6:
                raise Unresolved(target)
            t = self.tpl[target]
            prefix = "".join(py_path(k) + "/" for k in t["classes"])
            out.append(("at", prefix, self.at_items(t["item"][4], t["classes"], depth + 1) + self.model(t["item"][3], t["classes"])))
        return out

    def model(self, items, classes):
        """the definition tree handed to Model/Defs.v: templates dropped, every lazy call replaced by the definitions it places"""
        out = []
        for it in items:
            if it[0] == "func":
                calls = it[4] if len(it) > 4 else []
                out.append(("func", it[1], it[2], self.at_items(calls, classes) + self.model(it[3], classes)) + (([], func_opts(it)) if func_opts(it) else ()))
            elif it[0] == "class":
                out.append(("class", it[1], self.model(it[2], classes + [it[1]])))
            elif it[0] == "lazy":
                continue
            elif it[0] == "load":
                out.extend(self.at_items(it[2], classes))
            else:
                out.append(it)
        return out


def lazy_coverage(cases):
    """measured: accepted compiles with at least one expansion of a lazy function of class X written in a different class / a nested
    class / at top level / in load, whose body uses `this.` / declares a definition"""
    cov = dict(programs=0, accepted=0, expansions=0, callers_other_class=0, callers_nested=0, callers_top=0, callers_load=0,
               bodies_with_this=0, bodies_declaring=0)
    for c in cases:
        if not has_lazy(c["prog"]):
            continue
        cov["programs"] += 1
        if not c["res"]["ok"]:
            continue
        cov["accepted"] += 1
        lv = LazyView(c["prog"])

        def walk(items, classes):
            for it in items:
                calls = it[4] if it[0] == "func" and len(it) > 4 else it[2] if it[0] == "load" else []
                for cl in calls:
                    if isinstance(cl, str) or cl[0] != "lazy":
                        continue
                    t = lv.tpl.get(lv.resolve(cl[1], classes))
                    if not t:
                        continue
                    cov["expansions"] += 1
                    tc = t["classes"]
                    if it[0] == "load":
                        cov["callers_load"] += 1
                    elif not classes:
                        cov["callers_top"] += 1
                    elif classes != tc and classes[:len(tc)] == tc:
                        cov["callers_nested"] += 1
                    elif classes != tc:
                        cov["callers_other_class"] += 1
                    if classes != tc:
                        cov["bodies_with_this"] += any("this." in (x if isinstance(x, str) else x[1]) for x in t["item"][4])
                        cov["bodies_declaring"] += bool(t["item"][3])
                if it[0] == "func":
                    walk(it[3], classes)
                elif it[0] == "class":
                    walk(it[2], classes + [it[1]])
        walk(c["prog"], [])
    return cov


def has_lazy(items) -> bool:
    return any(it[0] in ("lazy", "load") or (it[0] == "func" and has_lazy(it[3])) or (it[0] == "class" and has_lazy(it[2])) for it in items)


def model_tree(prog):
    return LazyView(prog).model(prog, []) if has_lazy(prog) else prog


def lazy_text_failures(prog, res):
    """every expansion of a lazy body prints its `say T<mk>T` once: total occurrences == number of expansion sites"""
    if not res["ok"] or not has_lazy(prog):
        return []
    lv = LazyView(prog)
    out = []
    for tpath, t in lv.tpl.items():
        want = lv.uses.get(tpath, 0)
        got = sum(c.count(lazy_mark(t["item"][2])) for c in res["files"].values())
        if got != want:
            out.append(dict(kind="lazy-expansion-lost-or-duplicated", template=tpath, expected_expansions=want, found=got))
    return out


def add_calls(rng, prog, n=3, forms=False, with_ok=False, internal_targets=("__load__", "__tick__")):
    """Add call sites to function bodies: absolute calls to top-level functions / class members and
    `this.` calls between members of the same class.  Returns the new tree."""
    targets = []      # (call spelling from anywhere, documented path)
    def collect(items, classes):
        for it in items:
            if it[0] == "func" and PLAIN.match(it[1]) and not it[1].startswith("this.") and func_opts(it).get("deco") != "@private":
                spell = ".".join(classes + [it[1]])
                targets.append((spell, py_path(spell)))
            elif it[0] == "class" and PLAIN.match(it[1]):
                collect(it[2], classes + [it[1]])
    collect(prog, [])
    add_targets = [t[0] for t in targets] + list(internal_targets)       # (round 3: zero-command functions are @add targets too)

    def form(spelling):
        return spelling if not forms or rng.random() < 0.4 else (rng.choice(["call", "sched", "exec"] + (["with"] if with_ok else [])), spelling)

    def walk(items, classes, members):
        out = []
        for it in items:
            if it[0] == "func":
                calls = []
                opts = dict(func_opts(it))
                if opts.get("deco") == "@add(?)":
                    opts["deco"] = f"@add({rng.choice(add_targets)})"
                if targets and rng.random() < 0.5 and opts.get("body", "marker") == "marker":
                    for _ in range(rng.randint(1, n)):
                        if members and rng.random() < 0.5:
                            calls.append(form("this." + rng.choice(members)))
                        else:
                            calls.append(form(rng.choice(targets)[0]))
                out.append(("func", it[1], it[2], walk(it[3], classes, members), calls) + ((opts,) if opts else ()))
            elif it[0] == "class":
                ok = bool(PLAIN.match(it[1])) and all(PLAIN.match(c) for c in classes)
                mem = [m[1] for m in it[2] if m[0] == "func" and PLAIN.match(m[1]) and not m[1].startswith("this.")
                       and func_opts(m).get("deco") != "@private"] if ok else []
                out.append(("class", it[1], walk(it[2], classes + [it[1]], mem)))
            else:
                out.append(it)
        return out
    return walk(prog, [], [])


def expected_calls(prog, cfg):
    """{caller marker: [expected `function <loc>` lines in order]}"""
    exp = {}
    lv = LazyView(prog) if has_lazy(prog) else None

    def loc(path):
        first = path.split("/")[0]
        if first in cfg["overrides"] and "/" in path:
            return f"{first}:{path[len(first) + 1:]}"
        return f"{cfg['ns']}:{path}"

    def lines_of_calls(calls, classes):
        lines = []
        for c in calls:
            if lv is not None:
                lines.extend(lv.lines(c, classes, loc))
                continue
            c = c if isinstance(c, str) else c[1]
            if c.startswith("this."):
                lines.append("function " + loc(py_path(".".join(classes + [c[5:]]))))
            else:
                lines.append("function " + loc(py_path(c)))
        return lines

    def walk(items, classes):
        for it in items:
            if it[0] == "func":
                calls = it[4] if len(it) > 4 else []
                cl = eff_classes(it, classes)
                if calls:
                    exp[it[2]] = lines_of_calls(calls, cl)
                walk(it[3], cl)
            elif it[0] == "load":
                if it[2]:
                    exp[it[1]] = lines_of_calls(it[2], classes)
            elif it[0] == "lazy":
                if lv.uses.get(py_path(".".join(classes + [it[1]])), 0) > 0:
                    walk(it[3], classes)          # the functions its body declares: their `this.` is the lazy function's class
            elif it[0] == "class":
                walk(it[2], classes + [it[1]])
    walk(prog, [])
    return exp


def expected_files(prog, cfg, types):
    """{marker: documented file} for the definitions whose name and type are plain (independent of the Coq model)"""
    exp = {}
    ff = "functions" if float(cfg["pack_format"]) < 48 else "function"

    def place(path, folder, ext):
        first = path.split("/")[0]
        if first in cfg["overrides"] and "/" in path:
            return f"VIRTUAL/data/{first}/{folder}{path[len(first) + 1:]}{ext}"
        return f"VIRTUAL/data/{cfg['ns']}/{folder}{path}{ext}"

    lv = LazyView(prog) if has_lazy(prog) else None

    def walk(items, classes, in_func):
        for it in items:
            if it[0] == "lazy":
                # what the body declares belongs to the class of the lazy function, wherever it is expanded
                if lv.uses.get(py_path(".".join(classes + [it[1]])), 0) > 0:
                    walk(it[3], classes, True)
                continue
            if it[0] == "load":
                continue
            if it[0] == "func":
                cl = eff_classes(it, classes)
                if PLAIN.match(it[1]) and all(PLAIN.match(c) for c in cl) and not it[1].startswith("this."):
                    exp[it[2]] = place(py_path(".".join(cl + [it[1]])), ff + "/", ".mcfunction")
                walk(it[3], cl, True)
            elif it[0] == "class":
                walk(it[2], classes + [it[1]], in_func)
            elif it[0] == "new":
                t = it[1].replace(".", "/")
                cls = [] if in_func else classes
                if t in types and PLAIN.match(it[2]) and it[2] == it[2].lower() and all(PLAIN.match(c) for c in cls):
                    name = "/".join([c.lower().replace(".", "/") for c in cls] + [it[2].replace(".", "/")])
                    exp[it[3]] = place(name, t + "/", ".json")
    walk(prog, [], False)
    return exp


def call_site_failures(prog, cfg, res):
    """call sites of the real output that do not print the documented path"""
    out = []
    if not res["ok"]:
        return out
    for mk, lines in expected_calls(prog, cfg).items():
        for path, content in res["files"].items():
            if path.endswith(".mcfunction") and mark(mk) in content:
                all_lines = content.split("\n")
                at = next((k for k, l in enumerate(all_lines) if mark(mk) in l), 0)
                # every call form prints `function <location>` somewhere in its line (schedule function X 5t, execute ... run
                # function X, function X with {...})
                got = ["function " + m.group(1) for l in all_lines[at + 1:] for m in [re.search(r"(?:^| )function (\S+)", l)] if m][:len(lines)]
                if got != lines:
                    out.append(dict(caller=mark(mk), file=path, expected=lines, actual=got))
    return out


def uses_with(items) -> bool:
    for it in items:
        if it[0] == "lazy" and (any(not isinstance(c, str) and c[0] == "with" for c in it[4]) or uses_with(it[3])):
            return True
        if it[0] == "load" and any(not isinstance(c, str) and c[0] == "with" for c in it[2]):
            return True
        if it[0] == "func":
            if any(not isinstance(c, str) and c[0] == "with" for c in (it[4] if len(it) > 4 else [])) or uses_with(it[3]):
                return True
        elif it[0] == "class" and uses_with(it[2]):
            return True
    return False


def documented_functions(prog, with_classes=False):
    """[(marker, documented path, opts)] of the function definitions with plain names (independent of the Coq model)"""
    out = []

    def walk(items, classes):
        for it in items:
            if it[0] == "func":
                cl = eff_classes(it, classes)
                if PLAIN.match(it[1]) and all(PLAIN.match(c) for c in cl) and not it[1].startswith("this."):
                    out.append((it[2], py_path(".".join(cl + [it[1]])), func_opts(it)) + ((list(cl),) if with_classes else ()))
                walk(it[3], cl)
            elif it[0] == "class":
                walk(it[2], classes + [it[1]])
    walk(prog, [])
    return out


def reference_failures(prog, cfg, res):
    """(round 2) plain-Python oracle on an accepted compile: every `function <ns>:<path>` printed anywhere names an emitted file;
    every @add-decorated function is called from its target (or load / tick); two definitions with the same documented path are
    never both accepted."""
    fails = []
    if not res["ok"]:
        return fails
    files = res["files"]
    ff = "functions" if float(cfg["pack_format"]) < 48 else "function"
    own = [cfg["ns"]] + list(cfg["overrides"])

    def loc(path):
        first = path.split("/")[0]
        if first in cfg["overrides"] and "/" in path:
            return f"{first}:{path[len(first) + 1:]}"
        return f"{cfg['ns']}:{path}"

    def file_of(location):
        n, pth = location.split(":", 1)
        return f"VIRTUAL/data/{n}/{ff}/{pth}.mcfunction"
    for path, content in files.items():
        if not path.endswith(".mcfunction"):
            continue
        for line in content.split("\n"):
            for m in re.finditer(r"(?:^| )function (\S+)", line):
                ref = m.group(1)
                if ref.startswith("#") or "$(" in ref or ":" not in ref or ref.split(":", 1)[0] not in own:
                    continue
                if file_of(ref) not in files:
                    fails.append(dict(kind="dangling-call", file=path, line=line[:200], missing=file_of(ref)))
    docs = documented_functions(prog)
    if cfg["ns"] not in cfg["overrides"]:
        seen = {}
        for mk, pth, _ in docs:
            if pth in seen:
                fails.append(dict(kind="equal-paths-both-accepted", path=pth, markers=[mark(seen[pth]), mark(mk)]))
            seen[pth] = mk
    for mk, pth, opts, cl in documented_functions(prog, with_classes=True):
        deco = opts.get("deco") or ""
        m = re.fullmatch(r"@add\((.*)\)", deco)
        if not m or not PLAIN.match(m.group(1).replace("__", "x")):
            continue
        target = m.group(1)
        if target.startswith("this.") and cl:
            target = ".".join(cl + [target[5:]])          # (`this.` in @add's argument is the class the decorated function is written in)
        n = names_of(cfg)
        tfile = file_of(loc(py_path(target))) if py_path(target) not in (n["LOAD"], n["TICK"]) else file_of(f"{cfg['ns']}:{py_path(target)}")
        want = "function " + loc(pth)
        if want not in (files.get(tfile) or "").split("\n"):
            fails.append(dict(kind="add-call-missing", decorated=pth, target_file=tfile, expected_line=want,
                              actual=(files.get(tfile) or "<no such file>")[:300]))
    return fails


def F(name, mk, inner=()):
    return ("func", name, mk, list(inner))


def C(name, *members):
    return ("class", name, list(members))


def N(t, name, mk):
    return ("new", t, name, mk)


def E(name, mk, body="empty", deco=None, inner=()):
    """a saved function whose body compiles to zero commands (round 2)"""
    return ("func", name, mk, list(inner), [], dict(body=body, deco=deco))


def D(name, mk, deco):
    """a decorated function with an ordinary body"""
    return ("func", name, mk, [], [], dict(body="marker", deco=deco))


# pairs of spellings that land (or could land) on the same path
COLLIDING = [
    ("case", [F("foo", 1), F("Foo", 2)]),
    ("case-class", [C("K", F("m", 1)), C("k", F("M", 2))]),
    ("class-vs-dotted", [F("a.b", 1), C("a", F("b", 2))]),
    ("dotted-vs-class", [C("a", F("b", 1)), F("a.b", 2)]),
    ("nested-class-vs-dotted", [C("a", C("b", F("c", 1))), F("a.b.c", 2)]),
    ("dotted-class", [C("a.b", F("c", 1)), C("a", C("b", F("c", 2)))]),
    ("same-twice", [F("foo", 1), F("foo", 2)]),
    ("same-twice-in-class", [C("k", F("foo", 1), F("foo", 2))]),
    ("same-twice-in-nested-class", [C("a", C("b", F("c", 1), F("c", 2)))]),
    ("nested-class-vs-dotted-class", [C("a", C("b", F("c", 1))), C("a.b", F("C", 2))]),
    ("nested-class-3-deep", [C("a", C("b", C("c", F("d", 1), N("predicate", "p", 2)), F("e", 3)), F("f", 4)), F("a.b.c.d2", 5)]),
    ("json-twice-in-class", [C("k", N("predicate", "x", 1), N("predicate", "x", 2))]),
    ("json-twice-in-nested-class", [C("a", C("b", N("advancements", "x", 1), N("advancements", "x", 2)))]),
    ("json-in-function-in-class-twice", [C("k", F("f", 1, [N("predicate", "x", 2)]), F("g", 3, [N("predicate", "x", 4)]))]),
    ("nested-same", [F("a", 1, [F("a", 2)])]),
    ("nested-same-in-class", [C("k", F("a", 1, [F("a", 2)]))]),
    ("nested-vs-toplevel", [F("f", 1, [F("g", 2)]), F("g", 3)]),
    ("toplevel-vs-nested", [F("g", 3), F("f", 1, [F("g", 2)])]),
    ("nested-distinct", [F("f", 1, [F("g", 2), N("predicate", "pp", 3)]), F("h", 4)]),
    ("nested-in-class-prefix", [C("k", F("f", 1, [F("g", 2), N("predicate", "pp", 3)])), F("k.g", 4)]),
    ("nested-new-vs-class-new", [C("k", F("f", 1, [N("predicate", "pp", 2)]), N("predicate", "pp", 3)), N("predicate", "pp", 4)]),
    ("empty-segment", [F("a.b", 1), F("a..b", 2)]),
    ("empty-segment-json", [N("advancements", "a.b", 1), N("advancements", "a..b", 2)]),
    ("load-name", [F("__load__", 1)]),
    ("private-name", [F("__private__", 1)]),
    ("private-prefix", [F("__private__.x", 1)]),
    ("private-class", [C("__private__", F("x", 1))]),
    ("tick-name", [F("__tick__", 1), F("other", 2)]),
    ("legacy-plural", [N("predicate", "x", 1), N("predicates", "x", 2)]),
    ("legacy-plural-2", [N("advancement", "x", 1), N("advancements", "x", 2)]),
    ("legacy-plural-loot", [N("loot_table", "x", 1), N("loot_tables", "x", 2)]),
    ("tag-vs-tags", [N("tags.functions", "t", 1), N("tag.functions", "t", 2)]),
    ("json-same-twice", [N("predicate", "x", 1), N("predicate", "x", 2)]),
    ("json-class-vs-dotted", [C("a", N("predicate", "x", 1)), N("predicate", "a.x", 2)]),
    ("json-upper", [N("predicate", "Foo", 1)]),
    ("json-bad-type", [N("bogus", "x", 1)]),
    ("json-private-path", [N("advancements", "__private__.other", 1)]),
    ("firstjoin-after-user", [N("advancements", "__private__.player_first_join", 1), ("genpriv", "firstJoin", 2)]),
    ("user-after-firstjoin", [("genpriv", "firstJoin", 1), N("advancements", "__private__.player_first_join", 2)]),
    ("trigger-after-user", [N("advancements", "__private__.trigger_setup.enable", 1), ("genpriv", "triggerSetup", 2)]),
    ("user-after-trigger", [("genpriv", "triggerSetup", 1), N("advancements", "__private__.trigger_setup.enable", 2)]),
    ("locations-after-user", [N("@LOC", "foo", 1), ("genjson", "foo", 2)]),
    ("user-after-locations", [("genjson", "foo", 1), N("@LOC", "foo", 2)]),
    ("locations-other-plural", [N("predicate", "foo", 1), N("predicates", "foo", 2), ("genjson", "foo", 3)]),
    ("locations-twice", [("genjson", "foo", 1), ("genjson", "foo", 2)]),
    ("locations-distinct", [("genjson", "foo", 1), ("genjson", "bar", 2), N("predicate", "baz", 3)]),
    ("override-func", [F("minecraft.f", 1), C("minecraft", F("f", 2))]),
    ("override-distinct", [F("minecraft.f", 1), F("f", 2), N("advancements", "minecraft.x", 3), N("advancements", "x", 4)]),
    ("own-namespace-override", [F("foo", 1), F("mypack.foo", 2)]),
    ("own-namespace-override-json", [N("predicate", "foo", 1), N("predicate", "mypack.foo", 2)]),
    ("calls-this", [C("Kit", ("func", "run", 1, [], ["this.helper", "Kit.helper", "other.fn"]), F("helper", 2), C("Sub", ("func", "go", 3, [], ["this.go", "Kit.run"]))),
                    ("func", "other.fn", 4, [], ["Kit.Sub.go", "minecraft.f"]), F("minecraft.f", 5)]),
    ("calls-nested-function", [C("Kit", ("func", "outer", 1, [("func", "inner", 2, [], ["this.outer", "this.inner"])], ["this.inner"]))]),
    ("func-vs-json-same-name", [F("foo", 1), N("predicate", "foo", 2), N("advancements", "foo", 3)]),
    # ---- round 2: saved functions whose body compiles to zero commands, in every definition form and under every saved decorator
    ("empty-plain", [E("E1", 1), E("a.E2", 2, body="comment"), C("K", E("E3", 3), E("E4", 4, body="comment")), F("t", 5)]),
    ("empty-nested-only", [E("E1", 1, body="nested", inner=[F("inner", 2)]), C("K", E("E3", 3, body="nested", inner=[F("inner", 4), N("predicate", "pp", 5)]))]),
    ("empty-decorated", [F("t", 1), E("E2", 2, deco="@add(t)"), E("E3", 3, deco="@private"), E("E4", 4, deco="@root"),
                         C("K", E("E5", 5, deco="@add(t)", body="comment"), E("E6", 6, deco="@add(__tick__)"), E("E7", 7, deco="@private"),
                           E("E8", 8, deco="@root", body="nested", inner=[F("inner", 9)]), E("E10", 10, deco="@add(__load__)"))]),
    ("empty-decorated-before-target", [E("E1", 1, deco="@add(later.t)"), C("later", F("t", 2))]),
    ("decorated-marker", [F("t", 1), D("d2", 2, "@add(t)"), D("d3", 3, "@private"), D("d4", 4, "@root"), C("K", D("d5", 5, "@add(K.d6)"), D("d6", 6, "@root"))]),
    # (round 3) several @add onto ONE target (zero-command / ordinary / tick / load): every generated call must be there
    ("two-adds-empty-target", [E("E1", 1), D("d2", 2, "@add(E1)"), D("d3", 3, "@add(E1)"), C("K", D("d4", 4, "@add(E1)"), E("E5", 5, deco="@add(E1)"))]),
    ("two-adds-target", [F("t", 1), D("d2", 2, "@add(t)"), C("K", D("d3", 3, "@add(t)")), D("d4", 4, "@add(__tick__)"), D("d5", 5, "@add(__tick__)"),
                         D("d6", 6, "@add(__load__)"), D("d7", 7, "@add(__load__)"), E("__tick__", 8)]),
    ("adds-before-empty-target", [D("d1", 1, "@add(late.E3)"), D("d2", 2, "@add(late.E3)"), C("late", E("E3", 3, body="comment"))]),
    ("empty-then-same", [E("foo", 1), F("foo", 2)]),
    ("same-then-empty", [F("foo", 1), E("foo", 2)]),
    ("empty-twice", [E("foo", 1), E("foo", 2, body="comment")]),
    ("empty-decorated-then-same", [F("t", 1), E("foo", 2, deco="@add(t)"), F("foo", 3)]),
    ("empty-private-then-same", [C("K", E("foo", 1, deco="@private"), F("foo", 2))]),
    ("empty-root-then-same-case", [E("Foo", 1, deco="@root"), F("foo", 2)]),
    ("empty-decorated-twice", [F("t", 1), E("foo", 2, deco="@add(t)"), E("foo", 3, deco="@add(t)")]),
    ("empty-nested-then-same", [E("foo", 1, body="nested", inner=[F("in1", 2)]), F("foo", 3)]),
    ("empty-class-vs-dotted", [C("a", E("b", 1, deco="@root")), F("a.b", 2)]),
    # ---- (misc triage 4c) DECORATED functions declared inside a function body: top level, class, nested class; documented placement
    # = with the class prefix, like an undecorated function in the same place; the call @add generates names that path; `this.` in
    # their body / in @add's argument is the enclosing class
    ("decorated-nested-in-method", [F("t", 1), C("c", F("x", 2), F("f", 3, [D("deco", 4, "@add(__tick__)"), D("d5", 5, "@add(__load__)"), D("d6", 6, "@add(t)"),
                                                                          D("d7", 7, "@add(c.x)"), D("p8", 8, "@private"), D("r9", 9, "@root"), F("inner", 10)]))]),
    ("decorated-nested-in-nested-class", [C("a", C("B.k", F("f", 1, [D("deco", 2, "@add(__tick__)"), E("E3", 3, deco="@add(__load__)"), E("E4", 4, deco="@private"),
                                                                   E("E5", 5, deco="@root", body="comment"), E("E6", 6, deco="@add(a.g)")])), F("g", 7))]),
    ("decorated-nested-top-level", [F("f", 1, [D("deco", 2, "@add(__tick__)"), E("E3", 3, deco="@private"), D("r4", 4, "@root")]), F("g", 5)]),
    ("decorated-nested-this", [C("c", F("x", 1), F("f", 2, [("func", "deco", 3, [], ["this.x", ("sched", "this.x"), "c.x"], dict(body="marker", deco="@add(__tick__)")),
                                                           ("func", "inner", 4, [], ["this.x"]), D("d5", 5, "@add(this.x)")]))]),
    ("decorated-nested-declares", [C("c", F("f", 1, [("func", "deco", 2, [F("deep", 3), N("predicate", "pp", 4), D("d5", 5, "@add(__tick__)")], [], dict(body="marker", deco="@root"))]),
                                     F("deep2", 6))]),
    ("decorated-nested-vs-member", [C("c", F("f", 1, [D("g", 2, "@add(__tick__)")]), F("g", 3))]),
    ("decorated-nested-vs-toplevel", [C("c", F("f", 1, [D("g", 2, "@add(__tick__)")])), F("g", 3), F("c.h", 4)]),
    ("decorated-nested-vs-dotted", [C("c", F("f", 1, [D("g", 2, "@root")])), F("c.g", 3)]),
    ("decorated-nested-twice", [C("c", F("f", 1, [D("g", 2, "@private")]), F("h", 3, [D("g", 4, "@add(__load__)")]))]),
    ("decorated-nested-two-classes", [C("c", F("f", 1, [D("g", 2, "@add(__tick__)")])), C("d", F("f", 3, [D("g", 4, "@add(__tick__)")]))]),
    # ---- round 2: call sites into an #override namespace two or more levels deep, every call form
    ("override-deep-calls", [C("shared", C("util", ("func", "clear", 1, [], ["this.done", ("sched", "this.done"), ("exec", "this.clear")]), F("done", 2)),
                               ("func", "top", 3, [], ["this.util.clear", ("exec", "shared.util.done")])),
                             F("shared.util.wipe", 4), F("shared.a.b.c.d", 5),
                             ("func", "main", 6, [], ["shared.util.clear", ("sched", "shared.util.wipe"), ("exec", "shared.util.done"),
                                                      ("call", "shared.a.b.c.d"), ("sched", "shared.top"), "minecraft.util.clear"]),
                             F("minecraft.util.clear", 7), D("hook", 8, "@add(shared.util.clear)"), E("shared.x.y.E9", 9, deco="@add(shared.a.b.c.d)")]),
    ("override-deep-with", [F("shared.util.clear", 1), C("shared", C("k", ("func", "m", 2, [], [("with", "this.m"), ("with", "shared.util.clear")]))),
                            ("func", "main", 3, [], [("with", "shared.util.clear"), ("with", "shared.k.m")])]),
]


def L(name, mk, calls=(), inner=(), deco="@lazy"):
    """(round 3) a @lazy function (no file; expanded at every call)"""
    return ("lazy", name, mk, list(inner), list(calls), deco)


def FC(name, mk, calls, inner=()):
    return ("func", name, mk, list(inner), list(calls))


def LD(mk, *calls):
    """statements of the load function: a marker and call sites"""
    return ("load", mk, list(calls))


# ---- round 3: @lazy functions inside classes, `this.` / declarations in their body, called from OTHER classes, nested classes,
# top-level functions and the load function.  Every caller class has its own `helper` / `made` so that a body parsed with the
# CALLER's prefix would still compile (and silently call / declare the wrong one).
LAZY_SHAPES = [
    ("lazy-this-other-class", [C("lib", L("tpl", 1, ["this.helper"]), F("helper", 2)),
                               C("game", F("helper", 3), FC("run", 4, [("lazy", "lib.tpl"), "this.helper"]))]),
    ("lazy-declares-other-class", [C("lib", L("tpl", 1, [], [F("made", 2)]), F("helper", 3)),
                                   C("game", F("made", 4), FC("run", 5, [("lazy", "lib.tpl")]))]),
    ("lazy-this-and-declares", [C("lib", L("tpl", 1, ["this.helper", ("sched", "this.helper"), ("exec", "this.made")], [FC("made", 2, ["this.helper", "this.made"])]), F("helper", 3)),
                                C("game", F("helper", 4), F("made", 5), FC("run", 6, ["this.helper", ("lazy", "lib.tpl"), "this.made"]))]),
    ("lazy-nested-class-caller", [C("lib", L("tpl", 1, ["this.helper"], [F("made", 2)]), F("helper", 3),
                                    C("sub", F("helper", 4), F("made", 5), FC("go", 6, [("lazy", "lib.tpl"), "this.helper"])))]),
    ("lazy-in-nested-class", [C("lib", F("helper", 1), C("deep", L("tpl", 2, ["this.helper", "lib.helper"], [F("made", 3)]), F("helper", 4))),
                              C("game", F("helper", 5), FC("run", 6, [("lazy", "lib.deep.tpl")])), FC("top", 7, ["lib.deep.helper"])]),
    ("lazy-top-level-caller", [C("lib", L("tpl", 1, ["this.helper"], [F("made", 2)]), F("helper", 3)), F("helper", 4), F("made", 5),
                               FC("top", 6, [("lazy", "lib.tpl"), "helper"])]),
    ("lazy-load-caller", [C("lib", L("tpl", 1, ["this.helper"], [F("made", 2)]), F("helper", 3)), F("helper", 4), LD(5, ("lazy", "lib.tpl"), "helper")]),
    ("lazy-same-class-caller", [C("lib", L("tpl", 1, ["this.helper"], [F("made", 2)]), F("helper", 3), FC("same", 4, [("lazy", "this.tpl"), "this.helper"]))]),
    ("lazy-calls-lazy", [C("lib", L("inner", 1, ["this.helper"]), L("outer", 2, [("lazy", "this.inner"), "this.helper"], [F("made", 3)]), F("helper", 4)),
                         C("other", L("wrap", 5, [("lazy", "lib.outer"), "this.helper"]), F("helper", 6)),
                         C("game", F("helper", 7), FC("run", 8, [("lazy", "other.wrap"), "this.helper"]))]),
    ("lazy-many-callers", [C("lib", L("tpl", 1, ["this.helper", ("sched", "this.helper")]), F("helper", 2)),
                           C("a", F("helper", 3), FC("r1", 4, [("lazy", "lib.tpl")]), C("b", F("helper", 5), FC("r2", 6, [("lazy", "lib.tpl"), ("lazy", "lib.tpl")]))),
                           FC("top", 7, [("lazy", "lib.tpl")]), LD(8, ("lazy", "lib.tpl"))]),
    ("lazy-declares-twice", [C("lib", L("tpl", 1, [], [F("made", 2)])), C("a", FC("r1", 3, [("lazy", "lib.tpl")])), C("b", FC("r2", 4, [("lazy", "lib.tpl")]))]),
    ("lazy-declares-vs-user", [C("lib", L("tpl", 1, [], [F("made", 2)]), F("made", 3)), C("game", FC("run", 4, [("lazy", "lib.tpl")]))]),
    ("lazy-declares-vs-caller-class", [C("lib", L("tpl", 1, [], [F("made", 2)])), C("game", FC("run", 3, [("lazy", "lib.tpl")]), F("made", 4)), F("game.made2", 5)]),
    ("lazy-declares-json", [C("lib", L("tpl", 1, [], [N("predicate", "pp", 2), F("made", 3)])), C("game", N("predicate", "pp2", 4), FC("run", 5, [("lazy", "lib.tpl")]))]),
    ("lazy-override-namespace", [C("shared", C("util", L("tpl", 1, ["this.done", ("sched", "this.done")], [F("made", 2)]), F("done", 3))),
                                 C("game", F("done", 4), FC("run", 5, [("lazy", "shared.util.tpl")])), C("minecraft", F("done", 6), FC("go", 7, [("lazy", "shared.util.tpl")]))]),
    ("lazy-dotted-class", [C("Lib.Core", L("Tpl", 1, ["this.Helper"], [F("Made", 2)]), F("Helper", 3)), C("game", F("helper", 4), FC("run", 5, [("lazy", "Lib.Core.Tpl")]))]),
    ("lazy-unused", [C("lib", L("tpl", 1, ["this.helper"], [F("made", 2)]), F("helper", 3)), C("game", FC("run", 4, ["lib.helper"]))]),
    ("lazy-if-decorator", [C("lib", L("tpl", 1, ["this.helper", ("ifrun", "this.helper"), ("arrow1", "this.helper")], [F("made", 2)], deco="@if(1)"), F("helper", 3)),
                           C("game", F("helper", 4), F("made", 5), FC("run", 6, [("lazy", "lib.tpl"), ("ifrun", "this.helper")]))]),
    ("lazy-block-forms", [C("lib", L("tpl", 1, [("ifrun", "this.helper"), ("arrow1", "this.helper"), ("exec", "this.helper")]), F("helper", 2)),
                          C("game", F("helper", 3), FC("run", 4, [("arrow1", "this.helper"), ("lazy", "lib.tpl"), ("ifrun", "this.helper")]))]),
    # (round 3 finding, fixes/C08-pending-if-before-nested-declaration.patch) an `if` without `else` directly before a nested declaration:
    # the pending if-chain was emitted into the NESTED function's file
    ("if-before-nested-declaration", [F("helper", 1), FC("outer", 2, ["helper", ("ifrun", "helper")], [FC("inner", 3, ["helper"])]),
                                      C("k", F("helper", 4), FC("outer", 5, [("ifrun", "this.helper")], [F("inner", 6), N("predicate", "pp", 7)]),
                                        L("tpl", 8, [("ifrun", "this.helper")], [F("made", 9)]), FC("user", 10, [("lazy", "this.tpl"), "this.helper"]))]),
    # (misc triage 4c) a @lazy / @if function declared inside a METHOD belongs to the class: `this.lz()` / `c.lz()` expand it
    ("lazy-declared-in-method", [C("c", F("x", 1), ("func", "f", 2, [L("lz", 3, ["this.x"])], [("lazy", "this.lz"), ("lazy", "c.lz"), "this.x"], dict(body="marker", decl_first=True)))]),
    ("lazy-declared-in-nested-class-method", [C("c", F("x", 1), C("n", F("x", 4), ("func", "f", 5, [L("lz", 6, ["this.x", ("sched", "this.x")], deco="@if(1)")],
                                                                                  [("lazy", "this.lz"), ("lazy", "c.n.lz")], dict(body="marker", decl_first=True))))]),
    ("lazy-with-forms", [C("lib", L("tpl", 1, [("with", "this.helper"), ("exec", "this.helper")]), F("helper", 2)), C("game", F("helper", 3), FC("run", 4, [("lazy", "lib.tpl")]))]),
]


class LazyGen:
    """(round 3) random programs: library classes (possibly nested) holding @lazy functions whose bodies use `this.` and declare
    functions / json; callers in other classes, nested classes, the same class, top-level functions and the load function; every
    class has members of the same names."""

    def __init__(self, rng):
        self.rng, self.mk = rng, 0

    def next_mk(self):
        self.mk += 1
        return self.mk

    def program(self, with_ok=True):
        r = self.rng
        self.mk = 0
        members = ["helper", "go", "made"]
        lib_names = r.sample(["lib", "Lib.core", "shared", "util", "shared.util", "kit"], r.randint(1, 2))
        tpls = []          # (absolute spelling, class path list)
        decl_budget = {}
        prog = []

        def call_forms(sp):
            return sp if r.random() < 0.4 else (r.choice(["sched", "exec", "ifrun", "arrow1"] + (["with"] if with_ok else [])), sp)

        def lib_class(name, classes, depth):
            ms = [F(m, self.next_mk()) for m in members[:r.randint(1, 3)]]
            names = [m[1] for m in ms]
            for ti in range(r.randint(1, 2)):
                tname = f"tpl{self.next_mk()}"
                calls = [call_forms("this." + r.choice(names)) for _ in range(r.randint(0, 3))]
                if tpls and r.random() < 0.3:
                    calls.insert(r.randrange(len(calls) + 1), ("lazy", r.choice(tpls)[0]))     # a lazy body calling an earlier lazy function
                inner = []
                if r.random() < 0.5:
                    inner.append(FC(f"made{self.next_mk()}" if r.random() < 0.7 else "made", self.next_mk(), [call_forms("this." + r.choice(names))] if r.random() < 0.5 else []))
                if r.random() < 0.2:
                    inner.append(N("predicate", f"p{self.next_mk()}", self.next_mk()))
                ms.append(L(tname, self.next_mk(), calls, inner, deco=r.choice(["@lazy", "@lazy", "@if(1)"])))
                tpls.append((".".join(classes + [name, tname]), classes + [name]))
            if depth > 0 and r.random() < 0.4:
                ms.append(lib_class(r.choice(["deep", "in", "sub"]), classes + [name], depth - 1))
            if r.random() < 0.45:
                # a nested class of the library that CALLS the library's lazy functions (its own members have the same names)
                own = members[:r.randint(1, 3)]
                sub = [F(m, self.next_mk()) for m in own]
                mine = [t[0] for t in tpls if t[1] == classes + [name]]
                sub.append(FC(f"go{self.next_mk()}", self.next_mk(), [("lazy", r.choice(mine)), call_forms("this." + r.choice(own))]))
                ms.append(C(r.choice(["nest", "part"]), *sub))
            if r.random() < 0.5:
                ms.append(FC("same", self.next_mk(), [("lazy", "this." + r.choice([m[1] for m in ms if m[0] == "lazy"])), "this." + r.choice(names)]))
            r.shuffle(ms)
            # a lazy function must be defined before it is used: templates first
            ms.sort(key=lambda m: 0 if m[0] == "lazy" else 1)
            return C(name, *ms)
        for ln in lib_names:
            prog.append(lib_class(ln, [], 1))

        def caller_calls(own_members):
            calls = []
            for _ in range(r.randint(1, 3)):
                x = r.random()
                if x < 0.6:
                    calls.append(("lazy", r.choice(tpls)[0]))
                elif own_members:
                    calls.append(call_forms("this." + r.choice(own_members)))
            return calls

        def caller_class(name, depth):
            own = members[:r.randint(1, 3)]
            ms = [F(m, self.next_mk()) for m in own]
            for _ in range(r.randint(1, 2)):
                ms.append(FC(f"run{self.next_mk()}", self.next_mk(), caller_calls(own)))
            if depth > 0 and r.random() < 0.4:
                ms.append(caller_class(r.choice(["inner", "sub", "lib"]), depth - 1))
            return C(name, *ms)
        for cn in r.sample(["game", "Game.Mode", "minecraft", "shared", "lib2", "k"], r.randint(1, 2)):
            if cn in lib_names:
                continue
            prog.append(caller_class(cn, 1))
        for m in members[:r.randint(0, 2)]:
            prog.append(F(m, self.next_mk()))
        if r.random() < 0.6:
            prog.append(FC(f"top{self.next_mk()}", self.next_mk(), caller_calls([])))
        if r.random() < 0.4:
            prog.append(LD(self.next_mk(), *[c for c in caller_calls([]) if not isinstance(c, str)]))
        return prog


# ------------------------------------------------------------------ (round 3) user definitions at compiler-generated names
# "A definition and a resource the compiler generates itself landing on the same path must fail or coexist, never silently replace."
# Generators: every built-in with a compiling probe (harness/c07.py registry probes + hand probes), the statements that allocate
# private functions, and @add.  For every file a generator makes the compiler write (or extend: the load / tick function), a user
# definition of exactly that name is added (function / class member / json of that type; before and after the generator): the
# compile must be refused with a diagnostic, or the user's marker is in the output exactly once AND everything the generator alone
# wrote to that file is still there.
CORE_GENERATORS = {
    "core:if-else": 'function gen0() { if ($x > 1) { say "g1"; say "g2"; } else { say "g3"; say "g4"; } }',
    "core:while": 'function gen0() { while ($x > 1) { say "g1"; $x -= 1; } }',
    "core:switch": 'function gen0() { switch($x) { case 1: say "g1"; say "g2"; case 2: say "g3"; say "g4"; } }',
    "core:anonymous": 'function gen0() { execute as @a run { say "g1"; say "g2"; } schedule 5t { say "g3"; say "g4"; } }',
    "core:add-tick": '@add(__tick__) function added0() { say "g1"; }',
    "core:add-tick-class": 'class kit { @add(__tick__) function added0() { say "g1"; } @add(__tick__) function added1() { say "g2"; } }',
    "core:add-load": '@add(__load__) function added0() { say "g1"; }',
    "core:add-func": 'function base0() { say "g0"; }\n@add(base0) function added0() { say "g1"; }',
    "core:add-tick+timer": '@add(__tick__) function added0() { say "g1"; }\nTimer.add(cd9, runTick, @a, ()=>{ say "g2"; say "g3"; });',
    "core:load-statements": 'say "g1";\nif ($x > 1) { say "g2"; say "g3"; }',
}
NAME_SETS = [dict(), dict(LOAD="init", TICK="sys/tick", PRIVATE="jmc/internal")]


def _spell(job_src, names):
    n = names_of(dict(names=names))
    return (job_src.replace("__tick__", n["TICK"].replace("/", ".")).replace("__load__", n["LOAD"].replace("/", "."))
            .replace("__private__", n["PRIVATE"].replace("/", ".")))


def generated_name_cases(rng, tier, consts):
    """-> (cases, coverage); a case = dict(origin, job, marker, file, keep=[lines the generator alone wrote to that file])"""
    import c07
    registry = run_py(OPTRACE, {"mode": "registry"})
    gens = {}       # name -> (src, pack_format, header)
    probes = c07.builtin_probe_jobs(registry, CERT)
    flat = [dict(src=j["src"], cert=j["cert"], pack_format=j["pack_format"]) for _, js in probes for j in js]
    pres = compile_batch(flat, chunk=120)
    pos = 0
    for name, js in probes:
        rs = pres[pos:pos + len(js)]
        pos += len(js)
        hit = next((j for j, r in zip(js, rs) if r["ok"]), None)
        if hit:
            gens["builtin:" + name] = (hit["src"], hit["pack_format"], None)
    for name, spec in c07.HAND_PROBES.items():
        gens["probe:" + name] = (spec[0], spec[1], spec[2] if len(spec) > 2 else None)
    for name, src in CORE_GENERATORS.items():
        gens[name] = (src, 48, None)
    baseline_src = 'function probe.target() { say "t1"; say "t2"; }\n'
    types = sorted(consts["types"], key=len, reverse=True)
    cases, per_gen, skipped = [], {}, []
    # 1. what does each generator alone write?
    alone_jobs, keys = [], []
    for ni, names in enumerate(NAME_SETS):
        cfg = dict(names=names)
        for g, (src, pf, hdr) in gens.items():
            hdr2 = "\n".join(h for h in (hdr, "#override minecraft") if h)
            alone_jobs.append(dict(src=_spell(src, names), cert=cert_of(cfg), pack_format=pf, header=hdr2, namespace="TEST"))
            keys.append((ni, g))
        alone_jobs.append(dict(src=baseline_src, cert=cert_of(cfg), pack_format=48, header="#override minecraft", namespace="TEST"))
        keys.append((ni, None))
    alone = dict(zip(keys, compile_batch(alone_jobs, chunk=60)))
    mk = 0
    for (ni, g), r in alone.items():
        if g is None or not r["ok"]:
            if g is not None:
                skipped.append(g)
            continue
        names = NAME_SETS[ni]
        cfg = dict(names=names)
        n = names_of(cfg)
        src, pf, hdr = gens[g]
        base = alone[(ni, None)]["files"]
        ff = "functions" if float(pf) < 48 else "function"
        resources = []
        for path, content in r["files"].items():
            m = re.match(r"^VIRTUAL/data/([^/]+)/(.*)\.(mcfunction|json)$", path)
            if not m or path.endswith("pack.mcmeta"):
                continue
            bpath = path.replace("/functions/", "/function/") if ff == "functions" else path
            old = base.get(bpath, None) if m.group(3) == "mcfunction" else base.get(bpath)
            if old == content and "probe/target" in path:
                continue
            if m.group(3) == "mcfunction":
                keep = [l for l in content.split("\n") if l and l not in (old or "").split("\n")]
                if old is not None and not keep:
                    continue
                rel = m.group(2)[len(ff) + 1:]
                if m.group(1) != "TEST" or rel == n["LOAD"]:
                    continue                                        # (the load function can never be user-defined: "Load function is defined")
                resources.append(("func", path, rel, keep))
            else:
                if old == content and not (m.group(1) == "minecraft" and g in ("core:load-statements", "core:add-load", "probe:Timer.*")):
                    continue                                        # (the load tag is written for every program: kept for three generators)
                t = next((t for t in types if m.group(2).startswith(t + "/")), None)
                if m.group(2).startswith("tags/"):
                    t = "/".join(m.group(2).split("/")[:2])
                legacy_t = next((t for t in consts["legacy"] if m.group(2).startswith(t + "/")), None)
                t = t or legacy_t
                if t is None:
                    continue
                rel = m.group(2)[len(t) + 1:]
                resources.append(("json", path, (t, rel, m.group(1)), [content]))
        if tier == "quick" and len(resources) > 4:
            # the load/tick function, every json, and a sample of the private functions
            first = [x for x in resources if x[0] == "json" or x[2] == n["TICK"]]
            rest = [x for x in resources if x not in first]
            resources = first[:4] + rng.sample(rest, min(len(rest), max(0, 4 - len(first[:4]))))
        per_gen[g] = per_gen.get(g, 0) + len(resources)
        gsrc = _spell(src, names)
        hdr2 = "\n".join(h for h in (hdr, "#override minecraft") if h)
        for kind, path, rel, keep in resources:
            forms = []
            mk += 1
            if kind == "func":
                dotted = rel.replace("/", ".")
                forms.append(f'function {dotted}() {{ say "{mark(mk)}"; }}')
                if "/" in rel:
                    cls, member = rel.rsplit("/", 1)
                    forms.append(f'class {cls.replace("/", ".")} {{ function {member}() {{ say "{mark(mk)}"; }} }}')
                    forms.append(f'class {cls.replace("/", ".")} {{ function other0() {{ say "o"; }} function {member}() {{ say "{mark(mk)}"; function inner0() {{ say "i"; }} }} }}')
                else:
                    forms.append(f'function {dotted}() {{ say "{mark(mk)}"; function inner0() {{ say "i"; }} }}')
            else:
                t, name, jns = rel
                dotted = (jns + "." if jns != "TEST" else "") + name.replace("/", ".")
                forms.append(f'new {t.replace("/", ".")}({dotted}) {{"m": "{mark(mk)}"}}')
            if tier == "quick" and len(forms) > 1:
                forms = [forms[0], rng.choice(forms[1:])]
            for fi, form in enumerate(forms):
                for order in ("user-first", "user-last"):
                    usrc = (form + "\n" + gsrc) if order == "user-first" else (gsrc + "\n" + form)
                    cases.append(dict(origin=f"genname:{g}:{ni}:{order}:{fi}", marker=mark(mk), file=path, keep=keep, resource_kind=kind,
                                      job=dict(src=usrc, cert=cert_of(cfg), pack_format=pf, header=hdr2, namespace="TEST")))
    cov = dict(generators=len(gens), generators_not_compiling=sorted(set(skipped)), name_sets=len(NAME_SETS),
               generated_resources=sum(per_gen.values()), cases=len(cases))
    return cases, cov


def generated_name_failure(case, res):
    """None, or the way a user definition at a generated name was silently lost / replaced the generated content"""
    if not res["ok"]:
        if res.get("jmc") or res.get("exc") == "Timeout":
            return None
        return dict(kind="internal-error", exc=res["exc"], msg=res["msg"][:300], frame=res.get("frame"))
    total = sum(c.count(case["marker"]) for c in res["files"].values())
    if total != 1:
        return dict(kind="definition-lost-or-duplicated", marker=case["marker"], count=total, file=case["file"],
                    note="a user definition at a name the compiler generates itself was accepted but its body is not in the output exactly once")
    content = res["files"].get(case["file"])
    if case["resource_kind"] == "json":
        if content is None or content not in case["keep"]:
            # the user json and the generated json cannot both be in one file
            return dict(kind="generated-resource-replaced", file=case["file"], expected=case["keep"][0][:200], actual=(content or "<missing>")[:200])
        return None
    lines = (content or "").split("\n")
    missing = [l for l in case["keep"] if l not in lines]
    if missing:
        return dict(kind="generated-resource-replaced", file=case["file"], missing_lines=missing[:5], actual=(content or "<missing>")[:400],
                    note="the lines the generator writes to this file are gone although the compile was accepted")
    return None

# ------------------------------------------------------------------ (round 3) definitions generated by Hardcode.repeat / repeatList
# `Hardcode.repeat((i)=>{ function gen_$i() {..} new predicate(p_$i) {..} }, start=a, stop=b)` declares one function / json per index,
# in the load statements, in a function, in a class member (class prefix).  Every copy carries its own marker (`Q<base>$iQ`).  Oracle:
# a copy that lands on the path of another definition (a user function, a copy of a second repeat) => refused; otherwise every
# marker exactly once, in the file documented for the generated name.
def hardcode_cases(rng, tier):
    cases = []
    n = 40 if tier == "quick" else 400
    for k in range(n):
        ctx = rng.choice(["load", "func", "class", "nested-class"])
        a = rng.randint(0, 3)
        b = a + rng.randint(1, 4)
        base = 100 + k
        classes = {"load": [], "func": [], "class": ["Kit"], "nested-class": ["kit", "Sub.x"]}[ctx]
        prefix = "".join(c.lower().replace(".", "/") + "/" for c in classes)
        kind = rng.choice(["func", "func", "json", "both", "list"])
        body, exp = "", {}
        if kind in ("func", "both"):
            body += f'function gen_$i() {{ say "Q{base}x$iQ"; }} '
            for i in range(a, b):
                exp[f"Q{base}x{i}Q"] = f"VIRTUAL/data/TEST/function/{prefix}gen_{i}.mcfunction"
        if kind in ("json", "both"):
            body += f'new predicate(p_$i) {{"m": "Q{base}y$iQ"}} '
            for i in range(a, b):
                exp[f"Q{base}y{i}Q"] = f"VIRTUAL/data/TEST/predicate/p_{i}.json"          # (`new` inside a function body: no class prefix)
        if kind == "list":
            names = rng.sample(["red", "blue", "green", "gold"], rng.randint(1, 3))
            stmt = (f'Hardcode.repeatList((i, s)=>{{ function col_$s() {{ say "Q{base}z$iQ"; }} }}, strings=[' + ", ".join(f'"{x}"' for x in names) + "]);")
            for i, x in enumerate(names):
                exp[f"Q{base}z{i}Q"] = f"VIRTUAL/data/TEST/function/{prefix}col_{x}.mcfunction"
        else:
            stmt = f"Hardcode.repeat((i)=>{{ {body}}}, start={a}, stop={b});"
        collide = None
        extra = ""
        x = rng.random()
        if x < 0.3 and kind in ("func", "both"):
            j = rng.randint(a - 1, b)          # a user definition at (or just beside) a generated name
            path = f"{prefix}gen_{j}"
            extra = f'function {path.replace("/", ".")}() {{ say "Q{base}uQ"; }}'
            exp[f"Q{base}uQ"] = f"VIRTUAL/data/TEST/function/{path}.mcfunction"
            collide = a <= j < b
        elif x < 0.45 and kind in ("func", "both"):
            a2 = rng.randint(max(0, a - 2), b + 1)
            b2 = a2 + rng.randint(1, 2)
            extra = f'function other{k}() {{ Hardcode.repeat((i)=>{{ function {prefix.replace("/", ".")}gen_$i() {{ say "Q{base}w$iQ"; }} }}, start={a2}, stop={b2}); }}'
            for i in range(a2, b2):
                exp[f"Q{base}w{i}Q"] = f"VIRTUAL/data/TEST/function/{prefix}gen_{i}.mcfunction"
            collide = any(a <= i < b for i in range(a2, b2))
        inner = stmt if ctx == "load" else f"function holder() {{ {stmt} }}"
        for c in reversed(classes):
            inner = f"class {c} {{ {inner} }}"
        src = "\n".join(p for p in ((extra, inner) if rng.random() < 0.5 else (inner, extra)) if p)
        cases.append(dict(origin=f"hardcode:{ctx}:{kind}:{k}", expect=exp, collide=collide,
                          job=dict(src=src, cert=CERT, pack_format=48, namespace="TEST")))
    return cases


def hardcode_failure(case, res):
    if not res["ok"]:
        if not res.get("jmc") and res.get("exc") != "Timeout":
            return dict(kind="internal-error", exc=res["exc"], msg=res["msg"][:300], frame=res.get("frame"))
        if case["collide"] is False and "Duplicate" in (res.get("msg") or ""):
            return dict(kind="distinct-definitions-refused", msg=res["msg"][:300])
        return None
    if case["collide"]:
        return dict(kind="equal-paths-both-accepted", note="a generated definition and another definition share a path and the compile was accepted",
                    expected_files=case["expect"])
    for text, f in case["expect"].items():
        where = [p for p, c in res["files"].items() for _ in range(c.count(text))]
        if where != [f]:
            return dict(kind="definition-lost-or-duplicated" if len(where) != 1 else "definition-misplaced", marker=text, expected=f, actual=where)
    return None


# ------------------------------------------------------------------ (misc triage 4a/4b) declaration sequences: Model/DeclNames.v
# A program = one event per source line:  ("decl", kind, deco, classes, name)  |  ("call", classes, spelling).
# kind: "plain" | "saved" (@add / @private / @root: a file) | "template" (@lazy / @if: no file, expanded at every call).
# Declaration i is `<deco>function <name>() { say "Q<i>Q"; }` wrapped in its classes; caller j is `function c<j>() { say "C<j>C"; <callee>(); }`.
# Documented: two declarations with the same path (lower case, dots to slashes, class prefix) are never both accepted, whatever
# their kinds; the diagnostic cites the first declaration whose path was declared before; a call resolves to THE declaration of
# its path (template declared before the call: body expanded; otherwise `function <ns>:<path>`, which must be a written file).
DS_DECOS = {"plain": [""], "saved": ["@add(__tick__) ", "@add(__load__) ", "@root ", "@private "], "template": ["@lazy ", "@if(1) "]}
DS_KIND = {"plain": "KPlain", "saved": "KSaved", "template": "KTemplate"}
# spellings (classes, name) grouped by the path they fold to
DS_SPELL = {
    "foo": [([], "foo"), ([], "Foo"), ([], "FOO")],
    "bar": [([], "bar"), ([], "Bar")],
    "a/b": [([], "a.b"), ([], "A.B"), (["a"], "b"), (["A"], "B")],
    "a/c": [(["a"], "c"), ([], "a.C")],
    "a/b/c": [([], "a.b.c"), (["a"], "b.c"), (["a", "b"], "c"), (["a.b"], "c"), (["A.b"], "C"), (["a", "B"], "c")],
    "k/m/x_1": [(["K.m"], "x_1"), ([], "k.M.x_1"), (["k", "m"], "X_1")],
    "a": [([], "a"), ([], "A")],
}


def ds_path(classes, name):
    if name.startswith("this."):
        name = name[5:] if classes else name
    return py_path(".".join(list(classes) + [name]))


def ds_event_path(e):
    if e[0] == "decl":
        return ds_path(e[3], e[4])
    return ds_path(e[1], e[2]) if e[2].startswith("this.") else py_path(e[2])       # only `this.` is relative to the caller's class


def ds_render(seq) -> str:
    out = []
    for i, e in enumerate(seq):
        if e[0] == "decl":
            classes, text = e[3], f'{e[2]}function {e[4]}() {{ say "Q{i}Q"; }}'
        else:
            classes, text = e[1], f'function c{i}() {{ say "C{i}C"; {e[2]}(); }}'
        for c in reversed(classes):
            text = f"class {c} {{ {text} }}"
        out.append(text)
    return "\n".join(out) + "\n"


def ds_job(seq):
    return dict(src=ds_render(seq), cert=CERT, pack_format=48, namespace="TEST")


def ds_fix_private(seq):
    """@private may be called from its own class only: a called @private declaration becomes @root unless every caller is in its class"""
    out = list(seq)
    for i, e in enumerate(out):
        if e[0] == "decl" and e[2] == "@private ":
            pre = ds_path(e[3], "x")[:-1]
            for c in out:
                if c[0] == "call" and ds_event_path(c) == ds_event_path(e) and ds_path(c[1], "x")[:-1] != pre:
                    out[i] = ("decl", e[1], "@root ", e[3], e[4])
    return out


def ds_call_of(rng, path, spell):
    """a caller of `path`: absolute spelling from the top level / another class, or `this.`-relative from a class with that prefix"""
    classes, name = spell
    x = rng.random()
    if classes and x < 0.4:
        return ("call", list(classes), "this." + name)
    dotted = ".".join(list(classes) + [name])
    return ("call", [] if x < 0.8 else ["other"], dotted)


def decl_sequence_cases(rng, tier):
    seqs = []
    variants = [(k, d) for k in ("plain", "saved", "template") for d in DS_DECOS[k]]
    # exhaustive for two declarations: every (kind, decorator) pair in both orders x {same spelling, case-folded spelling,
    # class-vs-dotted spelling, different path}, each followed by a caller of each path; one caller between the two for variety
    shapes = [("same", ([], "foo"), ([], "foo")), ("case", ([], "foo"), ([], "Foo")), ("class-dotted", (["a"], "b"), ([], "A.b")),
              ("different", ([], "foo"), ([], "bar"))]
    for (k1, d1) in variants:
        for (k2, d2) in variants:
            for sname, s1, s2 in shapes:
                seq = [("decl", k1, d1, s1[0], s1[1]), ("decl", k2, d2, s2[0], s2[1]),
                       ("call", [], ".".join(s1[0] + [s1[1]])), ("call", [], ".".join(s2[0] + [s2[1]]))]
                seqs.append((f"pair:{sname}:{d1.strip() or 'plain'}:{d2.strip() or 'plain'}", ds_fix_private(seq)))
    # callers before / between the declarations (a template is expanded only by calls written after it)
    for (k1, d1) in variants:
        for (k2, d2) in [v for v in variants if v[1] in ("", "@lazy ", "@add(__tick__) ")]:
            seq = [("call", [], "foo"), ("decl", k1, d1, [], "foo"), ("call", [], "Foo"), ("decl", k2, d2, [], "FOO"), ("call", [], "foo")]
            seqs.append((f"interleaved:{d1.strip() or 'plain'}:{d2.strip() or 'plain'}", ds_fix_private(seq)))
    # three declarations of one path: which one is cited / which one a call means
    for ks in [("template", "template", "plain"), ("template", "plain", "template"), ("template", "template", "template"),
               ("plain", "template", "template"), ("template", "saved", "plain"), ("template", "template", "saved")]:
        for group in ("a/b", "a/b/c"):
            sp = DS_SPELL[group]
            seq = [("decl", k, DS_DECOS[k][0], list(sp[n % len(sp)][0]), sp[n % len(sp)][1]) for n, k in enumerate(ks)]
            seq.append(ds_call_of(rng, group, sp[0]))
            seqs.append((f"triple:{group}:{'-'.join(ks)}", ds_fix_private(seq)))
    n_rand = 150 if tier == "quick" else 1500
    groups = list(DS_SPELL)
    for n in range(n_rand):
        n_decl = rng.randint(2, 5)
        distinct = rng.random() < 0.45          # (otherwise nearly every sequence has a duplicate)
        gs = rng.sample(groups, n_decl if distinct else rng.randint(1, 3))
        seq = []
        for di in range(n_decl):
            g = gs[di] if distinct else rng.choice(gs)
            k = rng.choice(["plain", "saved", "template", "template"])
            cl, nm = rng.choice(DS_SPELL[g])
            seq.append(("decl", k, rng.choice(DS_DECOS[k]), list(cl), nm))
        for _ in range(rng.randint(1, 3)):
            g = rng.choice(gs)
            seq.insert(rng.randint(0 if rng.random() < 0.25 else 1, len(seq)), ds_call_of(rng, g, rng.choice(DS_SPELL[g])))
        seqs.append((f"random:{n}", ds_fix_private(seq)))
    return [dict(origin="declseq:" + o, seq=sq, job=ds_job(sq)) for o, sq in seqs]


def ds_spec(seq, fixed=True):
    """the documented verdict (fixed=True) / the pinned behaviour (fixed=False: only file-producing declarations are looked up),
    in plain Python: ("dup", i, path) | ("undef", is_template) | ("ok", {path: i}, [(j, "expand", i) | (j, "file", path)])"""
    funs, lazy = {}, {}
    calls = []
    for i, e in enumerate(seq):
        p = ds_event_path(e)
        if e[0] == "decl":
            if p in funs or (fixed and p in lazy):
                return ("dup", i, p)
            (lazy if e[1] == "template" else funs)[p] = i
        else:
            calls.append((i, "expand", lazy[p]) if p in lazy else (i, "file", p))
    for c in calls:
        if c[1] == "file" and c[2] not in funs:
            return ("undef", c[2] in lazy)
    return ("ok", funs, calls)


def ds_real(seq, res):
    """the same shape, read off the real result"""
    if not res["ok"]:
        msg = res.get("msg") or ""
        m = re.search(r"Duplicate function declaration\(([^)]*)\) at line (\d+)", msg)
        if res["exc"] == "JMCSyntaxException" and m:
            return ("dup", int(m.group(2)) - 1, m.group(1))
        if res["exc"] == "JMCValueError" and "was never defined" in msg:
            return ("undef", False)
        if res["exc"] == "JMCSyntaxException" and "used before definition" in msg:
            return ("undef", True)
        return ("other", res["exc"], msg[:300], bool(res.get("jmc")))
    funs, calls, extra = {}, [], []
    for path, content in res["files"].items():
        m = re.match(r"^VIRTUAL/data/TEST/function/(.*)\.mcfunction$", path)
        if not m or m.group(1) in ("__load__", "__tick__") or m.group(1).startswith("__private__/"):
            continue
        rel, lines = m.group(1), [l for l in content.split("\n") if l]
        cm = re.fullmatch(r"say C(\d+)C", lines[0]) if lines else None
        if cm:
            j = int(cm.group(1))
            if len(lines) == 2 and re.fullmatch(r"say Q\d+Q", lines[1]):
                calls.append((j, "expand", int(lines[1][5:-1])))
            elif len(lines) == 2 and lines[1].startswith("function TEST:"):
                calls.append((j, "file", lines[1][len("function TEST:"):]))
            else:
                calls.append((j, "other", "\n".join(lines[1:])[:200]))
            if rel.split("/")[-1] != f"c{j}":
                extra.append(("caller-misplaced", rel))
            continue
        marks = re.findall(r"^say Q(\d+)Q$", content, re.M)
        if len(marks) == 1 and len(lines) == 1:
            if rel in funs:
                extra.append(("two-files", rel))
            funs[rel] = int(marks[0])
        else:
            extra.append(("file-content", rel, content[:200]))
    # the call @add generates
    for i, e in enumerate(seq):
        if e[0] == "decl" and e[2].startswith("@add("):
            tgt = "__tick__" if "tick" in e[2] else "__load__"
            want = "function TEST:" + ds_event_path(e)
            if want not in (res["files"].get(f"VIRTUAL/data/TEST/function/{tgt}.mcfunction") or "").split("\n"):
                extra.append(("add-call-missing", i, want))
    r = ("ok", funs, sorted(calls))
    return r + (extra,) if extra else r


def ds_known_rule(seq, real):
    """finding C08-lazy-duplicate-declaration: the first declaration with an already declared path has that path declared before
    only by templates, and the compiler did not refuse it"""
    spec, pin = ds_spec(seq, True), ds_spec(seq, False)
    if spec[0] != "dup" or pin == spec:
        return False
    return not (real[0] == "dup" and real[1] <= spec[1])


def ds_coq_term(case, fixed, strict) -> str:
    def ev(e):
        if e[0] == "decl":
            return f"SDecl {DS_KIND[e[1]]} {coq_list(coq_str(c) for c in e[3])} {coq_str(e[4])}"
        return f"SCall {coq_list(coq_str(c) for c in e[1])} {coq_str(e[2])}"
    real = case["real"]
    if real[0] == "dup":
        rt = f"XDup {real[1]} {coq_str(real[2])}"
    elif real[0] == "undef":
        rt = f"XUndef {coq_bool(real[1])}"
    elif real[0] == "ok" and len(real) == 3:
        files = coq_list(f"({coq_str(p)}, {i})" for p, i in real[1].items())
        calls = coq_list((f'({j}, "", RExpand {x})' if k == "expand" else f"({j}, {coq_str(x)}, RFile)") for j, k, x in real[2] if k != "other")
        rt = f"XOk {files} {calls}" if all(k != "other" for _, k, _ in real[2]) else "XOther"
    else:
        rt = "XOther"
    return f"mkDCase {coq_bool(fixed)} {coq_bool(strict)} {coq_list(ev(e) for e in case['seq'])} ({rt})"


# declarations the flat model does not have: a template / function declared INSIDE a body of the same path, and the `_` idiom
# (a template named `_` is deleted from lazy_func by its first call, so it may be declared again; `@if(..) function _()` is an
# instant call and never stored).  Plain oracle: expected verdict and, when accepted, the exact lines of the named files.
# (name, source, ("dup", cited path) | ("ok", {function file: [lines]}), the duplicate involves a template only protected by the 4a/4b repair)
DS_HAND = [
    ("template-inside-function-of-its-path", 'function foo() { say "P"; @lazy function foo() { say "L"; } }\nfunction m() { foo(); }', ("dup", "foo"), True),
    ("saved-function-declares-template-of-its-path", '@add(__tick__) function foo() { say "P"; @if(1) function foo() { say "L"; } }\nfunction m() { foo(); }', ("dup", "foo"), True),
    ("template-declares-function-of-its-path", '@lazy function foo() { say "L"; function foo() { say "P"; } }\nfunction m() { foo(); }', ("dup", "foo"), True),
    ("template-in-body-vs-later-function", 'function o() { say "O"; @lazy function foo() { say "L"; } }\nfunction foo() { say "P"; }\nfunction m() { foo(); }', ("dup", "foo"), True),
    ("template-in-method-vs-member", 'class c { function o() { say "O"; @lazy function foo() { say "L"; } this.foo(); } function foo() { say "P"; } }', ("dup", "c/foo"), "both"),
    ("function-in-body-vs-later-template", 'function o() { say "O"; function foo() { say "P"; } }\n@lazy function foo() { say "L"; }\nfunction m() { foo(); }', ("dup", "foo"), False),
    ("underscore-redeclared-after-call", 'function m() { @lazy function _() { say "1"; } _(); @lazy function _() { say "2"; } _(); say "end"; }',
     ("ok", {"m": ["say 1", "say 2", "say end"]}), False),
    ("underscore-redeclared-after-call-in-class", 'class k { @lazy function _() { say "1"; } function m1() { this._(); } @lazy function _() { say "2"; } function m2() { k._(); } }\n'
     'function m() { @lazy function _() { say "3"; } _(); }', ("ok", {"k/m1": ["say 1"], "k/m2": ["say 2"], "m": ["say 3"]}), False),
    ("underscore-twice-without-call", 'function m() { @lazy function _() { say "1"; } @lazy function _() { say "2"; } _(); }', ("dup", "_"), True),
    ("underscore-instant-calls", 'function m() { say "a"; @if(1) function _() { say "1"; } @if(1) function _() { say "2"; } @if(0) function _() { say "3"; } say "b"; }',
     ("ok", {"m": ["say a", "say 1", "say 2", "say b"]}), False),
    ("underscore-function-then-template", 'function _() { say "P"; }\nfunction m() { @lazy function _() { say "1"; } _(); }', ("dup", "_"), False),
]


def ds_hand_failure(expect, res):
    if expect[0] == "dup":
        if res["ok"]:
            return dict(kind="equal-paths-both-accepted", expected=f"Duplicate function declaration({expect[1]})",
                        actual={k: v for k, v in res["files"].items() if k.endswith(".mcfunction")})
        m = re.search(r"Duplicate function declaration\(([^)]*)\)", res.get("msg") or "")
        if not m or m.group(1) != expect[1]:
            return dict(kind="internal-error" if not res.get("jmc") else "wrong-declaration-cited", expected=f"Duplicate function declaration({expect[1]})",
                        actual=(res.get("exc"), (res.get("msg") or "")[:300]))
        return None
    if not res["ok"]:
        return dict(kind="distinct-definitions-refused" if res.get("jmc") else "internal-error", expected=expect[1], actual=(res.get("exc"), (res.get("msg") or "")[:300]))
    for rel, lines in expect[1].items():
        got = [l for l in (res["files"].get(f"VIRTUAL/data/TEST/function/{rel}.mcfunction") or "<no such file>").split("\n") if l]
        if got != lines:
            return dict(kind="definition-lost-or-duplicated", file=rel, expected=lines, actual=got)
    return None


DS_HEADER = ("From Coq Require Import String List.\nFrom JMCV Require Import Model.ResLoc Model.DeclNames Run.C08.\n"
             "Import ListNotations.\nOpen Scope string_scope.\n")


CONFIGS = [
    dict(ns="TEST", pack_format=-1, overrides=[]),
    dict(ns="mypack", pack_format=61, overrides=["minecraft"]),
    dict(ns="mypack", pack_format=15, overrides=["minecraft", "mypack"]),
    dict(ns="TEST", pack_format=48, overrides=[]),
    dict(ns="mypack", pack_format=48, overrides=["shared", "minecraft"]),      # (round 2) override namespaces entered >= 2 levels deep
    # (round 3) jmc.txt names other than the defaults: the internal names of the table shapes are spelled accordingly
    dict(ns="TEST", pack_format=61, overrides=["minecraft"], names=dict(LOAD="init", TICK="sys/tick", PRIVATE="jmc/internal")),
]


def internal(text, cfg):
    """the internal names as the user spells them under cfg: __load__ / __tick__ / __private__ stand for the jmc.txt names"""
    if not cfg.get("names") or not isinstance(text, str):
        return text
    n = names_of(cfg)
    return (text.replace("__load__", n["LOAD"].replace("/", ".")).replace("__tick__", n["TICK"].replace("/", "."))
            .replace("__private__", n["PRIVATE"].replace("/", ".")))


def resolve(items, cfg):
    """replace the placeholder json type @LOC by the folder Predicate.locations uses under cfg, and the default internal names by cfg's"""
    out = []
    for it in items:
        if it[0] == "func":
            rest = list(it[4:])
            if len(rest) > 1 and rest[1] and rest[1].get("deco"):
                rest[1] = dict(rest[1], deco=internal(rest[1]["deco"], cfg))
            out.append(("func", internal(it[1], cfg), it[2], resolve(it[3], cfg)) + tuple(rest))
        elif it[0] == "class":
            out.append(("class", internal(it[1], cfg), resolve(it[2], cfg)))
        elif it[0] == "lazy":
            out.append(("lazy", it[1], it[2], resolve(it[3], cfg), it[4]) + tuple(it[5:]))
        elif it[0] == "new" and it[1] != "@LOC":
            out.append(("new", it[1], internal(it[2], cfg), it[3]))
        elif it[0] == "new" and it[1] == "@LOC":
            out.append(("new", cfg.get("locfolder", "predicate"), it[2], it[3]))
        else:
            out.append(it)
    return out


def names_of(cfg) -> dict:
    """jmc.txt names of a configuration (round 3: not only the defaults)"""
    n = dict(LOAD="__load__", TICK="__tick__", PRIVATE="__private__", VAR="__variable__", INT="__int__", STORAGE="__storage__")
    n.update(cfg.get("names") or {})
    return n


def cert_of(cfg) -> str:
    return "\n".join(f"{k}={v}" for k, v in names_of(cfg).items())


def job_of(prog, cfg):
    header = "\n".join(f"#override {o}" for o in cfg["overrides"]) or None
    return dict(src=render(prog), header=header, cert=cert_of(cfg), pack_format=cfg["pack_format"], namespace=cfg["ns"])


def found_markers(prog, res):
    """[(mk, file)] for every occurrence of a definition's marker in the real output"""
    out = []
    if not res["ok"]:
        return out
    for mk, (kind, text) in markers_of(prog).items():
        for path, content in res["files"].items():
            if kind == "json" and not path.endswith(".json"):
                continue
            if kind == "file":
                if path.endswith(text):
                    out.append((mk, path))
                continue
            for _ in range(content.count(text)):
                out.append((mk, path))
    return out


# ------------------------------------------------------------------ which behaviour does the tree have?

WITNESS = {
    "strict": [F("a..b", 1)],
    "nested": [F("a", 1, [F("a", 2)])],
    "privjson": [N("advancements", "__private__.other", 1)],
    "gendup": [("genjson", "foo", 1), N("@LOC", "foo", 2)],
}


def detect_fixes():
    res = compile_batch([job_of(resolve(p, CONFIGS[0]), CONFIGS[0]) for p in WITNESS.values()], chunk=10)
    flags = {}
    for (name, _), r in zip(WITNESS.items(), res):
        flags[name] = (not r["ok"]) and r.get("jmc", False)
    return flags


FINDINGS = {
    "strict": ("C08-empty-segment-overwrite", "`function a.b` and `function a..b` (path a//b) are written to the same file: one is silently lost"),
    "nested": ("C08-nested-function-overwrite", "`function a() { function a() {…} }`: the inner definition is silently replaced (parse_func inserts after the body without re-checking)"),
    "privjson": ("C08-private-json-overwrite", "user json under <type>/__private__/… is accepted and silently replaced by a built-in's add_private_json (KeyError in the other order)"),
    "gendup": ("C08-generated-json-overwrite", "`new predicate(foo)` vs Predicate.locations(\"foo\", …): add_json silently replaces the user json (KeyError in the other order)"),
    "pendingif": ("C08-pending-if-before-nested-declaration", "an `if` without `else` directly followed by a nested function declaration is emitted into the nested "
                  "function's file instead of the enclosing function (FuncContent.parse_self_command returns before the pending if-chain is closed)"),
    "ownns": ("C08-own-namespace-override", "with `#override <own namespace>`, `function foo` and `function <ns>.foo` are written to the same file"),
}


FLAG_ORDER = ["strict", "nested", "privjson", "gendup"]
# an `if (...) { one command }` directly followed by a (decorated) function declaration
PENDING_IF = re.compile(r"if \([^\n]*\) \{[^{}\n]*\}\s*\n\s*(@\w+(\([^)\n]*\))?\s+)?function ")


def classify_all(failing, consts, flags, pre):
    """finding class of each failing case: the single repair (in Model/Defs.v) that turns the program into a diagnostic;
    decided by the model, so only meaningful when model and real agree on the case."""
    if not failing:
        return {}
    body = pre + "Definition cases := [\n" + ";\n".join(case_term(c, consts, flags) for _, c in failing) + "\n].\nEval vm_compute in explains cases.\n"
    (ok, out), = run_coq_files(PROP, [("explain.v", body)], timeout=600, clean=False)
    res = {}
    if not ok:
        return res
    rows = re.findall(r"\[((?:\s*\d+\s*;?)+)\]", out[out.index("="):])
    for (i, c), row in zip(failing, rows):
        bits = [int(x) for x in re.findall(r"\d+", row)]
        cls = next((FLAG_ORDER[k] for k, b in enumerate(bits) if b), None)
        if cls is None and c["cfg"]["ns"] in c["cfg"]["overrides"]:
            cls = "ownns"
        res[i] = cls
    return res


COQ_HEADER = ("From Coq Require Import String List.\nFrom JMCV Require Import Model.ResLoc Model.Defs Run.C08.\n"
              "Import ListNotations.\nOpen Scope string_scope.\n")


def case_term(case, consts, flags):
    cfg, res = case["cfg"], case["res"]
    d = (f'(mkD {coq_str(names_of(cfg)["PRIVATE"])} {coq_str(names_of(cfg)["LOAD"])} {coq_list(coq_str(o) for o in cfg["overrides"])} '
         f'{coq_bool(float(cfg["pack_format"]) < 48)} types legacy_types)')
    fx = f'(mkFx {coq_bool(flags["strict"])} {coq_bool(flags["nested"])} {coq_bool(flags["privjson"])} {coq_bool(flags["gendup"])})'
    skip = {mk for mk, (kind, _) in markers_of(case["prog"]).items() if kind == "loadtext"}     # load statements are no definitions
    found = coq_list(f"({mk}, {coq_str(p)})" for mk, p in case["found"] if mk not in skip)
    return (f'mkCase {d} {fx} {coq_str(cfg["ns"])} {coq_list(item_term(x, cfg["locfolder"]) for x in model_tree(case.get("mprog", case["prog"])))} '
            f'{coq_bool(res["ok"])} {coq_str(res.get("exc") or "")} {found}')


def oracle_failure(prog, cfg, r, found, types):
    """the direct oracle on one real result, for the tree `prog` as documented: None, or the first failure"""
    if r["ok"]:
        cnt = {}
        for mk, p in found:
            cnt[mk] = cnt.get(mk, 0) + 1
        lost = [mk for mk in markers_of(prog) if cnt.get(mk, 0) != 1]
        if lost:
            return dict(kind="definition-lost-or-duplicated", markers=[mark(m) for m in lost], counts={mark(m): cnt.get(m, 0) for m in lost})
        where = dict(found)
        wrong = {mark(mk): dict(expected=f, actual=where.get(mk)) for mk, f in expected_files(prog, cfg, types).items() if where.get(mk) != f}
        if wrong and cfg["ns"] not in cfg["overrides"]:
            return dict(kind="definition-misplaced", where=wrong)
    elif not r.get("jmc") and r["exc"] != "Timeout":
        return dict(kind="internal-error", exc=r["exc"], msg=r["msg"][:300], frame=r.get("frame"))
    else:
        # (misc triage 4c) "Function '<P>' was never defined" although the program defines P (or P is an unresolved `this.`): the call
        # site does not point at the definition
        m = re.search(r"Function '([^']*)' was never defined", r.get("msg") or "") if r["exc"] == "JMCValueError" else None
        if m:
            defined = {pth for _, pth, _ in documented_functions(prog)}
            if m.group(1).startswith("this/") or m.group(1) in defined or (has_lazy(prog) and m.group(1) in LazyView(prog).tpl):
                return dict(kind="call-site-unresolved", cited=m.group(1), msg=r["msg"][:300],
                            note="the compile is refused because a call names a path the program does define / an unresolved `this.`")
        return None
    cs = call_site_failures(prog, cfg, r)
    if cs:
        return dict(kind="call-site-misdirected", sites=cs[:3])
    rf = reference_failures(prog, cfg, r) + lazy_text_failures(prog, r)
    if rf:
        return dict(kind=rf[0]["kind"], failures=rf[:3])
    return None


NESTED_DECO = "C08-decorated-nested-function-loses-class-prefix"


def nested_deco_explains(c, types) -> bool:
    """matching rule of finding C08-decorated-nested-function-loses-class-prefix for a failing case (on a tree the probe shows to lack
    the repair): the program has a decorated function declared in a function body under >= 1 class, and either every oracle passes
    when exactly those functions are expected without the class prefix, or the compile is refused with `never defined` citing
    `this/...` or the documented path of such a function"""
    pinned, marked = pin_nested(c["prog"])
    if not marked:
        return False
    r, fail = c["res"], c["fail"]
    if not r["ok"]:
        return fail["kind"] == "call-site-unresolved" and (fail["cited"].startswith("this/") or fail["cited"] in marked)
    return oracle_failure(pinned, c["cfg"], r, c["found"], types) is None


def main(tier: str) -> int:
    ck = Check(PROP, tier)
    ck.cov["trusted_base"] = COMMON_TRUSTED + [
        "Model/Defs.v: hand-written port of parse_func_tokens / parse_func / parse_class(_content) / parse_new and add_(private_)json "
        "(checks, prefix threading, type normalisation, #override mapping); JSON_FILE_TYPES / LEGACY_JSON_FILE_TYPES are read from the repo "
        "on every run; tied to the repo by comparing verdict (exception class) and the file of every marker on generated definition sets",
        "which of the four repairs (fixes/C07-reject-empty-path-segment.patch, fixes/C08-duplicate-definitions.patch) the tree contains is "
        "detected by four witness programs; the model is run with the matching flags, a pinned (defective) behaviour is reported as a finding",
        "@lazy / @if functions: the model has no template store; the harness (LazyView) replaces every call of a lazy function by `IAt <prefix "
        "of the class the lazy function is WRITTEN in> <definitions its body declares>` and the tie checks verdict and placement of the result; "
        "expected call lines of an expansion (`this.` = the lazy function's class) and the number of expansions are plain-Python oracles",
        "@add/@private/@root at top level, in classes and (misc triage 4c) declared inside function bodies are placed like plain functions "
        "(checked: the model is given the undecorated item; documented = with the class prefix).  Whether the tree has "
        "fixes/C08-decorated-nested-function-loses-class-prefix.patch is probed; on a tree without it the model is given `IAt \"\" [item]` for a "
        "decorated function declared in a method (what that tree does) and the misplacement is reported as a finding (KNOWN-FINDING only while "
        "the proposals file lists it).  The zero-command bodies and call forms of round 2 are judged by plain-Python oracles (file exists, "
        "references resolve, @add call present, equal paths rejected) in addition to the model's placement; imports, non-ASCII names",
        "Model/DeclNames.v (misc triage 4a/4b): hand-written port of the duplicate test of declarations against DataPack.functions / lazy_func "
        "and of the resolution of a call (template expanded / `function` printed, build()'s never-defined check), on flat sequences of "
        "declarations and callers; tied by comparing verdict, cited declaration, function files and every call resolution on generated "
        "sequences (Run/C08.v dcase_code; names -> paths by Model/ResLoc.v convention).  The variant (repaired / pinned) is chosen by one probe "
        "program; ds_spec (plain Python) is the documented verdict.  Outside that model, plain oracle only (DS_HAND): declarations of the same "
        "path nested in each other's bodies, the `_` idiom (deleted from lazy_func by its first call; `@if` on `_` = instant call)",
        "Model/DeclUse.v (round 4): hand-written port of what a declaration / a USE does to DataPack.functions, lazy_func (with the template "
        "bodies, re-run at every use) and functions_called, incl. the instant-call rule (`func.split('/')[-1] == '_'` at both call sites, "
        "`pre_func.func_name == '_'` in If.modify), the one-command rule of `execute … run <template>()` and build()'s never-defined check; "
        "tied by comparing verdict, cited declaration, the commands of every function file and of the load function on generated nested "
        "programs (harness/c08_uses.py; Run/C08.v ucase_code); c08_uses.spec (plain Python) is the documented verdict (= the behaviour of HEAD "
        "370d5d7).  Outside: template parameters other than one keyword argument passed exactly, `@if(0)`, an instant call written directly "
        "in a class body (refused), templates that expand themselves (RecursionError in jmc; never generated)",
        "KNOWN-FINDING is printed only for a failing input that matches an entry of known_findings.json or of reports/misc-known-findings-4.json "
        "(proposed entries, deleted by the integrator when the fix is committed; ignored with VERIF_NO_PROPOSED=1)",
        "user definitions at compiler-generated names (every built-in probe of harness/c07.py x every file it makes the compiler write, two jmc.txt "
        "name sets) and Hardcode.repeat / repeatList-generated definitions are judged by plain-Python oracles only (refused, or marker once and the "
        "generated content kept); the machine-checked counterpart is C08_build_keeps_stored_functions / C08_tick_generated_and_user_coexist on "
        "Model/Alloc.v, which property C07's trace replay ties to the repo (not re-tied here)",
        "marker counting on the real output is the direct oracle (search); it is plain Python",
    ]
    ck.proof(extra_targets=["Run/C08.vo", "Run/C08Ext.vo"])
    gen_dir(PROP)
    consts = run_py(OPTRACE, {"mode": "lexer_consts"})
    # fixes/C08-reject-own-namespace-override.patch: `#override <own namespace>` is refused while the header is parsed (outside
    # Model/Defs.v).  A configuration the tree refuses outright (witness: one plain function) is run with that override renamed,
    # so its pack format / other overrides stay covered; a tree that accepts it keeps it (finding C08-own-namespace-override).
    own = [cfg for cfg in CONFIGS if cfg["ns"] in cfg["overrides"]]
    for cfg, r in zip(own, compile_batch([job_of([F("w", 1)], cfg) for cfg in own], chunk=10)):
        if not r["ok"] and r.get("exc") == "HeaderSyntaxException":
            cfg["overrides"] = [o + "_lib" if o == cfg["ns"] else o for o in cfg["overrides"]]
            ck.cov.setdefault("own_namespace_override_rejected", []).append(cfg["ns"])
    # the folder Predicate.locations writes to under each configuration (the json type its add_json call passes)
    pr = compile_batch([job_of([("genjson", "zz", 1)], cfg) for cfg in CONFIGS], chunk=10)
    for cfg, r in zip(CONFIGS, pr):
        m = next((re.match(r"VIRTUAL/data/[^/]+/(.*)/zz\.json$", k) for k in (r.get("files") or {}) if k.endswith("/zz.json")), None)
        cfg["locfolder"] = m.group(1) if m else "predicate"
    flags = detect_fixes()
    # (misc triage 4c) does the tree parse a decorated function declared in a method with the class prefix?
    pr4 = compile_batch([job_of([C("c", F("f", 1, [D("w", 2, "@root")]))], CONFIGS[0])], chunk=10)[0]
    deco_prefix = not (pr4["ok"] and any(k.endswith("/functions/w.mcfunction") or k.endswith("/function/w.mcfunction") for k in pr4["files"]))

    rng = ck.rng
    cases = []
    for name, prog in COLLIDING:
        for cfg in CONFIGS:
            if uses_with(prog) and float(cfg["pack_format"]) < 16:
                continue                      # `f() with {...}` needs macros (pack format >= 16)
            cases.append(dict(origin=f"table:{name}", prog=resolve(prog, cfg), cfg=cfg))
    sweep = list(consts["types"]) + [t[:-1] for t in consts["legacy"]] + ["tag/functions", "tag/blocks", "tags/functions", "tags/items", "nope"]
    for ti, t in enumerate(dict.fromkeys(sweep)):
        cfg = CONFIGS[ti % 2]
        cases.append(dict(origin=f"types:{t}", prog=[N(t.replace("/", "."), "x", 1), C("k", N(t.replace("/", "."), "y.z", 2))], cfg=cfg))
    tg = TreeGen(rng)
    n_rand = 260 if tier == "quick" else 3000
    for i in range(n_rand):
        cfg = CONFIGS[i % len(CONFIGS)]
        cases.append(dict(origin=f"random:{i}", cfg=cfg,
                          prog=add_calls(rng, resolve(tg.program(), cfg), internal_targets=(internal("__load__", cfg), internal("__tick__", cfg)))))
    # (round 2) trees with zero-command bodies, saved decorators, deep override names and every call form
    tg2 = TreeGen(rng, decorated=True)
    n_rand2 = 240 if tier == "quick" else 2400
    for i in range(n_rand2):
        cfg = CONFIGS[(i + 1) % len(CONFIGS)] if i % 3 else CONFIGS[-1]
        cases.append(dict(origin=f"random-decorated:{i}", cfg=cfg,
                          prog=add_calls(rng, resolve(tg2.program(), cfg), forms=True, with_ok=float(cfg["pack_format"]) >= 16,
                                         internal_targets=(internal("__load__", cfg), internal("__tick__", cfg)))))
    # (round 3) @lazy functions in classes x callers in other classes / nested classes / top level / load
    for name, prog in LAZY_SHAPES:
        for cfg in CONFIGS:
            if uses_with(prog) and float(cfg["pack_format"]) != -1 and float(cfg["pack_format"]) < 48:
                continue
            cases.append(dict(origin=f"table:{name}", prog=resolve(prog, cfg), cfg=cfg))
    lg = LazyGen(rng)
    n_lazy = 160 if tier == "quick" else 1600
    for i in range(n_lazy):
        cfg = CONFIGS[i % len(CONFIGS)]
        cases.append(dict(origin=f"random-lazy:{i}", cfg=cfg,
                          prog=resolve(lg.program(with_ok=float(cfg["pack_format"]) == -1 or float(cfg["pack_format"]) >= 48), cfg)))
    for c in cases:
        c["job"] = job_of(c["prog"], c["cfg"])
    results = compile_batch([c["job"] for c in cases], chunk=60)
    for c, r in zip(cases, results):
        c["res"] = r
        c["found"] = found_markers(c["prog"], r)
        # the tree handed to Model/Defs.v: on a tree without the 4c repair, decorated functions nested in methods as that tree parses them
        c["mprog"] = c["prog"] if deco_prefix else pin_nested(c["prog"])[0]

    pre = (COQ_HEADER + f"Definition types := {coq_list(coq_str(t) for t in consts['types'])}.\n"
           f"Definition legacy_types := {coq_list(coq_str(t) for t in consts['legacy'])}.\n")
    files = []
    per = 60
    for fi, start in enumerate(range(0, len(cases), per)):
        chunk = cases[start:start + per]
        body = pre + "Definition cases := [\n" + ";\n".join(case_term(c, consts, flags) for c in chunk) + "\n].\n"
        body += "Eval vm_compute in codes cases.\nEval vm_compute in losing cases.\n"
        files.append((f"cases_{fi}.v", body))
    outs = run_coq_files(PROP, files, timeout=900, clean=False)
    codes, model_loses = {}, set()
    for fi, (ok, out) in enumerate(outs):
        if not ok:
            ck.violation(dict(kind="correspondence-file-failed", file=files[fi][0], log=out[-3000:]), no_input=True)
            continue
        parts = out.split(": list nat")
        for j, cd in enumerate(parse_nat_list(parts[0])):
            codes[fi * per + j] = cd
        for j in parse_nat_list(parts[1]):
            model_loses.add(fi * per + j)

    # ---- the direct oracle: marker counting / internal errors on the real output
    reported = set()
    listed = known_entries()
    verdicts = {}
    failing = []
    n_calls = 0
    for i, c in enumerate(cases):
        r = c["res"]
        verdicts[r["exc"] if not r["ok"] else "ok"] = verdicts.get(r["exc"] if not r["ok"] else "ok", 0) + 1
        fail = oracle_failure(c["prog"], c["cfg"], r, c["found"], consts["types"])
        n_calls += len(expected_calls(c["prog"], c["cfg"])) if r["ok"] else 0
        if fail:
            c["fail"] = fail
            failing.append((i, c))
    n_fail = len(failing)
    n_known, known_nested = 0, set()
    classes = classify_all(failing, consts, flags, pre)
    for i, c in failing:
        fail = c["fail"]
        cls = classes.get(i) if codes.get(i) == 0 else None
        fid = FINDINGS[cls][0] if cls else None
        if fid is None and fail["kind"] == "call-site-misdirected" and PENDING_IF.search(c["job"]["src"]) and all(
                len(x["actual"]) < len(x["expected"]) for x in fail["sites"]):
            cls, fid = "pendingif", FINDINGS["pendingif"][0]
        if fid is None and not deco_prefix and nested_deco_explains(c, consts["types"]):
            fid = NESTED_DECO
            known_nested.add(i)
        if fid and fid in listed:
            ck.known(fid, listed[fid]["what"])
            n_known += 1
            continue
        key = fid or fail["kind"]
        if key in reported:
            continue
        reported.add(key)
        ck.violation(dict(kind=fail["kind"], failure=fail, program=c["job"]["src"], header=c["job"]["header"], namespace=c["cfg"]["ns"],
                          pack_format=c["cfg"]["pack_format"], names=c["cfg"].get("names"), origin=c["origin"], candidate_finding=fid,
                          finding_text=FINDINGS[cls][1] if cls else None,
                          model_agrees_with_real=codes.get(i) == 0, job=c["job"], prog=c["prog"],
                          expected="compilation fails with a diagnostic, or every definition's marker (file name for a zero-command body) occurs exactly once, "
                                   "in the file documented for its name; every call site (plain, this., schedule, execute run, with, @add-generated) prints "
                                   "the documented location and names an emitted file; equal documented paths are never both accepted",
                          actual=fail))
    # ---- correspondence
    mism = [i for i, cd in codes.items() if cd]
    shown = 0
    for i in mism:
        c = cases[i]
        if i in known_nested and not c["res"]["ok"]:
            continue          # (a failing input was reported above, as KNOWN-FINDING or VIOLATION: the compile is refused at a `this.` / a call the model does not have)
        if shown >= 3:
            break
        shown += 1
        ck.violation(dict(kind="correspondence-differs", what="Model/Defs.v and the real compiler disagree on verdict or placement",
                          code=codes[i], note="1 model error / real ok or other class; 2 model ok / real error; 3 placement differs",
                          program=c["job"]["src"], header=c["job"]["header"], namespace=c["cfg"]["ns"], pack_format=c["cfg"]["pack_format"],
                          real=dict(ok=c["res"]["ok"], exc=c["res"].get("exc"), msg=(c["res"].get("msg") or "")[:300], found=c["found"]),
                          origin=c["origin"], flags=flags), no_input=True)
    # the model loses a definition although every repair is present: the theorem would be false
    if all(flags.values()):
        for i in sorted(model_loses):
            c = cases[i]
            if c["cfg"]["ns"] in c["cfg"]["overrides"]:
                continue
            ck.violation(dict(kind="model-loses-definition", origin=c["origin"], program=c["job"]["src"]), no_input=True)
            break

    # ---- (round 3) user definitions at every compiler-generated name x every generator (plain-Python oracle)
    gcases, gcov = generated_name_cases(rng, tier, consts)
    gres = compile_batch([g["job"] for g in gcases], chunk=80)
    g_verdicts = {}
    for g, r in zip(gcases, gres):
        v = "ok" if r["ok"] else r["exc"]
        g_verdicts[v] = g_verdicts.get(v, 0) + 1
        gf = generated_name_failure(g, r)
        if gf:
            n_fail += 1
            key = ("genname", gf["kind"], g["origin"].split(":")[1])
            if key in reported or len([k for k in reported if isinstance(k, tuple) and k[0] == "genname"]) >= 4:
                continue
            reported.add(key)
            ck.violation(dict(kind=gf["kind"], failure=gf, program=g["job"]["src"], header=g["job"]["header"], namespace="TEST",
                              pack_format=g["job"]["pack_format"], origin=g["origin"], job=g["job"], gen_case=dict(marker=g["marker"], file=g["file"], keep=g["keep"], resource_kind=g["resource_kind"]),
                              expected="a user definition at a name the compiler generates itself is refused with a diagnostic, or its body is in the output exactly "
                                       "once and everything the generator wrote to that file is still there (never silently replaced)",
                              actual=gf))
    gcov["verdicts"] = g_verdicts
    # ---- (round 3) definitions generated by Hardcode.repeat / repeatList
    hcases = hardcode_cases(rng, tier)
    hres = compile_batch([h["job"] for h in hcases], chunk=80)
    h_verdicts = {}
    for h, r in zip(hcases, hres):
        v = ("ok" if r["ok"] else r["exc"]) + ("/colliding" if h["collide"] else "")
        h_verdicts[v] = h_verdicts.get(v, 0) + 1
        hf = hardcode_failure(h, r)
        if hf:
            n_fail += 1
            key = ("hardcode", hf["kind"])
            if key in reported:
                continue
            reported.add(key)
            ck.violation(dict(kind=hf["kind"], failure=hf, program=h["job"]["src"], header=None, namespace="TEST", pack_format=48, origin=h["origin"],
                              job=h["job"], hardcode_case=dict(expect=h["expect"], collide=h["collide"]),
                              expected="every definition generated by Hardcode.repeat / repeatList is in the output exactly once, at the file documented for its "
                                       "generated name (class prefix of the enclosing member); a copy on the path of another definition is refused",
                              actual=hf))

    # ---- (misc triage 4a/4b) declaration sequences against Model/DeclNames.v + the plain oracle ds_spec
    dcases = decl_sequence_cases(rng, tier)
    probe = compile_batch([ds_job([("decl", "template", "@lazy ", [], "w"), ("decl", "plain", "", [], "w")])], chunk=10)[0]
    lazy_fixed = (not probe["ok"]) and "Duplicate function declaration" in (probe.get("msg") or "")
    dres = compile_batch([d["job"] for d in dcases], chunk=120)
    d_verdicts, d_known, d_fail = {}, 0, 0
    for d, r in zip(dcases, dres):
        d["real"] = ds_real(d["seq"], r)
        d["spec"] = ds_spec(d["seq"], True)
        v = d["real"][0] + ("/spec-" + d["spec"][0] if d["real"][0] != d["spec"][0] else "")
        d_verdicts[v] = d_verdicts.get(v, 0) + 1
    dfiles = []
    per_d = 250
    for fi, start in enumerate(range(0, len(dcases), per_d)):
        body = (DS_HEADER + "Definition cases := [\n" + ";\n".join(ds_coq_term(d, lazy_fixed, flags["strict"]) for d in dcases[start:start + per_d])
                + "\n].\nEval vm_compute in dcodes cases.\n")
        dfiles.append((f"declseq_{fi}.v", body))
    dcodes = {}
    for fi, (ok, out) in enumerate(run_coq_files(PROP, dfiles, timeout=900, clean=False)):
        if not ok:
            ck.violation(dict(kind="correspondence-file-failed", file=dfiles[fi][0], log=out[-3000:]), no_input=True)
            continue
        for j, cd in enumerate(parse_nat_list(out)):
            dcodes[fi * per_d + j] = cd
    lazy_entry = listed.get("C08-lazy-duplicate-declaration")
    for di, (d, r) in enumerate(zip(dcases, dres)):
        real, spec = d["real"], d["spec"]
        same = real == spec or (real[0] == "ok" and spec[0] == "ok" and len(real) == 3 and real[1] == spec[1] and real[2] == sorted(spec[2]))
        if not same:
            d_fail += 1
            if not lazy_fixed and lazy_entry and ds_known_rule(d["seq"], real) and dcodes.get(di) == 0:
                d_known += 1
                ck.known(lazy_entry["id"], lazy_entry["what"])
            else:
                kind = ("internal-error" if real[0] == "other" and not real[3] else
                        "equal-paths-both-accepted" if spec[0] == "dup" and real[0] != "dup" else
                        "wrong-declaration-cited" if spec[0] == "dup" else
                        "distinct-definitions-refused" if real[0] != "ok" and spec[0] == "ok" else
                        "definition-misplaced-or-call-site-misdirected")
                key = ("declseq", kind)
                if key not in reported:
                    reported.add(key)
                    ck.violation(dict(kind=kind, program=d["job"]["src"], header=None, namespace="TEST", pack_format=48, origin=d["origin"],
                                      job=d["job"], seq=d["seq"], candidate_finding="C08-lazy-duplicate-declaration" if ds_known_rule(d["seq"], real) else None,
                                      expected=dict(text="two declarations with the same documented path are never both accepted, whatever their kinds (function, "
                                                         "@add/@private/@root function, @lazy/@if template); the diagnostic cites the first declaration whose path was "
                                                         "declared before; every function file holds exactly its declaration; a call resolves to THE declaration of its path",
                                                    verdict=spec),
                                      actual=real))
        if dcodes.get(di, 0) and ("declseq-corr",) not in reported and (same or lazy_fixed):
            # (a failing input was reported above when real != spec; on a pinned tree the model must still predict the real behaviour)
            reported.add(("declseq-corr",))
            ck.violation(dict(kind="correspondence-differs", what="Model/DeclNames.v (via Run/C08.v dcase_code) and the real compiler disagree",
                              code=dcodes[di], note="1 verdict; 2 cited declaration / path; 3 function files vs `functions`; 4 call resolution; 5 name conversion",
                              program=d["job"]["src"], origin=d["origin"], real=real, model_variant="repaired" if lazy_fixed else "pinned"), no_input=True)
        elif dcodes.get(di, 0) and not same and not lazy_fixed and ("declseq-corr-pinned",) not in reported:
            reported.add(("declseq-corr-pinned",))
            ck.violation(dict(kind="correspondence-differs", what="the pinned variant of Model/DeclNames.v does not predict the real behaviour of this failing input",
                              code=dcodes[di], program=d["job"]["src"], origin=d["origin"], real=real, job=d["job"], seq=d["seq"],
                              expected=dict(verdict=spec), actual=real))
    # hand cases the flat model does not have (nested declarations of the same path, the `_` idiom): plain oracle
    hjobs = [dict(src=src, cert=CERT, pack_format=48, namespace="TEST") for _, src, _, _ in DS_HAND]
    for (hname, src, expect, needs_repair), job, r in zip(DS_HAND, hjobs, compile_batch(hjobs, chunk=40)):
        hf = ds_hand_failure(expect, r)
        if not hf:
            continue
        d_fail += 1
        # (a duplicate only the 4a/4b repair refuses; "both": the template is declared in a METHOD, so the 4c repair is needed as well)
        missing = [e for e in ((lazy_entry if needs_repair and not lazy_fixed else None), (listed.get(NESTED_DECO) if needs_repair == "both" and not deco_prefix else None)) if e]
        if missing and hf["kind"] == "equal-paths-both-accepted":
            d_known += 1
            ck.known(missing[0]["id"], missing[0]["what"])
            continue
        key = ("declhand", hf["kind"])
        if key not in reported:
            reported.add(key)
            ck.violation(dict(kind=hf["kind"], program=src, header=None, namespace="TEST", pack_format=48, origin="declhand:" + hname, job=job,
                              hand_case=dict(expect=expect), candidate_finding="C08-lazy-duplicate-declaration" if needs_repair else None,
                              expected=hf["expected"], actual=hf["actual"]))
    n_fail += d_fail - d_known
    decl_cov = dict(cases=len(dcases), hand_cases=len(DS_HAND), model_variant="repaired" if lazy_fixed else "pinned (fixes/C08-lazy-duplicate-declaration.patch not in the tree)",
                    verdicts=d_verdicts, failing=d_fail, known=d_known, disagreements=sum(1 for v in dcodes.values() if v),
                    with_duplicate_path=sum(1 for d in dcases if d["spec"][0] == "dup"),
                    duplicate_involving_template=sum(1 for d in dcases if d["spec"][0] == "dup" and ds_spec(d["seq"], False) != d["spec"]),
                    callers=sum(1 for d in dcases for e in d["seq"] if e[0] == "call"),
                    expansions_checked=sum(1 for d in dcases if d["real"][0] == "ok" for c in d["real"][2] if c[1] == "expand"))

    # ---- (round 4) declarations and USES in one compile against Model/DeclUse.v + the plain oracle c08_uses.spec
    ucases = c08_uses.cases(rng, tier)
    ures = compile_batch([u["job"] for u in ucases], chunk=120)
    u_verdicts, u_fail = {}, 0
    for u, r in zip(ucases, ures):
        u["real"] = c08_uses.real(u["evs"], r)
        u["spec"] = c08_uses.spec(u["evs"])
        u["same"] = c08_uses.same(u["real"], u["spec"])
        v = u["real"][0] + ("" if u["same"] else "/spec-" + u["spec"][0])
        u_verdicts[v] = u_verdicts.get(v, 0) + 1
    ufiles = []
    per_u = 200
    for fi, start in enumerate(range(0, len(ucases), per_u)):
        body = (c08_uses.HEADER + "Definition cases := [\n" + ";\n".join(c08_uses.case_term(u, flags["strict"]) for u in ucases[start:start + per_u])
                + "\n].\nEval vm_compute in ucodes cases.\n")
        ufiles.append((f"uses_{fi}.v", body))
    ucodes = {}
    for fi, (ok, out) in enumerate(run_coq_files(PROP, ufiles, timeout=900, clean=False)):
        if not ok:
            ck.violation(dict(kind="correspondence-file-failed", file=ufiles[fi][0], log=out[-3000:]), no_input=True)
            continue
        for j, cd in enumerate(parse_nat_list(out)):
            ucodes[fi * per_u + j] = cd
    for ui, u in enumerate(ucases):
        if not u["same"]:
            u_fail += 1
            kind = c08_uses.classify(u["spec"], u["real"])
            key = ("uses", kind)
            if key not in reported and len([k for k in reported if isinstance(k, tuple) and k[0] == "uses"]) < 4:
                reported.add(key)
                ck.violation(dict(kind=kind, program=u["job"]["src"], header=None, namespace="TEST", pack_format=48, origin=u["origin"],
                                  job=u["job"], uses_evs=u["evs"], model_agrees_with_real=ucodes.get(ui) == 0,
                                  expected=dict(text=c08_uses.EXPECTED_TEXT, verdict=u["spec"]), actual=u["real"]))
        elif ucodes.get(ui, 0) and ("uses-corr",) not in reported:
            reported.add(("uses-corr",))
            ck.violation(dict(kind="correspondence-differs", what="Model/DeclUse.v (via Run/C08.v ucase_code) and the real compiler disagree",
                              code=ucodes[ui], note="1 verdict; 2 cited declaration / path; 3 a function file vs `functions`; 4 the load function; 5 name conversion",
                              program=u["job"]["src"], origin=u["origin"], real=u["real"]), no_input=True)
    n_fail += u_fail

    # ---- (round 5) `new .. extends ..`: every emitted JSON file (bases and children) against Model/JsonExtends.v + c08_extends.spec
    ecases = c08_extends.cases(rng, tier)
    eres = compile_batch([e["job"] for e in ecases], chunk=120)
    for e, r in zip(ecases, eres):
        e["real"] = c08_extends.real(r)
        e["spec"] = c08_extends.spec(e["decls"])
        e["same"] = c08_extends.same(e["real"], e["spec"])
    efiles = []
    per_e = 200
    for fi, start in enumerate(range(0, len(ecases), per_e)):
        efiles.append((f"extends_{fi}.v", c08_extends.HEADER + "Definition cases := [\n" + ";\n".join(c08_extends.case_term(e) for e in ecases[start:start + per_e])
                       + "\n].\nEval vm_compute in ecodes cases.\n"))
    ecodes = {}
    for fi, (ok, out) in enumerate(run_coq_files(PROP, efiles, timeout=900, clean=False)):
        if not ok:
            ck.violation(dict(kind="correspondence-file-failed", file=efiles[fi][0], log=out[-3000:]), no_input=True)
            continue
        for j, cd in enumerate(parse_nat_list(out)):
            ecodes[fi * per_e + j] = cd
    e_fail = 0
    for ei, e in enumerate(ecases):
        if not e["same"]:
            e_fail += 1
            kind = c08_extends.classify(e["decls"], e["spec"], e["real"])
            key = ("extends", kind)
            if key not in reported and len([k for k in reported if isinstance(k, tuple) and k[0] == "extends"]) < 3:
                reported.add(key)
                ck.violation(dict(kind=kind, program=e["job"]["src"], header=None, namespace="TEST", pack_format=48, origin=e["origin"],
                                  job=e["job"], ext_decls=e["decls"], model_agrees_with_real=ecodes.get(ei) == 0,
                                  expected=dict(text=c08_extends.EXPECTED_TEXT, verdict=e["spec"]), actual=e["real"]))
        elif ecodes.get(ei, 0) and ("extends-corr",) not in reported:
            reported.add(("extends-corr",))
            ck.violation(dict(kind="correspondence-differs", what="Model/JsonExtends.v (via Run/C08Ext.v ecase_code) and the real compiler disagree",
                              code=ecodes[ei], note="1 verdict; 2 a JSON file's content; 3 number of JSON files",
                              program=e["job"]["src"], origin=e["origin"], real=e["real"]), no_input=True)
    n_fail += e_fail
    ck.cov["extends"] = dict(c08_extends.coverage(ecases), disagreements=e_fail, model_cases=len(ecodes))

    # ---- a list body written without `;` swallows the next statement: refused, or every definition keeps its own body (jmc d89f0a8)
    ncases = c08_extends.nosemi_cases(rng)
    n_bad = 0
    for e, r in zip(ncases, compile_batch([e["job"] for e in ncases], chunk=120)):
        why = c08_extends.nosemi_failure(r, e["decls"])
        if why:
            n_bad += 1
            if ("nosemi",) not in reported:
                reported.add(("nosemi",))
                ck.violation(dict(kind="definition-lost-or-body-swapped", program=e["job"]["src"], header=None, namespace="TEST", pack_format=48,
                                  origin=e["origin"], job=e["job"], nosemi_decls=e["decls"], what=why,
                                  expected="a JMC diagnostic (the JSON body is not the end of its statement) or every definition emitted with its own body"))
    n_fail += n_bad
    ck.cov["json_body_without_semicolon"] = dict(programs=len(ncases), failures=n_bad)

    def _count(evs, pred):
        return sum((1 if pred(e) else 0) + (_count(e[6], pred) if e[0] == "decl" else 0) for e in evs)

    def _use_counts(u):
        """{path: number of use sites written} of one program"""
        acc = {}

        def go(l):
            for e in l:
                if e[0] == "decl":
                    go(e[6])
                else:
                    acc[c08_uses.call_path(e)] = acc.get(c08_uses.call_path(e), 0) + 1
        go(u["evs"])
        return acc
    uses_cov = dict(cases=len(ucases), families={f: sum(1 for u in ucases if u["origin"].split(":")[1] == f) for f in ("hand", "body", "top", "via", "self", "load", "random")},
                    verdicts=u_verdicts, failing=u_fail, disagreements=sum(1 for v in ucodes.values() if v),
                    declarations=sum(_count(u["evs"], lambda e: e[0] == "decl") for u in ucases),
                    use_sites=sum(_count(u["evs"], lambda e: e[0] == "call") for u in ucases),
                    use_sites_with_arguments=sum(_count(u["evs"], lambda e: e[0] == "call" and e[1] in ("args", "execargs")) for u in ucases),
                    use_sites_in_execute=sum(_count(u["evs"], lambda e: e[0] == "call" and e[1] in ("exec", "execargs")) for u in ucases),
                    templates=sum(_count(u["evs"], lambda e: e[0] == "decl" and e[2] == "template") for u in ucases),
                    instant_calls=sum(_count(u["evs"], lambda e: e[0] == "decl" and c08_uses.kind_of(e) == "instant") for u in ucases),
                    accepted_with_path_used_twice=sum(1 for u in ucases if u["real"][0] == "ok" and any(n >= 2 for n in _use_counts(u).values())),
                    accepted_with_underscore_suffix_used_twice=sum(1 for u in ucases if u["real"][0] == "ok" and any(
                        n >= 2 and p.endswith("_") and not c08_uses.is_instant_path(p) for p, n in _use_counts(u).items())),
                    refused_redeclaration_after_use=sum(1 for u in ucases if u["real"][0] == "dup" and _use_counts(u).get(u["real"][2], 0) >= 1),
                    instant_path_programs=sum(1 for u in ucases if any(c08_uses.is_instant_path(c08_uses.decl_path(d)) for d in c08_uses.all_decls(u["evs"]).values())))

    nested_cov = dict(under_class=0, top_level=0, add=0, private=0, root=0, zero_command=0, programs=0, accepted_programs=0, lazy_in_method=0)

    def count_nested(items, classes, in_func, acc):
        for it in items:
            if it[0] == "func":
                o = func_opts(it)
                if in_func and o.get("deco"):
                    acc.append(1)
                    nested_cov["under_class" if classes else "top_level"] += 1
                    nested_cov["add" if o["deco"].startswith("@add") else o["deco"][1:]] += 1
                    nested_cov["zero_command"] += o.get("body", "marker") != "marker"
                count_nested(it[3], classes, True, acc)
            elif it[0] == "class":
                count_nested(it[2], classes + [it[1]], in_func, acc)
            elif it[0] == "lazy" and in_func and classes:
                acc.append(1)
                nested_cov["lazy_in_method"] += 1
    for c in cases:
        acc = []
        count_nested(c["prog"], [], False, acc)
        nested_cov["programs"] += bool(acc)
        nested_cov["accepted_programs"] += bool(acc) and c["res"]["ok"]

    def size(items):
        return sum(1 + (size(it[3]) if it[0] in ("func", "lazy") else size(it[2]) if it[0] == "class" else 0) for it in items)
    ck.cov.update(dict(
        evaluations=len(cases), distinct_nontrivial=len({json.dumps([c["prog"], c["cfg"]], sort_keys=True) for c in cases
                                                         if size(c["prog"]) >= 2}),
        rule="a case = one definition tree x configuration (namespace, pack format, #override set); non-trivial = at least two definitions",
        programs=len(cases), table_cases=sum(1 for c in cases if c["origin"].startswith("table:")), random_cases=n_rand,
        random_decorated_cases=n_rand2, type_sweep_cases=len(set(sweep)), random_lazy_cases=n_lazy,
        lazy=lazy_coverage(cases), generated_names=gcov, declaration_sequences=decl_cov, declarations_and_uses=uses_cov, hardcode_generated=dict(cases=len(hcases), verdicts=h_verdicts),
        zero_command_definitions=sum(1 for c in cases for _, _, o in documented_functions(c["prog"]) if o.get("body", "marker") != "marker"),
        decorated_definitions=sum(1 for c in cases for _, _, o in documented_functions(c["prog"]) if o.get("deco")),
        call_forms={f: sum(1 for c in cases if f'"{f}"' in json.dumps(c["prog"])) for f in ("sched", "exec", "with")},
        real_verdicts=verdicts, disagreements_checked=len(mism), failing_inputs=n_fail - n_known, known_finding_inputs=n_known + d_known,
        model_loses=len(model_loses), nested_decorated=nested_cov,
        tree_variant=dict(decorated_nested_prefix="repaired" if deco_prefix else "pinned (fixes/C08-decorated-nested-function-loses-class-prefix.patch not in the tree)"),
        repairs_detected=flags, functions_with_checked_call_sites=n_calls,
        samples=[dict(origin=c["origin"], program=c["job"]["src"][:300], verdict=c["res"].get("exc") or "ok") for c in cases[200:203]],
        correspondence="exception class, and for accepted programs the exact (marker, file) multiset, model == real",
    ))
    return ck.finish()


def replay(path: str) -> int:
    rep = json.loads(Path(path).read_text())
    job = rep.get("job")
    if not job:
        print(json.dumps(rep, indent=1)[:3000])
        return 1
    r = compile_batch([job])[0]
    print("program:\n" + job["src"])
    print("expected:", rep.get("expected"))
    if rep.get("nosemi_decls"):
        why = c08_extends.nosemi_failure(r, rep["nosemi_decls"])
        print("actual:", json.dumps(r.get("files") if r["ok"] else dict(exc=r.get("exc"), msg=(r.get("msg") or "")[:300]))[:1500])
        print("FAILS: " + why if why else "holds (refused with a JMC diagnostic, or every definition has its own body)")
        return 1 if why else 0
    if rep.get("ext_decls"):
        rl, sp = c08_extends.real(r), c08_extends.spec(rep["ext_decls"])
        print("documented verdict:", json.dumps(sp)[:1500])
        print("actual:", json.dumps(rl)[:1500])
        if rl[0] == sp[0] == "ok":
            for pth, v in sp[1].items():
                if c08_extends.canon(rl[1].get(pth)) != c08_extends.canon(v):
                    print("differs:", pth, "expected", json.dumps(v), "emitted", json.dumps(rl[1].get(pth)))
        return 0 if c08_extends.same(rl, sp) else 1
    if rep.get("uses_evs"):
        rl, sp = c08_uses.real(rep["uses_evs"], r), c08_uses.spec(rep["uses_evs"])
        print("documented verdict:", json.dumps(sp)[:1500])
        print("actual:", json.dumps(rl)[:1500])
        return 0 if c08_uses.same(rl, sp) else 1
    if rep.get("seq"):
        seq = [tuple(e) for e in rep["seq"]]
        real, spec = ds_real(seq, r), ds_spec(seq, True)
        real = json.loads(json.dumps(real))
        spec_j = json.loads(json.dumps(spec))
        same = real == spec_j or (real[0] == "ok" and spec[0] == "ok" and len(real) == 3 and real[1] == spec_j[1] and real[2] == sorted(spec_j[2]))
        print("documented verdict:", json.dumps(spec))
        print("actual:", json.dumps(real)[:1500])
        return 0 if same else 1
    if rep.get("hand_case"):
        e = rep["hand_case"]["expect"]
        f = ds_hand_failure((e[0], e[1]), r)
        print("actual:", json.dumps(f, indent=1) if f else "as expected")
        return 1 if f else 0
    if rep.get("gen_case") or rep.get("hardcode_case"):
        f = (generated_name_failure(dict(rep["gen_case"]), r) if rep.get("gen_case")
             else hardcode_failure(dict(rep["hardcode_case"]), r))
        print("actual:", json.dumps(f, indent=1) if f else ("refused with " + r["exc"] if not r["ok"] else "no failure"))
        return 1 if f else 0
    prog = rep.get("prog")
    if not prog:
        if not r["ok"]:
            print("actual: compile fails with", r["exc"], "(diagnostic)" if r.get("jmc") else "(INTERNAL ERROR)")
            return 0 if r.get("jmc") else 1
        print("actual: compiled; no definition tree in the replay file")
        return 1
    tp = _tuplify(prog)
    cfg = dict(ns=rep.get("namespace", "TEST"), pack_format=rep.get("pack_format", -1), names=rep.get("names"),
               overrides=re.findall(r"#override[ \t]+(\S+)", rep.get("header") or ""))
    types = run_py(OPTRACE, {"mode": "lexer_consts"})["types"]
    if not r["ok"]:
        print("actual: compile fails with", r["exc"], "(diagnostic)" if r.get("jmc") else "(INTERNAL ERROR)", "\n" + (r.get("msg") or "")[:400])
    else:
        cnt = {}
        for mk, pth in found_markers(tp, r):
            cnt.setdefault(mk, []).append(pth)
        print("actual: marker -> files:", {mark(int(k)): v for k, v in cnt.items()})
    f = oracle_failure(tp, cfg, r, found_markers(tp, r), types)
    print("actual: oracle:", json.dumps(f, indent=1) if f else "every definition once at its documented file, every call site / reference resolves to it"
          if r["ok"] else "refused with a diagnostic")
    return 1 if f else 0


def _tuplify(items):
    out = []
    for it in items:
        it = list(it)
        if it[0] in ("func", "lazy"):
            it[3] = _tuplify(it[3])
            if len(it) > 4:
                it[4] = [c if isinstance(c, str) else tuple(c) for c in it[4]]
        elif it[0] == "load":
            it[2] = [c if isinstance(c, str) else tuple(c) for c in it[2]]
        elif it[0] == "class":
            it[2] = _tuplify(it[2])
        out.append(tuple(it))
    return out
