"""C20, narrow addition (strengthening round 4): `$x = Math.sqrt($n);` / `$x = Math.random(lo, hi);` in a position that
takes ONE command — `execute if/unless score … run S;`, `return run S;`, `execute … run return run S;`, `$o = S;`
(chained assignment), a braces-less `if (…) S` — compiled by the real compiler and run (c02_ctx.RVM) against the
reference semantics "the whole statement runs iff the tests of its prefix hold on the state before it; otherwise no user
variable changes; `return run` leaves the function with the statement's value; every target of a chain receives it".
No model of its own: the placement is modelled and proved for C02 (Model/ExprCtx.v, Props/C02.v C02_context_*)."""
from __future__ import annotations

import math
import re

from lib import compile_batch, functions_of
import c02_ctx as X

KINDS = ["E", "R", "C", "U", "ER", "EC", "RC", "E2", "C2", "ERC", "AS", "IFB"]
COND = {"$g >= 1": lambda e: e["$g"] >= 1, "$g < 0": lambda e: e["$g"] < 0, "$g == $h": lambda e: e["$g"] == e["$h"]}
N_VALUES = [0, 1, 2, 3, 4, 15, 16, 17, 24, 25, 26, 99, 100, 1225 * 1225, 1225 * 1225 + 1, 46340 * 46340 - 1, 46340 * 46340,
            2147483647, 2147395600]
SEEDS = [0, 1, -1, 7, 12345, -12345, 2147483647, -2147483648, 99991]


def gen_programs(rng, tier, certs):
    n = 220 if tier == "quick" else 1500
    progs = []
    for k in range(n):
        ci = k % len(certs)
        kind = KINDS[k % len(KINDS)] if rng.random() < 0.85 else rng.choice(KINDS)
        target = rng.choice(["$x", "$x", "$x", "obj:@s"])
        if rng.random() < 0.5:
            arg = rng.choice(["$n", "$n", "obj:@s", target])
            call = dict(fn="sqrt", arg=arg, text=f"Math.sqrt({arg})")
        else:
            lo = rng.choice([("lit", 1), ("lit", 5), ("lit", -3), ("lit", 0), ("var", "$lo"), ("var", "$lo")])
            hi = rng.choice([("lit", 10), ("lit", 5), ("lit", 100), ("var", "$hi"), ("var", "$hi"), ("lit", 2147483646)])
            if hi[1] == 2147483646 and lo not in (("lit", 1), ("lit", 5)):
                hi = ("lit", 100)              # the property quantifies over max - min + 1 <= 2^31 - 1
            if lo[0] == "lit" and hi[0] == "lit" and hi[1] < lo[1]:
                lo, hi = ("lit", 1), ("lit", 10)
            call = dict(fn="random", lo=lo, hi=hi, text=f"Math.random({lo[1]}, {hi[1]})")
        stmt = f"{target} = {call['text']}"
        if kind == "IFB":
            ctx = dict(kind=kind, guard=[], ret=False, chain=[], prefix="", cond=rng.choice(sorted(COND)))
            src = f"if ({ctx['cond']}) {stmt};"
        else:
            ctx = X.gen_ctx(rng, kind, "$g", set())
            ctx["chain"] = ["$o", "$p"][:len(ctx["chain"])]
            src = X.place_src(ctx, stmt, certs[ci]["VAR"], lambda s: s)
        progs.append(dict(ci=ci, ctx=ctx, target=target, call=call, stmt=stmt + ";",
                          src="function f() { " + src + " $after = 7; }\nfunction main() { $r = f(); }"))
    return progs


def probe(ck, certs, namespaces, score_of, tier):
    rng = ck.rng
    progs = gen_programs(rng, tier, certs)
    results = compile_batch([dict(src=p["src"], cert="\n".join(f"{k}={v}" for k, v in certs[p["ci"]].items()),
                                  namespace=namespaces[p["ci"]]) for p in progs])
    seen, kinds, n_runs = set(), {}, 0
    for p, r in zip(progs, results):
        cert, ns, ctx, call, t = certs[p["ci"]], namespaces[p["ci"]], p["ctx"], p["call"], p["target"]
        kinds[f"{call['fn']}|{ctx['kind']}"] = kinds.get(f"{call['fn']}|{ctx['kind']}", 0) + 1
        if not r["ok"]:
            key = (ctx["kind"], "compile")
            if key not in seen:
                seen.add(key)
                ck.violation(dict(kind="context-rejected" if r["jmc"] else "context-internal-error", mode="context", source=p["src"],
                                  jmc_txt=cert, namespace=ns, statement=p["stmt"], exception=dict(cls=r["exc"], msg=r["msg"][:300])))
            continue
        fns = functions_of(r["files"], ns)
        for _ in range(5):
            env = {"$g": rng.choice([0, 1, -1, 2, 3, 5]), "$h": rng.choice([0, 1, -1, 2, 3, 5]), "$o": 11, "$p": 12, "$r": 13,
                   "$after": 14, "$bystander": 12345, "$x": rng.choice([0, 5, 9, 77]), "obj:@s": rng.choice([0, 4, 81, 1000]),
                   "$n": rng.choice(N_VALUES), "$lo": rng.choice([-20, -5, 0, 3, 5]), "$hi": rng.choice([10, 11, 17, 40])}
            seed = rng.choice(SEEDS)
            holds = COND[ctx["cond"]](env) if ctx["kind"] == "IFB" else X.guard_holds(ctx["guard"], env)
            vm = X.RVM({f"{ns}:{k}": v for k, v in fns.items()}, ns=ns, max_steps=40000, max_depth=300)
            try:
                vm.call(f"{ns}:{cert['LOAD']}")
            except (X.Invalid, X.OutOfFuel):
                pass
            vm.s[("__math__.seed", cert["VAR"])] = seed
            for name, val in env.items():
                vm.s[score_of(name, cert)] = val
            n_runs += 1
            fail = None
            try:
                vm.call(f"{ns}:main")
            except X.Invalid as e:
                fail = dict(kind="invalid-command", detail=str(e))
            except (X.OutOfFuel, RecursionError):
                fail = dict(kind="no-termination")
            if fail is None:
                got = {name: vm.s.get(score_of(name, cert)) for name in env}
                exp = dict(env)
                ran = holds
                if ran:
                    if call["fn"] == "sqrt":
                        exp[t] = math.isqrt(env[call["arg"]])
                        new_ok = got[t] == exp[t]
                        want = exp[t]
                    else:
                        lo = call["lo"][1] if call["lo"][0] == "lit" else env[call["lo"][1]]
                        hi = call["hi"][1] if call["hi"][0] == "lit" else env[call["hi"][1]]
                        new_ok = got[t] is not None and lo <= got[t] <= hi
                        want = f"a value in [{lo}, {hi}]"
                        exp[t] = got[t]
                    if not new_ok:
                        fail = dict(kind="wrong-value-in-context", variable=t, expected=want, actual=got[t])
                    for o in ctx["chain"]:
                        exp[o] = exp[t]
                    if ctx["ret"]:
                        exp["$r"] = exp[t]
                if not (ran and ctx["ret"]):
                    exp["$after"] = 7
                if fail is None:
                    for name in env:
                        if got[name] != exp[name]:
                            fail = dict(kind="wrong-value-in-context", variable=name, expected=exp[name], actual=got[name])
                            break
            if fail:
                key = (ctx["kind"], call["fn"], fail["kind"])
                if key not in seen and len(seen) < 6:
                    seen.add(key)
                    fail.update(init=env, seed=seed, tests_hold=holds)
                    ck.violation(dict(kind=fail["kind"], mode="context", source=p["src"], jmc_txt=cert, namespace=ns, statement=p["stmt"],
                                      context=ctx["kind"],
                                      emitted={k: v for k, v in fns.items() if k in ("f", "main") or "/anonymous/" in k or "/if_else/" in k
                                               or re.search(r"/math_(sqrt|random)/\d+$", k)},
                                      failure=fail,
                                      expected="the whole statement runs iff the tests of its prefix hold on the state before it (target = floor(sqrt(n)) / "
                                               "a value within the bounds), nothing happens otherwise; `return run` leaves f with the value; "
                                               "every target of a chained assignment receives it"))
                break
    return dict(context_programs=len(progs), context_runs=n_runs, context_kinds=kinds)


def replay(r, score_of) -> int:
    cert, ns = r["jmc_txt"], r.get("namespace", "TEST")
    res = compile_batch([dict(src=r["source"], cert="\n".join(f"{k}={v}" for k, v in cert.items()), namespace=ns)])[0]
    print("program :", r["source"])
    if not res["ok"]:
        print("compile failed:", res["exc"], res["msg"][:300])
        return 1
    fns = functions_of(res["files"], ns)
    for k in sorted(fns):
        if k in ("f", "main") or "/anonymous/" in k or "/if_else/" in k or re.search(r"/math_(sqrt|random)/\d+$", k):
            print(f"-- {k}\n{fns[k]}")
    f = r.get("failure") or {}
    if "init" not in f or "variable" not in f:
        print("failure :", f)
        return 1
    vm = X.RVM({f"{ns}:{k}": v for k, v in fns.items()}, ns=ns, max_steps=40000, max_depth=300)
    try:
        vm.call(f"{ns}:{cert['LOAD']}")
    except (X.Invalid, X.OutOfFuel):
        pass
    vm.s[("__math__.seed", cert["VAR"])] = f.get("seed", 0)
    for name, val in f["init"].items():
        vm.s[score_of(name, cert)] = val
    try:
        vm.call(f"{ns}:main")
        got = vm.s.get(score_of(f["variable"], cert))
    except X.Invalid as e:
        got = f"invalid command: {e}"
    print("initial :", f["init"], "seed", f.get("seed"), "tests hold:", f.get("tests_hold"))
    print(f"expected {f['variable']}:", f.get("expected"), " actual:", got)
    if isinstance(f.get("expected"), int):
        return 0 if got == f["expected"] else 1
    m = re.match(r"a value in \[(-?\d+), (-?\d+)\]", str(f.get("expected")))
    return 0 if (m and isinstance(got, int) and int(m.group(1)) <= got <= int(m.group(2))) else 1
