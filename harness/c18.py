"""C18 — generated resources use the folder names of the chosen pack format.

Proof step (Props/C18.vo) + regenerated tables (translate_sites.py -> coq/Gen/C18/JsonSites.v, obligations
re-checked by coqc) + probes: one program per call site / lookup / feature x every pack format of JMC's
table (and -1, and some formats outside the table) x jmc.txt name sets, real paths / references / diagnostics
compared with the model inside Coq.
Strengthening round 3: every version-gated built-in (list regenerated from the gates + @func_property decorators) x every combination
of its boolean / gate-relevant arguments x every format (BUILTIN_PROBE, builtin_matrix, Coq `mcase`); the translator records under which
conditions each gate is reached (fail closed); every compiled output is scanned for format-dependent syntax.
"""
from __future__ import annotations

import json
import re
from pathlib import Path

import translate_sites as TS
from lib import (Check, COMMON_TRUSTED, GEN, NCPU, REPO, VERIF, coq_bool, coq_list, coq_str, coqc_file, eval_strings,
                 gen_dir, parse_nat_list, run_py)
from concurrent.futures import ThreadPoolExecutor

PROP = "C18"
RUNNER = VERIF / "harness" / "c18_run.py"

CERTS = [
    dict(LOAD="__load__", TICK="__tick__", PRIVATE="__private__", VAR="__variable__", INT="__int__", STORAGE="__storage__"),
    dict(LOAD="init", TICK="loop", PRIVATE="priv", VAR="v", INT="i", STORAGE="stor"),
    dict(LOAD="l0ad", TICK="t1ck", PRIVATE="__p__/x", VAR="var.s", INT="const-int", STORAGE="s_t"),
]
NS = "TEST"
ADV_JSON = '{"criteria":{"a":{"trigger":"minecraft:impossible"}}}'

# Python-side copy of the naming rule, used ONLY to write probe programs / #copy trees in the convention
# of the format (the comparison itself is done by Coq against Model/PackFmt.v)
def probe_folder(singular: str, pf10: int) -> str:
    return singular + ("s" if pf10 < 480 else "")


# ---- probes: program + which site resources must appear (site label suffix, namespace, id template)
PROBES = [
    dict(name="first_join", src='Player.firstJoin(()=>{ say "hi"; });',
         expect=[("PlayerFirstJoin.call#0", NS, "{P}/player_first_join")]),
    dict(name="trigger_setup", src='Trigger.setup(help, {1: ()=>{ say "a"; say "b"; }, 2: ()=>{ say "c"; say "d";}});',
         expect=[("TriggerSetup.call#0", NS, "{P}/trigger_setup/enable")]),
    dict(name="trigger_add", src='Trigger.add(helpme, ()=>{ say "a"; say "b"; });',
         expect=[("TriggerAdd.call#0", NS, "{P}/trigger_add/enable")]),
    dict(name="recipe_table",
         src='Recipe.table({"type":"minecraft:crafting_shapeless","ingredients":[{"item":"minecraft:oak_planks"}],'
             '"result":{"item":"minecraft:diamond","count":5}}, baseItem=barrier, onCraft=()=>{ say "x"; });',
         expect=[("RecipeTable.call#0", NS, "{P}/recipe_table/0"), ("RecipeTable.call#1", NS, "{P}/recipe_table/0")]),
    dict(name="gui", src='GUI.template(my_gui, ["abc"], block); GUI.create(my_gui);',
         expect=[("GUICreate.call#0", NS, "{P}/gui/my_gui")]),
    dict(name="jmc_require", src='JMC.require(other, "other:api/v1");', header="#link other", feature="FReturnRun",
         expect=[("JMCRequire.call#0", NS, "{P}/require/other")]),
    dict(name="raycast", src='function f(){ Raycast.simple(onHit=()=>{ say "hit"; }); }',
         expect=[("RaycastSimple.call#0", NS, "{P}/raycast_simple/default_raycast_pass")]),
    dict(name="predicate_locations",
         src='Predicate.locations("my/pred", {"block":{"blocks":["minecraft:stone"]}}, 0,1,0,0,0,0);'
             ' function f(){ execute if predicate TEST:my/pred run say "in"; }',
         expect=[("PredicateLocations.call#0", NS, "my/pred")]),
    dict(name="build", src='function foo.bar(){ say "x"; } Trigger.add(helpme, ()=>{ foo.bar(); say "b"; });',
         expect=[("build#functions", NS, "foo/bar"), ("build#functions", NS, "{LOAD}"), ("build#functions", NS, "{TICK}"),
                 ("build#tags", "minecraft", "load"), ("build#tags", "minecraft", "tick")]),
    dict(name="build_override", src='function otherns.foo.bar(){ say "x"; } function f(){ otherns.foo.bar(); }',
         header="#override otherns",
         expect=[("build#functions", "otherns", "foo/bar"), ("build#functions", NS, "f")]),
    dict(name="adv_lookup",
         src='new {ADV}(my.adv) ' + ADV_JSON + ' function f(){ Advancement.revoke(@s, only, my/adv); Advancement.grant(@s, only, my/adv); }',
         expect=[("AdvancementRevoke.call#ADVANCEMENT", NS, "my/adv"), ("AdvancementGrant.call#ADVANCEMENT", NS, "my/adv")]),
    dict(name="copy_lookup", src='function f(){ lib.foo(); }', header='#copy "static"', copy=("lib/foo", "say hi"),
         expect=[("DataPack.is_function_in_copy#path", NS, "lib/foo")]),
]

# ---- feature probes: must be rejected with MinecraftVersionTooLow/TooHigh exactly when the gates say so
FEATURES = [
    dict(name="with_call", feature="FWith", src='function g(){ say "g"; } function f(){ g() with {x:1}; }'),
    dict(name="with_anon", feature="FWith", src='function f(){ execute as @a run { say "a"; say "b"; } with {x:2}; }'),
    dict(name="switch_sparse", feature="FSwitchSparse", src='function f(){ switch($v){ case 1: say "1"; case 5: say "5"; } }'),
    dict(name="switch_default", feature="FSwitchDefault",
         src='function f(){ switch($v){ case 1: say "1"; case 2: say "2"; default: say "d"; } }'),
    dict(name="sign_front", feature="FSignSides", src='Item.createSign(s, oak, texts=["a","b","c","d"], isFrontGlow=true);'),
    dict(name="sign_back", feature="FSignSides",
         src='Item.createSign(s, oak, texts=["a","b","c","d","e","f","g","h"], isBackGlow=true);', versioned_only=True),
    dict(name="item_component", feature="FItemComponent", src='Item.create(it, stone, "N", component=[a=1]);'),
    dict(name="item_nbt", feature="FItemNbt", src='Item.create(it, stone, "N", nbt={a:1});'),
    dict(name="jmc_require", feature="FReturnRun", src='JMC.require(other, "other:api/v1");', header="#link other"),
    # round 3: every spelling of the feature (what follows `with`, where the call stands, which labels are missing)
    dict(name="with_storage", feature="FWith", src='function g(){ say "g"; } function f(){ g() with a:b::c; }'),
    dict(name="with_entity", feature="FWith", src='function g(){ say "g"; } function f(){ g() with @s::Inventory[0]; }'),
    dict(name="with_scores", feature="FWith", src='function g(){ say "g"; } function f(){ g() with [$a, $b]; }'),
    dict(name="with_after_execute", feature="FWith", src='function g(){ say "g"; } function f(){ execute as @a run g() with {x:1}; }'),
    dict(name="with_method", feature="FWith", src='class k { function g(){ say "g"; } } function f(){ k.g() with {x:1}; }'),
    dict(name="with_anon_storage", feature="FWith", src='function f(){ execute as @a run { say "a"; say "b"; } with a:b::c; }'),
    dict(name="with_switch", feature="FWith", src='function f(){ switch($v){ case 1: say "1"; case 2: say "2"; } with {x:1}; }'),
    dict(name="with_load", feature="FWith", src='function g(){ say "g"; } g() with {x:1};'),
    dict(name="switch_descending", feature="FSwitchSparse", src='function f(){ switch($v){ case 3: say "3"; case 1: say "1"; } }'),
    dict(name="switch_duplicate", feature="FSwitchSparse", src='function f(){ switch($v){ case 1: say "1"; case 1: say "5"; } }'),
    dict(name="switch_gap_later", feature="FSwitchSparse", src='function f(){ switch($v){ case 1: say "1"; case 2: say "2"; case 4: say "4"; } }'),
    dict(name="switch_gap_negative", feature="FSwitchSparse", src='function f(){ switch($v){ case -3: say "a"; case -1: say "b"; } }'),
    dict(name="switch_default_only_case", feature="FSwitchDefault", src='function f(){ switch($v){ case 1: say "1"; default: say "d"; } }'),
    dict(name="switch_default_load", feature="FSwitchDefault", src='switch($v){ case 1: say "1"; case 2: say "2"; default: say "d"; }'),
    dict(name="switch_default_forcebst", feature="FSwitchDefault", header="#forcebst", forcebst=True,
         src='function f(){ switch($v){ case 1: say "1"; case 2: say "2"; default: say "d"; } }'),
    dict(name="switch_sparse_forcebst", feature="FSwitchSparse", header="#forcebst", forcebst=True,
         src='function f(){ switch($v){ case 1: say "1"; case 5: say "5"; } }'),
]

# ---- round 3: every version-gated built-in x every combination of its boolean / keyword arguments (absent = default, explicit)
ARROW = '()=>{ say "cb"; }'
ITEM_ALTS = dict(displayName=['"N"'], lore=['["l1", "l2"]'], nbt=["{a:1}"], component=["[a=1]"], onClick=[ARROW], onPlace=[ARROW])


def item_uses(a):
    return ({"FItemComponent"} if a.get("component") else set()) | ({"FItemNbt"} if a.get("nbt") else set())


BUILTIN_PROBE = {
    # call_string -> required argument texts (positional, in declaration order), alternatives of the optional ones,
    #                the format-dependent features a combination makes the output use (specification side)
    "JMC.require": dict(required=dict(namespace="other", functionPath='"other:api/v1"'), header="#link other",
                        alts=dict(errorMessage=['""', '"dependency missing"']), uses=lambda a: {"FReturnRun"}),
    "Item.create": dict(required=dict(itemId="it", itemType="stone"), alts=ITEM_ALTS, uses=item_uses),
    "Item.createUse": dict(required=dict(itemId="it", itemType="carrot_on_a_stick"), alts=ITEM_ALTS, uses=item_uses),
    "Item.createSpawnEgg": dict(required=dict(itemId="egg", mobType="pig", onPlace=ARROW), alts=ITEM_ALTS, uses=item_uses),
    "Item.createSign": dict(required=dict(itemId="sg", variant="oak"),
                            alts=dict(ITEM_ALTS, texts=['["a","b","c","d"]', '["a","b","c","d","e","f","g","h"]']),
                            uses=lambda a: item_uses(a) | ({"FSignSides"} if "true" in (a.get("isFrontGlow"), a.get("isBackGlow")) else set())),
    "GUI.register": dict(required=dict(name="my_gui", id='"a"', item="stone"), prelude='GUI.template(my_gui, ["abc"], block); ',
                         alts=ITEM_ALTS, uses=item_uses),
}
ABSENT = None


def builtin_matrix(t, tier):
    """[(builtin entry, probe, explicit argument dict, effective argument dict)]; missing = call strings without a probe"""
    out, missing = [], []
    for b in t["gated_builtins"]:
        pr = BUILTIN_PROBE.get(b["call_string"])
        if pr is None:
            missing.append(b["call_string"])
            continue
        types = dict(b["args"])
        optional = [a for a, _ in b["args"] if a in b["defaults"]]
        not_given = [a for a, _ in b["args"] if a not in b["defaults"] and a not in pr["required"]]
        if not_given:
            missing.append(f"{b['call_string']} (no value for required argument {not_given})")
            continue
        bools = [a for a in optional if b["defaults"][a] in ("true", "false")]
        in_gate = set()

        def atoms(c):
            if c[0] in ("bool", "given"):
                in_gate.add(c[1])
            elif c[0] == "not":
                atoms(c[1])
            elif c[0] in ("and", "or"):
                for x in c[1]:
                    atoms(x)
        for g in b["gates"]:
            for c in g["conds"]:
                atoms(c)
        choices = {}
        for a in optional:
            if a in bools:
                choices[a] = [ABSENT, "false", "true"]
            else:
                alt = list(pr.get("alts", {}).get(a, []))
                if types[a] == "STRING":
                    alt = ['"' + b["defaults"][a] + '"'] + alt            # the default written explicitly
                choices[a] = [ABSENT] + alt
        cross = [a for a in optional if a in bools or a in in_gate]
        others = [a for a in optional if a not in cross]
        import itertools
        combos = []
        for vals in itertools.product(*[choices[a] for a in cross]):
            combos.append(dict(zip(cross, vals)))
        for bvals in itertools.product(*[choices[a] for a in bools]):
            for a in others:
                for v in choices[a][1:]:
                    c = dict(zip(bools, bvals))
                    c[a] = v
                    combos.append(c)
        seen = set()
        for c in combos:
            explicit = {a: v for a, v in c.items() if v is not ABSENT}
            key = tuple(sorted(explicit.items()))
            if key in seen:
                continue
            seen.add(key)
            eff = dict(b["defaults"])
            for a, v in explicit.items():
                eff[a] = v[1:-1] if types[a] == "STRING" and len(v) >= 2 and v[0] == v[-1] == '"' else v
            out.append((b, pr, explicit, eff))
    return out, missing


def builtin_src(b, pr, explicit, style=0):
    req, positional = [], style != 1      # style 1: every argument by keyword
    for a, _ in b["args"]:
        if a in pr["required"]:
            req.append(pr["required"][a] if positional else f"{a}={pr['required'][a]}")
        else:
            positional = False              # a required argument declared after an optional one can only be given by keyword
    opt = [f"{a}={explicit[a]}" for a, _ in b["args"] if a in explicit]
    return pr.get("prelude", "") + f"{b['call_string']}({', '.join(req + opt)});"


def version_syntax(files: dict):
    """format-dependent command syntax found in the emitted functions: {feature: example line}"""
    found = {}
    for p, text in files.items():
        if not p.endswith(".mcfunction"):
            continue
        for line in text.split("\n"):
            if re.search(r"(^|\brun )return run\b", line):
                found.setdefault("FReturnRun", line)
            if line.startswith("$") or re.search(r"\bfunction \S+ (with |\{)", line):
                found.setdefault("FWith", line)
    return found

# ---- disk builds
DISK_SRC = 'function foo.bar(){ say "x"; } Trigger.add(helpme, ()=>{ foo.bar(); say "b"; });'
DISK_EXPECT = [("build#functions", NS, "foo/bar"), ("build#functions", NS, "{LOAD}"), ("build#functions", NS, "{TICK}"),
               ("build#tags", "minecraft", "load"), ("build#tags", "minecraft", "tick"), ("TriggerAdd.call#0", NS, "{P}/trigger_add/enable")]
DISK_SCENARIOS = ["fresh", "other_convention", "same_convention", "rebuild", "rebuild_other_convention", "rebuild_across_rename"]


def disk_scenario(sc, f, pf10):
    """(files already in the output directory, pack formats of the successive builds)"""
    def foreign(legacy):
        fn = "functions" if legacy else "function"
        return {f"data/minecraft/tags/{fn}/load.json": '{\n    "values": [\n        "otherpack:load"\n    ]\n}',
                f"data/minecraft/tags/{fn}/tick.json": '{\n    "values": [\n        "otherpack:tick"\n    ]\n}',
                f"data/otherpack/{fn}/load.mcfunction": "say other"}
    legacy = pf10 < 480
    other_side = "48" if legacy else "41"
    return {
        "fresh": ({}, [f]),
        "other_convention": (foreign(not legacy), [f]),
        "same_convention": (foreign(legacy), [f]),
        "rebuild": ({}, [f, f]),
        "rebuild_other_convention": (foreign(not legacy), [f, f]),
        "rebuild_across_rename": ({}, [other_side, f]),
    }[sc]


EXTRA_QUICK = ["47", "49", "16", "33", "47.9", "48.0", "13", "62"]

FOLDER_KINDS = sorted(((s, k) for s, k in TS.KINDS.items()), key=lambda x: -len(x[0]))


def cert_text(c):
    return "\n".join(f"{k}={v}" for k, v in c.items())


def classify(rest: str):
    """'advancements/x/y.json' -> (kind, folder actually used) by either convention; None if not a vanilla kind"""
    for sing, k in FOLDER_KINDS:
        for folder in (sing + "s", sing):
            if rest.startswith(folder + "/"):
                return k, folder
    return None


RL = r"([A-Za-z0-9_.\-]+):([A-Za-z0-9_./\-]+)"


def refs_in_function(text: str):
    out = []
    for line in text.split("\n"):
        if line.startswith("$"):
            continue            # vanilla macro line: the resource location is completed at run time
        for m in re.finditer(r"\badvancement (?:grant|revoke) \S+ (?:only|from|through|until) " + RL, line):
            out.append(("KAdvancement", m.group(1), m.group(2)))
        for m in re.finditer(r"\brecipe (?:give|take) \S+ " + RL, line):
            out.append(("KRecipe", m.group(1), m.group(2)))
        for m in re.finditer(r"\bfunction (#?)" + RL, line):
            out.append(("KTagFunction" if m.group(1) else "KFunction", m.group(2), m.group(3)))
        for m in re.finditer(r"\bclear \S+ #" + RL, line):
            out.append(("KTagItem", m.group(1), m.group(2)))
        for m in re.finditer(r"\b(?:if|unless) block \S+ \S+ \S+ #" + RL, line):
            out.append(("KTagBlock", m.group(1), m.group(2)))
        for m in re.finditer(r"\b(?:if|unless) predicate " + RL, line):
            out.append(("KPredicate", m.group(1), m.group(2)))
    return out


def refs_in_json(kind: str, text: str):
    try:
        js = json.loads(text)
    except ValueError:
        return []
    out = []

    def rl(s):
        m = re.fullmatch(r"(#?)" + RL, s) if isinstance(s, str) else None
        return m

    if kind == "KAdvancement" and isinstance(js, dict):
        f = js.get("rewards", {}).get("function") if isinstance(js.get("rewards"), dict) else None
        m = rl(f)
        if m:
            out.append(("KFunction", m.group(2), m.group(3)))
        for crit in (js.get("criteria") or {}).values():
            r = (crit.get("conditions") or {}).get("recipe") if isinstance(crit, dict) else None
            m = rl(r)
            if m:
                out.append(("KRecipe", m.group(2), m.group(3)))
    if kind.startswith("KTag") and isinstance(js, dict):
        for v in js.get("values", []):
            if isinstance(v, dict):
                v = v.get("id")
            m = rl(v)
            if m and ":" in v:
                k = kind if m.group(1) else {"KTagFunction": "KFunction"}.get(kind)
                if k:
                    out.append((k, m.group(2), m.group(3)))
    return out


def analyse(files: dict, namespaces: set, extra_paths=()):
    """real file map -> (paths, folders [(kind, folder)], refs [(kind, ns, id)] restricted to our namespaces)"""
    paths, folders, refs = [], [], []
    for p, text in files.items():
        q = p.split("/", 1)[1] if "/" in p else p          # drop the output root ("VIRTUAL/")
        paths.append(q)
        m = re.match(r"data/([^/]+)/(.*)$", q)
        if not m:
            continue
        cl = classify(m.group(2))
        if cl is None:
            continue
        folders.append(cl)
        if cl[0] == "KFunction":
            refs += refs_in_function(text)
        else:
            refs += refs_in_json(cl[0], text)
    paths += list(extra_paths)
    refs = sorted({r for r in refs if r[1] in namespaces})
    return paths, sorted(set(folders)), refs


def fmt_list(t, tier):
    table = [f[1] for f in t["formats"]] if t else ["4", "5", "6", "7", "8", "9", "10", "12", "15", "18", "26", "41", "48", "57",
                                                      "61", "71", "80", "81", "88.0", "94.1", "101.1", "107.1"]
    extra = list(EXTRA_QUICK)
    if tier == "thorough":
        extra += [str(i) for i in range(4, 111)] + ["47.5", "48.1", "15.9", "16.1"]
    seen, out = set(), []
    for f in table + ["-1"] + extra:
        if TS.scaled(f) in seen:
            continue
        seen.add(TS.scaled(f))
        out.append(f)
    return out, {TS.scaled(f) for f in table} | {-10}


def run_jobs(jobs, chunk=60):
    chunks = [jobs[i:i + chunk] for i in range(0, len(jobs), chunk)]
    with ThreadPoolExecutor(max_workers=NCPU) as ex:
        res = list(ex.map(lambda c: run_py(RUNNER, c, timeout=600), chunks))
    return [r for rs in res for r in rs]


HEADER = ("From Coq Require Import ZArith String List Bool.\nFrom JMCV Require Import Model.PackFmt Run.C18 Gen.C18.JsonSites.\n"
          "Import ListNotations.\nOpen Scope Z_scope.\nOpen Scope string_scope.\n")
HEADER_NOTABLE = ("From Coq Require Import ZArith String List Bool.\nFrom JMCV Require Import Model.PackFmt Run.C18.\n"
                  "Import ListNotations.\nOpen Scope Z_scope.\nOpen Scope string_scope.\n"
                  "Definition R := mkRules OGe 480.\nDefinition sites : list site := [].\n")


def cz(n):
    return f"({n})" if n < 0 else str(n)


def obligations_text():
    return (HEADER + "From JMCV Require Import Proofs.PackFmt Props.C18.\n"
            "Eval vm_compute in failing_sites R sites.\n"
            "Eval vm_compute in failing_features formats gates.\n"
            "Theorem sites_ok : forallb (site_check R) sites = true.\nProof. vm_compute. reflexivity. Qed.\n"
            "Theorem C18_folders_of_the_source : forall s pf ns id, In s sites ->\n"
            "  jmc_folder R s pf = mc_folder (s_kind s) pf /\\ jmc_path R s pf ns id = mc_path (s_kind s) pf ns id.\n"
            "Proof. intros s pf ns id H. split; [exact (C18_folders R sites sites_ok s pf H)|exact (C18_paths R sites sites_ok s pf ns id H)]. Qed.\n"
            "Print Assumptions C18_folders_of_the_source.\n"
            "Theorem gates_ok : gates_check formats gates = true.\nProof. vm_compute. reflexivity. Qed.\n"
            "Theorem C18_features_of_the_source : forall pf f, In pf formats -> pf <> UNVERSIONED ->\n"
            "  accepts gates f pf = true -> expressible f pf = true.\n"
            "Proof. exact (C18_features formats gates gates_ok). Qed.\n"
            "Print Assumptions C18_features_of_the_source.\n")


def parse_failing(out: str):
    """the two `Eval` results of Obligations.v as raw text blocks"""
    blocks = re.split(r"\n\s*=\s", "\n" + out)
    return [b.split("\n     :")[0] for b in blocks[1:3]]


def main(tier: str) -> int:
    ck = Check(PROP, tier)
    ck.cov["trusted_base"] = COMMON_TRUSTED[:1] + [
        "Model/PackFmt.v `mc_folder`/`mc_path`/`expressible`: hand-written specification of Minecraft's folder names per pack format "
        "(plural below 48, singular from 48) and of the release formats that introduced macros / return run / item components / sign sides",
        "harness/translate_sites.py (fail-closed Python-ast translator): call sites of add_private_json/add_json, the strip rule of add_private_json, "
        "build's function_folder, the ADVANCEMENT lookup keys, is_function_in_copy, PackVersionFeature, PACK_VERSION, require gates",
        "harness/c18.py + c18_run.py: probes (real compiler) and the reference scanner (regexes over emitted commands / JSON)",
        "harness/c18.py BUILTIN_PROBE `uses` (hand-written): which format-dependent feature an argument combination of a version-gated built-in makes "
        "the output use (glow flag -> sign sides, component= -> item components, nbt= -> item NBT, JMC.require -> `return run`), and `version_syntax` "
        "(regexes for `return run`, `function .. with` / inline arguments, `$` macro lines in emitted functions); translate_sites.py GATE_REACH: reviewed "
        "reach conditions of the gates outside built-ins",
        "outside the model: user-written `new <type>(…)` JSON (folder chosen by the user), vanilla commands the user writes verbatim "
        "(e.g. `$`-macro lines), version-dependent NBT/text-component syntax of Item/Text built-ins",
    ]
    ck.proof(extra_targets=["Run/C18.vo"])

    # ---------------------------------------------------------------- regenerated tables
    t, terr = None, None
    try:
        t = TS.translate(REPO)
    except (TS.Untranslatable, SyntaxError, OSError) as e:
        terr = f"{type(e).__name__}: {e}"
    d = gen_dir(PROP)
    failing_sites_txt = failing_feat_txt = ""
    oblig_ok = False
    if t:
        (d / "JsonSites.v").write_text(TS.coq_text(t))
        ok, out = coqc_file(d / "JsonSites.v")
        if not ok:
            terr = "generated JsonSites.v does not compile: " + out[-1500:]
            t = None
    if t:
        (d / "Obligations.v").write_text(obligations_text())
        oblig_ok, oout = coqc_file(d / "Obligations.v")
        try:
            failing_sites_txt, failing_feat_txt = parse_failing(oout)
        except ValueError:
            failing_sites_txt = failing_feat_txt = oout[-1500:]
        ck.cov["regenerated_obligations"] = dict(
            file="coq/Gen/C18/Obligations.v", theorems=["sites_ok", "C18_folders_of_the_source", "gates_ok", "C18_features_of_the_source"],
            checked=oblig_ok, closed=oout.count("Closed under the global context"))
        ck.cov["obligations"] = ck.cov.get("obligations", 0) + 4
        if oblig_ok:
            ck.cov["discharged"] = ck.cov.get("discharged", 0) + 4
    header = HEADER if t else HEADER_NOTABLE

    # ---------------------------------------------------------------- probes
    fmts, table10 = fmt_list(t, tier)
    ncert = 2 if tier == "quick" else 3
    label_index = {}
    if t:
        for i, s in enumerate(t["sites"]):
            label_index[s["label"].split(":", 1)[1]] = i
    jobs, meta = [], []
    for ci, cert in enumerate(CERTS[:ncert]):
        for pr in PROBES:
            for f in fmts:
                pf10 = TS.scaled(f)
                src = pr["src"].replace("{ADV}", probe_folder("advancement", pf10))
                job = dict(kind="compile", src=src, header=pr.get("header"), cert=cert_text(cert), pack_format=f)
                extra = []
                if pr.get("copy"):
                    rel = f"data/{NS}/{probe_folder('function', pf10)}/{pr['copy'][0]}.mcfunction"
                    job["copy_tree"] = {"static/" + rel: pr["copy"][1]}
                    extra = [rel]
                jobs.append(job)
                meta.append(dict(type="probe", probe=pr, cert=ci, fmt=f, pf10=pf10, extra=extra))
        for fe in FEATURES:
            if ci > 0:
                continue
            for f in fmts:
                if fe.get("versioned_only") and f == "-1":
                    continue        # the unversioned format selects the 4-line legacy sign: no back side to glow
                jobs.append(dict(kind="compile", src=fe["src"], header=fe.get("header"), cert=cert_text(cert), pack_format=f))
                meta.append(dict(type="feature", probe=fe, cert=ci, fmt=f, pf10=TS.scaled(f)))
    # round 3: every version-gated built-in (regenerated list) x every combination of its boolean / gate-relevant arguments
    # (absent = default / explicit) and each other optional argument on top of every boolean combination x every format
    matrix, matrix_missing = builtin_matrix(t, tier) if t else ([], [])
    for mi, (b, pr, explicit, eff) in enumerate(matrix):
        src = builtin_src(b, pr, explicit, style=1 if mi % 7 == 3 else 0)
        for f in fmts:
            jobs.append(dict(kind="compile", src=src, header=pr.get("header"), cert=cert_text(CERTS[0]), pack_format=f))
            meta.append(dict(type="matrix", probe=dict(name="builtin:" + b["call_string"]), builtin=b, bprobe=pr, explicit=explicit, eff=eff,
                             cert=0, fmt=f, pf10=TS.scaled(f)))
    # PackVersion.require called directly: every table format x every threshold/format x both directions
    thr_vals = sorted({f for f in fmts} | ({str(v / 10).rstrip("0").rstrip(".") for v in t["features"].values()} if t else {"13", "16", "33", "48"}),
                      key=lambda x: float(x))
    for f in fmts:
        for th in thr_vals:
            if th == "-1":
                continue
            for lower in (False, True):
                jobs.append(dict(kind="require", pf=f, f=th, lower=lower, as_version=(len(jobs) % 2 == 0)))
                meta.append(dict(type="require", fmt=f, pf10=TS.scaled(f), thr=th, lower=lower))
    # REAL disk builds (compile_jmc): fresh output / output that already holds tag files of the other or of the same convention
    # (another pack's) / rebuild / rebuild across the rename — where do ns:__load__ and ns:__tick__ and every other file go?
    disk_formats = fmts if tier == "thorough" else [f for f in fmts if TS.scaled(f) in table10 or f in ("47", "49")]
    for f in disk_formats:
        pf10 = TS.scaled(f)
        for sc in DISK_SCENARIOS:
            pre, builds = disk_scenario(sc, f, pf10)
            jobs.append(dict(kind="disk", src=DISK_SRC, pre=pre, builds=builds, namespace=NS))
            meta.append(dict(type="disk", probe=dict(name="disk_" + sc, expect=DISK_EXPECT), cert=0, fmt=f, pf10=pf10, scenario=sc, pre=pre))
    results = run_jobs(jobs)

    pcases, pmeta, fcases, fmeta, rcases, rmeta, mcases, mmeta = [], [], [], [], [], [], [], []
    gate_by_label = {g["label"]: g for g in t["gates"]} if t else {}
    builtin_crashes = {}

    def add_mcase(m, uses, active, outcome):
        mcases.append(f"mkM {coq_list(sorted(uses))} {coq_list(coq_str(a) for a in active)} {cz(m['pf10'])} {coq_bool(m['pf10'] in table10)} {outcome}%nat")
        mmeta.append(dict(m, uses=sorted(uses), active=list(active), outcome=outcome))

    def scan_output(m, r):
        # format-dependent syntax in ANY compiled output must be expressible under the format (no gate involved)
        if r.get("ok") and m["pf10"] in table10 and m["pf10"] != -10:
            for feat, line in version_syntax(r["files"]).items():
                add_mcase(dict(m, type="scan", line=line), {feat}, [], 0)
    once = set()
    n_viol_before = len(ck.violations)

    def probe_failed(m, job, r, expected):
        key = (m["probe"]["name"], m["pf10"] < 480, r["exc"])
        if key in once:
            return
        once.add(key)
        ck.violation(dict(kind="probe-failed", probe=m["probe"]["name"], pack_format=m["fmt"], src=job["src"], header=job.get("header"),
                          jmc_txt=job["cert"], copy_tree=job.get("copy_tree"), expected=expected,
                          actual=f"{r['exc']}: {r['msg'][:400]}"))
    n_reject_ok = 0
    for job, m, r in zip(jobs, meta, results):
        m["job"], m["res"] = job, r
        if m["type"] == "require":
            if not isinstance(r["r"], int):
                ck.violation(dict(kind="require-crashed", pf=m["fmt"], f=m["thr"], is_lower=m["lower"], actual=r["r"],
                                  expected="returns, or raises MinecraftVersionTooLow / MinecraftVersionTooHigh"))
                continue
            rcases.append(f"mkR {cz(m['pf10'])} {cz(TS.scaled(m['thr']))} {coq_bool(m['lower'])} {r['r']}%nat")
            rmeta.append(m)
            continue
        if m["type"] == "disk":
            if not r["ok"]:
                key = ("disk", m["scenario"], m["pf10"] < 480, r["exc"])
                if key not in once:
                    once.add(key)
                    ck.violation(dict(kind="probe-failed", probe=m["probe"]["name"], pack_format=m["fmt"], src=job["src"], builds=job["builds"], pre=job["pre"],
                                      expected="the disk build succeeds", actual=f"{r['exc']}: {r['msg'][:400]}"))
                continue
            ours = {p: c for p, c in r["files"].items()
                    if p.startswith(f"data/{NS}/") or (p.startswith("data/minecraft/tags/") and f'"{NS}:' in c)}
            paths, folders, refs = analyse({"OUT/" + p: c for p, c in ours.items()}, {NS})
            foreign_changed = sorted(p for p, c in m["pre"].items() if p in r["files"] and r["files"][p] != c
                                     and not p.startswith(f"data/minecraft/tags/{probe_folder('function', m['pf10'])}/"))
            if foreign_changed:
                key = ("foreign", m["scenario"], m["pf10"] < 480)
                if key not in once:
                    once.add(key)
                    ck.violation(dict(kind="foreign-file-modified", probe=m["probe"]["name"], pack_format=m["fmt"], src=job["src"], builds=job["builds"], pre=job["pre"],
                                      expected="tag files of the OTHER folder convention (another pack's) are left as they are or removed, never written",
                                      actual={p: r["files"][p] for p in foreign_changed}, foreign=foreign_changed))
            expect = [(label_index[lab], ns, idt.replace("{P}", "__private__").replace("{LOAD}", "__load__").replace("{TICK}", "__tick__"))
                      for lab, ns, idt in DISK_EXPECT if lab in label_index]
            m.update(paths=paths, folders=folders, refs=refs, expect=expect)
            pcases.append("mkP %s %s %s %s %s" % (
                cz(m["pf10"]), coq_list(coq_str(p) for p in paths),
                coq_list(f"({i}%nat, {coq_str(ns)}, {coq_str(i_d)})" for i, ns, i_d in expect),
                coq_list(f"({k}, {coq_str(ns)}, {coq_str(i_d)})" for k, ns, i_d in refs),
                coq_list(f"({k}, {coq_str(fo)})" for k, fo in folders)))
            pmeta.append(m)
            continue
        rejected = (not r["ok"]) and r["exc"] in ("MinecraftVersionTooLow", "MinecraftVersionTooHigh")
        scan_output(m, r)
        if m["type"] == "matrix" or m["probe"].get("forcebst"):
            outcome = 0 if r["ok"] else 1 if rejected else 2 if r.get("jmc") else 3
            if outcome == 3:
                if m["type"] == "matrix" and r["exc"] == m["bprobe"].get("known_crash"):
                    builtin_crashes[m["probe"]["name"]] = builtin_crashes.get(m["probe"]["name"], 0) + 1
                else:
                    probe_failed(m, job, r, "compiles, or is rejected with a diagnostic")
                continue
            if m["type"] == "matrix":
                active = [g["label"] for g in m["builtin"]["gates"] if all(TS.cond_eval(c, m["eff"]) for c in g["conds"])]
                uses = m["bprobe"]["uses"](m["eff"])
            else:       # #forcebst: the gates of the feature apply; the strategy then refuses what the macro dispatch would have done
                active = [g["label"] for g in t["gates"] if g["feature"] == m["probe"]["feature"]] if t else []
                uses = {m["probe"]["feature"]}
                if outcome == 0 and ("forcebst", m["probe"]["name"]) not in once:
                    once.add(("forcebst", m["probe"]["name"]))
                    ck.violation(dict(kind="feature-gate", probe=m["probe"]["name"], feature=m["probe"]["feature"], pack_format=m["fmt"], src=job["src"],
                                      header=job.get("header"), jmc_txt=job["cert"], expect_reject=True,
                                      expected="rejected: #forcebst selects the binary-search switch, which cannot express the feature", actual="compiled"))
            add_mcase(m, uses, active, outcome)
            if rejected:
                n_reject_ok += 1
            continue
        feature = m["probe"].get("feature")
        if feature and (m["type"] == "feature" or not r["ok"]):
            # 0 = compiled, 1 = version diagnostic, 2 = another diagnostic of JMC's own (e.g. the strategy in force cannot do it)
            outcome = 0 if r["ok"] else 1 if rejected else 2 if (r.get("jmc") and r["exc"] == "JMCSyntaxException") else None
            if outcome is None:
                probe_failed(m, job, r, "compiles, or is rejected with a diagnostic")
                continue
            rejected = outcome != 0
            fcases.append(f"mkF {feature} {cz(m['pf10'])} {coq_bool(m['pf10'] in table10)} {outcome}%nat")
            fmeta.append(m)
            if rejected:
                n_reject_ok += 1
            if m["type"] == "feature" or rejected:
                continue
        if not r["ok"]:
            probe_failed(m, job, r, "compiles: every resource the program needs is where the pack format's Minecraft reads it")
            continue
        cert = CERTS[m["cert"]]
        namespaces = {NS, "otherns"} | ({"minecraft"} if False else set())
        paths, folders, refs = analyse(r["files"], namespaces, m.get("extra", ()))
        expect = []
        for lab, ns, idt in m["probe"]["expect"]:
            if lab in label_index:
                expect.append((label_index[lab], ns, idt.replace("{P}", cert["PRIVATE"]).replace("{LOAD}", cert["LOAD"]).replace("{TICK}", cert["TICK"])))
        m.update(paths=paths, folders=folders, refs=refs, expect=expect)
        pcases.append("mkP %s %s %s %s %s" % (
            cz(m["pf10"]), coq_list(coq_str(p) for p in paths),
            coq_list(f"({i}%nat, {coq_str(ns)}, {coq_str(i_d)})" for i, ns, i_d in expect),
            coq_list(f"({k}, {coq_str(ns)}, {coq_str(i_d)})" for k, ns, i_d in refs),
            coq_list(f"({k}, {coq_str(fo)})" for k, fo in folders)))
        pmeta.append(m)

    files = []
    per = 300
    for name, cases, checker in (("p", pcases, "pmismatches R sites"), ("f", fcases, "fmismatches gates sgates" if t else "fmismatches_nogates"), ("r", rcases, "rmismatches"),
                                 ("m", mcases, "mmismatches gates" if t else "mmismatches_nogates")):
        for fi, start in enumerate(range(0, len(cases), per)):
            body = header + "Definition cases := [\n" + ";\n".join(cases[start:start + per]) + "\n].\n" + f"Eval vm_compute in {checker} cases.\n"
            files.append((name, start, f"cases_{name}_{fi}.v", body))
    for _, _, fname, body in files:
        (d / fname).write_text(body)
    with ThreadPoolExecutor(max_workers=NCPU) as ex:
        outs = list(ex.map(lambda f: coqc_file(d / f[2]), files))
    bad = {"p": [], "f": [], "r": [], "m": []}
    for (name, start, fname, _), (ok, out) in zip(files, outs):
        if not ok:
            ck.violation(dict(kind="correspondence-file-failed", file=fname, log=out[-2500:]), no_input=True)
            continue
        bad[name] += [start + i for i in parse_nat_list(out)]

    # ---------------------------------------------------------------- verdict: concrete failing inputs
    seen = set()
    for i in bad["p"]:
        m = pmeta[i]
        exprs, what = [], []
        for si, ns, i_d in m["expect"]:
            exprs.append(f"mc_path (s_kind (nth {si} sites (mkSite \"\" ApiPlain (SLit \"\") KFunction))) {cz(m['pf10'])} {coq_str(ns)} {coq_str(i_d)}")
            what.append(f"resource {ns}:{i_d} of site {t['sites'][si]['label']}")
        for k, ns, i_d in m["refs"]:
            exprs.append(f"mc_path {k} {cz(m['pf10'])} {coq_str(ns)} {coq_str(i_d)}")
            what.append(f"reference {k} {ns}:{i_d}")
        try:
            exp_paths = eval_strings(PROP, header, exprs) if exprs else []
        except Exception as e:  # noqa
            exp_paths = [str(e)] * len(exprs)
        missing = [dict(what=w, expected_file=p) for w, p in zip(what, exp_paths) if p not in m["paths"]]
        wrong_folders = [dict(kind=k, folder=fo) for k, fo in m["folders"] if fo != probe_folder(dict((v, s) for s, v in TS.KINDS.items())[k], m["pf10"])]
        key = (tuple(sorted(x["what"].replace(CERTS[m["cert"]]["PRIVATE"], "{P}") for x in missing)), tuple(sorted(w["folder"] for w in wrong_folders)), m["pf10"] < 480,
               m.get("scenario"))
        if key in seen:
            continue
        seen.add(key)
        exp_txt = ""
        if missing:
            exp_txt += "each of these files exists in the output: " + json.dumps(missing) + " "
        if wrong_folders:
            exp_txt += "no emitted file lies in a folder this pack format's Minecraft does not read: " + json.dumps(wrong_folders)
        inp = (dict(builds=m["job"]["builds"], pre=m["job"]["pre"]) if m["type"] == "disk" else
               dict(header=m["job"].get("header"), jmc_txt=m["job"]["cert"], copy_tree=m["job"].get("copy_tree")))
        ck.violation(dict(kind="wrong-folder" if wrong_folders or any(x["what"].startswith("resource") for x in missing) else "dangling-reference",
                          probe=m["probe"]["name"], pack_format=m["fmt"], src=m["job"]["src"], **inp,
                          expected=exp_txt,
                          missing=missing, wrong_folders=wrong_folders, actual_files=m["paths"]))
    seen = set()
    for i in bad["f"]:
        m = fmeta[i]
        key = (m["probe"]["name"], m["res"]["ok"])
        if key in seen:
            continue
        seen.add(key)
        rej = not m["res"]["ok"]
        ck.violation(dict(kind="feature-gate", probe=m["probe"]["name"], feature=m["probe"]["feature"], pack_format=m["fmt"], src=m["job"]["src"],
                          header=m["job"].get("header"), jmc_txt=m["job"]["cert"],
                          expected=("accepted (no gate of the source rejects it for this format)" if rej else
                                    "rejected with a diagnostic: this pack format / switch strategy cannot express the feature"),
                          actual=("rejected: " + m["res"]["msg"][:200]) if rej else "compiled",
                          expect_reject=not rej))
    seen = set()
    for i in bad["m"]:
        m = mmeta[i]

        def raises(g):
            return m["pf10"] != -10 and ((m["pf10"] >= g["thr"]) if g["lower"] else (m["pf10"] < g["thr"]))
        raising = [lab for lab in m["active"] if lab in gate_by_label and raises(gate_by_label[lab])]
        if m["type"] == "scan":
            why = f"the emitted line {m['line']!r} uses syntax ({m['uses'][0]}) that the Minecraft of this pack format cannot parse"
            expect_reject = True
        elif m["outcome"] == 0 and raising:
            why, expect_reject = f"the regenerated gate(s) {raising} apply to this argument combination and raise for this format", True
        elif m["outcome"] == 0:
            why = (f"this argument combination makes the output use {m['uses']}, which this pack format cannot express, and no version gate is reached "
                   f"(gates reached for this combination: {m['active'] or 'none'})")
            expect_reject = True
        else:
            why, expect_reject = f"a version diagnostic although no regenerated gate that applies to this combination raises (applying: {m['active'] or 'none'})", False
        key = (m["probe"]["name"], m["type"], m["outcome"], expect_reject)
        if key in seen:
            continue
        seen.add(key)
        ck.violation(dict(kind="feature-gate", probe=m["probe"]["name"], feature=",".join(m["uses"]), pack_format=m["fmt"], src=m["job"]["src"],
                          header=m["job"].get("header"), jmc_txt=m["job"]["cert"], arguments=m.get("explicit"),
                          expected=("rejected with a version diagnostic: " if expect_reject else "accepted: ") + why,
                          actual="compiled" if m["res"]["ok"] else "rejected: " + m["res"]["msg"][:200], expect_reject=expect_reject))
    # a diagnostic of another kind that depends on the format without a gate saying so: the program is rejected either way, so this is
    # recorded, not judged (e.g. Item.createSign with 8 lines below format 13: "Sign may only have 4 lines")
    by_combo, fd_obs = {}, []
    for m in mmeta:
        if m["type"] == "matrix":
            by_combo.setdefault((m["probe"]["name"], tuple(sorted(m["explicit"].items()))), []).append(m)
    for (pname, combo), ms in by_combo.items():
        def raising(m):
            return any(lab in gate_by_label and m["pf10"] != -10 and ((m["pf10"] >= gate_by_label[lab]["thr"]) if gate_by_label[lab]["lower"]
                                                                   else (m["pf10"] < gate_by_label[lab]["thr"])) for lab in m["active"])
        ok_f = [m for m in ms if m["outcome"] == 0]
        other = [m for m in ms if m["outcome"] == 2 and not raising(m)]
        if ok_f and other:
            fd_obs.append(dict(builtin=pname, arguments=dict(combo), rejected_for=[m["fmt"] for m in other][:6], message=other[0]["res"]["msg"].split("\n")[1][:100]
                               if "\n" in other[0]["res"]["msg"] else other[0]["res"]["msg"][:100]))
    if t and t.get("reach_errors"):
        ck.violation(dict(kind="translator-failed", what="translate_sites.py cannot tell under which conditions a version gate is reached (fail-closed)",
                          error="; ".join(t["reach_errors"]),
                          theorem="C18_features_of_the_source speaks about gates that are reached whenever their feature is used"),
                     no_input=len(ck.violations) == n_viol_before)
    if matrix_missing:
        ck.violation(dict(kind="gated-builtin-without-probe", builtins=matrix_missing,
                          what="a version gate is reached from a built-in for which harness/c18.py BUILTIN_PROBE has no argument values (fail closed)"),
                     no_input=True)
    for i in bad["r"][:3]:
        m = rmeta[i]
        ck.violation(dict(kind="require", pf=m["fmt"], f=m["thr"], is_lower=m["lower"], actual=m["res"]["r"],
                          expected="raises iff pf != -1 and (pf < f, resp. pf >= f when is_lower)"))

    found_input = len(ck.violations) > n_viol_before
    if terr:
        ck.violation(dict(kind="translator-failed", what="translate_sites.py could not regenerate the site table (fail-closed)", error=terr,
                          theorem="C18_folders_of_the_source / C18_features_of_the_source are not established for this tree"), no_input=not found_input)
    elif not oblig_ok:
        ck.violation(dict(kind="regenerated-obligation-failed", file="coq/Gen/C18/Obligations.v",
                          failing_sites=failing_sites_txt, failing_features=failing_feat_txt,
                          what="the regenerated site/gate table does not satisfy site_check / gates_check"), no_input=not found_input)

    # ---------------------------------------------------------------- evidence
    nsites = len(t["sites"]) if t else 0
    hist = {}
    for m in pmeta:
        hist[m["probe"]["name"]] = hist.get(m["probe"]["name"], 0) + 1
    distinct = (len({(m["probe"]["name"], m["pf10"], m["cert"]) for m in pmeta}) + len({(m["probe"]["name"], m["pf10"]) for m in fmeta}) + len(rcases)
                + len({(m["probe"]["name"], m["pf10"], m["type"], tuple(sorted((m.get("explicit") or {}).items()))) for m in mmeta}))
    mstat = {}
    for m in mmeta:
        if m["type"] == "matrix":
            e = mstat.setdefault(m["probe"]["name"], dict(combinations=set(), compiled=0, version_diagnostic=0, other_diagnostic=0))
            e["combinations"].add(tuple(sorted(m["explicit"].items())))
            e[["compiled", "version_diagnostic", "other_diagnostic"][m["outcome"]]] += 1
    for e in mstat.values():
        e["combinations"] = len(e["combinations"])
    ck.cov.update(dict(
        evaluations=len(pcases) + len(fcases) + len(rcases) + len(mcases), distinct_nontrivial=distinct,
        rule="probe case = (program exercising one call site / lookup, pack format, jmc.txt name set): Coq checks that the site's resource is at jmc_path = mc_path, "
             "that every reference found in the emitted commands/JSON resolves (mc_path) to an emitted file and that every emitted file sits in mc_folder of its kind; "
             "feature case = (feature program, pack format): rejected with a version diagnostic iff a regenerated gate raises, and accepted only if expressible; "
             "require case = direct PackVersion.require call on the grid formats x thresholds x is_lower. distinct = distinct tuples (all exercise a model branch)",
        samples=[dict(probe=m["probe"]["name"], pack_format=m["fmt"], files=m["paths"][:6], refs=m["refs"][:4]) for m in pmeta[:2] + pmeta[len(pmeta) // 2:len(pmeta) // 2 + 2]],
        programs=len(jobs), disagreements_checked=len(bad["p"]) + len(bad["f"]) + len(bad["r"]),
        sites_regenerated=nsites, site_labels=[s["label"] for s in t["sites"]] if t else [],
        gates_regenerated=[g["label"] for g in t["gates"]] if t else [], unmapped_gates=t["unmapped_gates"] if t else [],
        formats=fmts, formats_in_table=len(table10), probe_histogram=hist, feature_rejections_observed=n_reject_ok,
        sites_without_probe=sorted(set(label_index) - {lab for pr in PROBES for lab, _, _ in pr["expect"]}),
        thresholds=t["features"] if t else {},
        gate_reach={g["label"]: g["reach"] for g in t["gates"]} if t else {},
        gated_builtins={b["call_string"]: {g["label"].split(":", 1)[1]: g["conds_text"] for g in b["gates"]} for b in t["gated_builtins"]} if t else {},
        builtin_argument_matrix=mstat, builtin_known_crashes=builtin_crashes, format_dependent_other_diagnostics=fd_obs[:8],
        output_syntax_scans=sum(1 for m in mmeta if m["type"] == "scan"),
        builtin_matrix_rule="per version-gated built-in: full product of its boolean arguments (absent / false / true) and the arguments a gate condition "
                            "mentions (absent / given), plus every other optional argument (explicit default, alternative) on top of every boolean combination; x every format; "
                            "m-case: compiled => no gate whose regenerated reach condition holds raises and every used feature is expressible; version diagnostic => such a gate raises",
    ))
    return ck.finish()


def replay(path: str) -> int:
    rp = json.loads(Path(path).read_text() if Path(path).exists() else (VERIF / path).read_text())
    if rp.get("kind") == "require":
        r = run_py(RUNNER, [dict(kind="require", pf=rp["pf"], f=rp["f"], lower=rp["is_lower"])])[0]
        print("expected:", rp["expected"]); print("actual  :", r["r"])
        pf, f = float(rp["pf"]), float(rp["f"])
        want = (2 if (pf != -1 and pf >= f) else 0) if rp["is_lower"] else (1 if (pf != -1 and pf < f) else 0)
        return 0 if r["r"] == want else 1
    if "src" not in rp:
        print("replay file names no input (", rp.get("kind"), "):", rp.get("what") or rp.get("error"))
        return 1
    if "builds" in rp:
        r = run_py(RUNNER, [dict(kind="disk", src=rp["src"], pre=rp["pre"], builds=rp["builds"], namespace=NS)])[0]
        print("program     :", rp["src"]); print("disk builds :", rp["builds"], "into a directory holding", sorted(rp["pre"]))
        print("expected    :", rp["expected"])
        if not r["ok"]:
            print("actual      :", r["exc"], r["msg"][:300])
            return 1
        ours = sorted(p for p, c in r["files"].items() if p.startswith(f"data/{NS}/") or (p.startswith("data/minecraft/tags/") and f'"{NS}:' in c))
        print("actual files (of this namespace / tag files naming it):", ours)
        still = [m for m in rp.get("missing", []) if m["expected_file"] not in ours]
        still += [w for w in rp.get("wrong_folders", []) if any(re.match(r"data/[^/]+/%s/" % re.escape(w["folder"]), p) for p in ours)]
        still += [p for p in rp.get("foreign", []) if p in r["files"] and r["files"][p] != rp["pre"][p]]
        return 1 if still else 0
    job = dict(kind="compile", src=rp["src"], header=rp.get("header"), cert=rp["jmc_txt"], pack_format=rp["pack_format"])
    if rp.get("copy_tree"):
        job["copy_tree"] = rp["copy_tree"]
    r = run_py(RUNNER, [job])[0]
    print("program     :", rp["src"]); print("pack_format :", rp["pack_format"]); print("expected    :", rp["expected"])
    if rp["kind"] == "feature-gate":
        rejected = not r["ok"]
        print("actual      :", "rejected with " + r["exc"] if rejected else "compiled")
        return 0 if rejected == rp["expect_reject"] else 1
    if not r["ok"]:
        print("actual      :", r["exc"], r["msg"][:300])
        return 1
    paths = [p.split("/", 1)[1] for p in r["files"]] + [k.split("/", 1)[1] for k in (rp.get("copy_tree") or {})]
    print("actual files:", paths)
    still = [m for m in rp.get("missing", []) if m["expected_file"] not in paths]
    still += [w for w in rp.get("wrong_folders", []) if any(re.match(r"data/[^/]+/%s/" % re.escape(w["folder"]), p) for p in paths)]
    return 1 if still else 0
